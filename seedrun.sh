#!/bin/bash
# seedrun.sh <seed-id> <property> [tier]: apply a seeded change to /repo, run the property's check, undo.
ID=$1; PROP=$2; TIER=${3:-quick}
cd /repo && [ -z "$(git status --porcelain)" ] || { echo "/repo is not clean"; exit 2; }
git -C /repo apply /verif/seeded/$ID/patch.diff || exit 2
cd /verif && VERIF_EVIDENCE_DIR=/verif/.work/evidence-seeds ./check $PROP $TIER > /tmp/seedrun-$ID-$PROP.log 2>&1; RC=$?
git -C /repo checkout -- .
grep -E "^VIOLATION|^KNOWN|quick:|thorough:|INCONCLUSIVE" /tmp/seedrun-$ID-$PROP.log | cut -c1-260
echo "seed=$ID check=$PROP tier=$TIER rc=$RC"
