// Package wire is an independent implementation of the parts of the HBase
// RPC wire format that gohbase hand-writes: KeyValue cells, Hadoop
// block-compressed streams, request/response framing and the hbase:meta row
// order. It is used only by oracles and by the simulated servers.
package wire

import (
	"encoding/binary"
	"errors"
	"fmt"
)

// Cell is a decoded KeyValue.
type Cell struct {
	Row       []byte
	Family    []byte
	Qualifier []byte
	Timestamp uint64
	Type      byte
	Value     []byte
}

// KeyValue type bytes.
const (
	TypePut                 = 4
	TypeDelete              = 8
	TypeDeleteFamilyVersion = 10
	TypeDeleteColumn        = 12
	TypeDeleteFamily        = 14
)

// AppendCell appends the KeyValue encoding of c (with the 4-byte total
// length prefix used in cellblocks).
func AppendCell(dst []byte, c Cell) []byte {
	keyLen := 2 + len(c.Row) + 1 + len(c.Family) + len(c.Qualifier) + 8 + 1
	total := 4 + 4 + keyLen + len(c.Value)
	var u4 [4]byte
	binary.BigEndian.PutUint32(u4[:], uint32(total))
	dst = append(dst, u4[:]...)
	binary.BigEndian.PutUint32(u4[:], uint32(keyLen))
	dst = append(dst, u4[:]...)
	binary.BigEndian.PutUint32(u4[:], uint32(len(c.Value)))
	dst = append(dst, u4[:]...)
	dst = append(dst, byte(len(c.Row)>>8), byte(len(c.Row)))
	dst = append(dst, c.Row...)
	dst = append(dst, byte(len(c.Family)))
	dst = append(dst, c.Family...)
	dst = append(dst, c.Qualifier...)
	var u8 [8]byte
	binary.BigEndian.PutUint64(u8[:], c.Timestamp)
	dst = append(dst, u8[:]...)
	dst = append(dst, c.Type)
	dst = append(dst, c.Value...)
	return dst
}

// DecodeCell decodes one length-prefixed KeyValue from the front of b with
// full bounds checking; returns the cell and the number of bytes consumed.
func DecodeCell(b []byte) (Cell, int, error) {
	var c Cell
	if len(b) < 4 {
		return c, 0, errors.New("truncated: no total length")
	}
	total := int(binary.BigEndian.Uint32(b))
	if total < 0 || total > len(b)-4 {
		return c, 0, fmt.Errorf("total length %d exceeds remaining %d", total, len(b)-4)
	}
	kv := b[4 : 4+total]
	if len(kv) < 8 {
		return c, 0, errors.New("keyvalue shorter than its two length fields")
	}
	keyLen := int(binary.BigEndian.Uint32(kv))
	valLen := int(binary.BigEndian.Uint32(kv[4:]))
	if keyLen < 0 || valLen < 0 || 8+keyLen+valLen != total {
		return c, 0, fmt.Errorf("key length %d + value length %d + 8 != total %d", keyLen, valLen, total)
	}
	key := kv[8 : 8+keyLen]
	if len(key) < 2 {
		return c, 0, errors.New("key too short for row length")
	}
	rowLen := int(binary.BigEndian.Uint16(key))
	if 2+rowLen+1 > len(key) {
		return c, 0, errors.New("row length exceeds key")
	}
	c.Row = key[2 : 2+rowLen]
	famLen := int(key[2+rowLen])
	rest := key[2+rowLen+1:]
	if famLen+9 > len(rest) {
		return c, 0, errors.New("family length exceeds key")
	}
	c.Family = rest[:famLen]
	rest = rest[famLen:]
	c.Qualifier = rest[:len(rest)-9]
	c.Timestamp = binary.BigEndian.Uint64(rest[len(rest)-9:])
	c.Type = rest[len(rest)-1]
	c.Value = kv[8+keyLen:]
	return c, 4 + total, nil
}

// DecodeCells decodes exactly n cells from the front of b.
func DecodeCells(b []byte, n int) ([]Cell, int, error) {
	var out []Cell
	off := 0
	for i := 0; i < n; i++ {
		c, l, err := DecodeCell(b[off:])
		if err != nil {
			return nil, off, fmt.Errorf("cell %d at offset %d: %w", i, off, err)
		}
		out = append(out, c)
		off += l
	}
	return out, off, nil
}

// DecodeAllCells decodes cells until b is exhausted.
func DecodeAllCells(b []byte) ([]Cell, error) {
	var out []Cell
	for len(b) > 0 {
		c, l, err := DecodeCell(b)
		if err != nil {
			return nil, fmt.Errorf("cell %d: %w", len(out), err)
		}
		out = append(out, c)
		b = b[l:]
	}
	return out, nil
}
