package wire

import (
	"bytes"
	"encoding/binary"
	"errors"
	"fmt"
	"io"

	"github.com/tsuna/gohbase/pb"
	"google.golang.org/protobuf/encoding/protowire"
	"google.golang.org/protobuf/proto"
)

// Preamble is what a client must send first: magic, version 0, auth SIMPLE.
var Preamble = []byte{'H', 'B', 'a', 's', 0x00, 0x50}

// Hello is the decoded connection preamble + header.
type Hello struct {
	Header *pb.ConnectionHeader
	Raw    []byte
}

// ReadHello reads and validates the preamble and the connection header.
func ReadHello(r io.Reader) (*Hello, error) {
	var pre [10]byte
	if _, err := io.ReadFull(r, pre[:]); err != nil {
		return nil, fmt.Errorf("reading preamble: %w", err)
	}
	if !bytes.Equal(pre[:6], Preamble) {
		return nil, fmt.Errorf("bad preamble %q", pre[:6])
	}
	n := binary.BigEndian.Uint32(pre[6:])
	if n > 1<<20 {
		return nil, fmt.Errorf("connection header length %d", n)
	}
	buf := make([]byte, n)
	if _, err := io.ReadFull(r, buf); err != nil {
		return nil, fmt.Errorf("reading connection header: %w", err)
	}
	h := &pb.ConnectionHeader{}
	if err := proto.Unmarshal(buf, h); err != nil {
		return nil, fmt.Errorf("connection header: %w", err)
	}
	return &Hello{Header: h, Raw: append(pre[:], buf...)}, nil
}

// Request is one decoded request frame.
type Request struct {
	Header    *pb.RequestHeader
	Param     []byte // serialized request message
	CellBlock []byte // trailing cellblock bytes (possibly compressed)
	FrameLen  int    // total bytes including the 4-byte prefix
}

// ReadRequest reads one request frame from r and checks its internal
// consistency: the length prefix covers exactly a delimited header, a
// delimited request and cell_block_meta.length trailing bytes.
func ReadRequest(r io.Reader) (*Request, error) {
	var sz [4]byte
	if _, err := io.ReadFull(r, sz[:]); err != nil {
		return nil, err
	}
	n := binary.BigEndian.Uint32(sz[:])
	if n > 1<<28 {
		return nil, fmt.Errorf("frame length %d is implausible", n)
	}
	buf := make([]byte, n)
	if _, err := io.ReadFull(r, buf); err != nil {
		return nil, fmt.Errorf("frame of %d bytes truncated: %w", n, err)
	}
	req, err := ParseRequest(buf)
	if err != nil {
		return nil, err
	}
	req.FrameLen = int(n) + 4
	return req, nil
}

// ParseRequest parses the body of a request frame (after the length prefix).
func ParseRequest(buf []byte) (*Request, error) {
	hb, hl := protowire.ConsumeBytes(buf)
	if hl < 0 {
		return nil, errors.New("request header is not a delimited message")
	}
	h := &pb.RequestHeader{}
	if err := proto.Unmarshal(hb, h); err != nil {
		return nil, fmt.Errorf("request header: %w", err)
	}
	rest := buf[hl:]
	req := &Request{Header: h}
	if h.GetRequestParam() {
		pbs, pl := protowire.ConsumeBytes(rest)
		if pl < 0 {
			return nil, errors.New("request param is not a delimited message")
		}
		req.Param = pbs
		rest = rest[pl:]
	}
	want := 0
	if h.CellBlockMeta != nil {
		want = int(h.CellBlockMeta.GetLength())
	}
	if len(rest) != want {
		return nil, fmt.Errorf("cell_block_meta.length=%d but %d bytes follow the request", want, len(rest))
	}
	req.CellBlock = rest
	return req, nil
}

// BuildResponse assembles a response frame.
func BuildResponse(callID uint32, msg proto.Message, cellblock []byte, exc *pb.ExceptionResponse) []byte {
	h := &pb.ResponseHeader{CallId: &callID, Exception: exc}
	if len(cellblock) > 0 {
		l := uint32(len(cellblock))
		h.CellBlockMeta = &pb.CellBlockMeta{Length: &l}
	}
	return BuildRawResponse(h, msg, cellblock)
}

// BuildRawResponse assembles a response frame from an arbitrary header.
func BuildRawResponse(h *pb.ResponseHeader, msg proto.Message, cellblock []byte) []byte {
	hb, err := proto.MarshalOptions{AllowPartial: true}.Marshal(h)
	if err != nil {
		panic(err)
	}
	body := protowire.AppendBytes(nil, hb)
	if msg != nil {
		// AllowPartial: malformed-input tests build messages that lack required fields
		mb, err := proto.MarshalOptions{AllowPartial: true}.Marshal(msg)
		if err != nil {
			panic(err)
		}
		body = protowire.AppendBytes(body, mb)
	}
	body = append(body, cellblock...)
	out := make([]byte, 4, 4+len(body))
	binary.BigEndian.PutUint32(out, uint32(len(body)))
	return append(out, body...)
}

// Exception builds an ExceptionResponse.
func Exception(class, stack string) *pb.ExceptionResponse {
	return &pb.ExceptionResponse{ExceptionClassName: proto.String(class), StackTrace: proto.String(stack)}
}

// MetaTuple splits a region name / meta row into (table, start key, id).
func MetaTuple(name []byte) (table, key, id []byte, ok bool) {
	i := bytes.IndexByte(name, ',')
	j := bytes.LastIndexByte(name, ',')
	if i < 0 || j <= i {
		return nil, nil, nil, false
	}
	return name[:i], name[i+1 : j], name[j+1:], true
}

// MetaCompare orders hbase:meta rows the way HBase's meta comparator does:
// by table, then start key, then the id suffix.
func MetaCompare(a, b []byte) int {
	at, ak, ai, ok1 := MetaTuple(a)
	bt, bk, bi, ok2 := MetaTuple(b)
	if !ok1 || !ok2 {
		return bytes.Compare(a, b)
	}
	if c := bytes.Compare(at, bt); c != 0 {
		return c
	}
	if c := bytes.Compare(ak, bk); c != 0 {
		return c
	}
	return bytes.Compare(ai, bi)
}
