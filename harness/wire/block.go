package wire

import (
	"encoding/binary"
	"errors"
	"fmt"

	"github.com/golang/snappy"
)

// SnappyChunk is the chunk size HBase's snappy BlockCompressorStream uses
// for a 256 KiB buffer: bufferSize*5/6 - 32.
const SnappyChunk = 256*1024*5/6 - 32

// BlockStats describes the structure of a block-compressed stream.
type BlockStats struct {
	Blocks        int
	Chunks        int
	MaxChunkPlain int
	// MaxDeclaredBlock is the largest block length field read (even if the
	// stream turned out to be malformed afterwards).
	MaxDeclaredBlock int
}

// WriteBlocks is an independent writer of Hadoop's block-compressed stream:
// payload is cut into blocks at blockEnds (ascending offsets, last one =
// len(payload)); each block is cut into chunks whose plain sizes come from
// chunkSize(remaining) (must return 1..remaining).
func WriteBlocks(payload []byte, blockEnds []int, chunkSize func(remaining int) int) []byte {
	var out []byte
	var u4 [4]byte
	start := 0
	if len(payload) == 0 {
		return []byte{0, 0, 0, 0}
	}
	for _, end := range blockEnds {
		block := payload[start:end]
		start = end
		binary.BigEndian.PutUint32(u4[:], uint32(len(block)))
		out = append(out, u4[:]...)
		for len(block) > 0 {
			n := chunkSize(len(block))
			if n < 1 {
				n = 1
			}
			if n > len(block) {
				n = len(block)
			}
			enc := snappy.Encode(nil, block[:n])
			binary.BigEndian.PutUint32(u4[:], uint32(len(enc)))
			out = append(out, u4[:]...)
			out = append(out, enc...)
			block = block[n:]
		}
	}
	return out
}

// ReadBlocks is an independent, strict reader of the format. It fails on any
// structural problem: truncated length fields or chunks, a chunk that does
// not decode, a block whose chunks add up to more than the declared length,
// a stream ending inside a block.
func ReadBlocks(b []byte) ([]byte, BlockStats, error) {
	var out []byte
	var st BlockStats
	for len(b) > 0 {
		if len(b) < 4 {
			return nil, st, errors.New("truncated block length")
		}
		blockLen := int(binary.BigEndian.Uint32(b))
		b = b[4:]
		st.Blocks++
		if blockLen > st.MaxDeclaredBlock {
			st.MaxDeclaredBlock = blockLen
		}
		got := 0
		for got < blockLen {
			if len(b) < 4 {
				return nil, st, errors.New("truncated chunk length")
			}
			cl := int(binary.BigEndian.Uint32(b))
			b = b[4:]
			if cl < 0 || cl > len(b) {
				return nil, st, fmt.Errorf("chunk length %d exceeds remaining %d", cl, len(b))
			}
			dl, err := snappy.DecodedLen(b[:cl])
			if err != nil {
				return nil, st, fmt.Errorf("chunk header: %w", err)
			}
			if dl > blockLen-got {
				return nil, st, fmt.Errorf("chunk declares %d bytes, only %d left in block", dl, blockLen-got)
			}
			if dl > 64<<20 {
				// (streams declaring blocks of this size are excluded by every caller through
				// MaxDeclaredBlock; do not allocate gigabytes to find out)
				return nil, st, fmt.Errorf("chunk declares %d bytes: more than this reader allocates", dl)
			}
			plain, err := snappy.Decode(nil, b[:cl])
			if err != nil {
				return nil, st, fmt.Errorf("chunk: %w", err)
			}
			b = b[cl:]
			st.Chunks++
			if len(plain) > st.MaxChunkPlain {
				st.MaxChunkPlain = len(plain)
			}
			got += len(plain)
			out = append(out, plain...)
		}
	}
	return out, st, nil
}
