// Package evid collects per-run statistics of a property check and writes
// them where the driver (/verif/check) finds them. It also persists failing
// cases as replay files.
package evid

import (
	"encoding/binary"
	"encoding/json"
	"fmt"
	"hash/fnv"
	"os"
	"path/filepath"
	"sort"
	"strconv"
	"strings"
	"sync"
	"time"
)

// B is a byte string that marshals to JSON as a Go-quoted ASCII string, so
// that replay files and evidence samples are readable.
type B []byte

func (b B) MarshalJSON() ([]byte, error) {
	q := strconv.QuoteToASCII(string(b))
	return json.Marshal(q[1 : len(q)-1])
}

func (b *B) UnmarshalJSON(data []byte) error {
	var s string
	if err := json.Unmarshal(data, &s); err != nil {
		return err
	}
	// QuoteToASCII already escaped embedded quotes and backslashes
	u, err := strconv.Unquote(`"` + s + `"`)
	if err != nil {
		return err
	}
	*b = B(u)
	return nil
}

// Failure is one oracle alarm.
type Failure struct {
	Sig     string `json:"sig"`
	Message string `json:"message"`
	Replay  string `json:"replay"`
	Test    string `json:"test"`
}

// Stats is what one test process reports to the driver.
type Stats struct {
	Property    string `json:"property"`
	Test        string `json:"test"`
	Shard       int    `json:"shard"`
	Evaluations int64  `json:"evaluations"`
	Distinct    int64  `json:"distinct_nontrivial"`
	Capped      bool   `json:"distinct_capped"`
	// DistinctByConstruction counts non-trivial cases of an enumeration whose
	// members are pairwise distinct by construction (not hashed).
	DistinctByConstruction int64            `json:"distinct_by_construction"`
	HashFile               string           `json:"hash_file,omitempty"`
	Labels                 map[string]int64 `json:"labels"`
	Samples                []any            `json:"samples"`
	Failures               []Failure        `json:"failures"`
	Excluded               map[string]int64 `json:"excluded,omitempty"`
	Extra                  map[string]any   `json:"extra,omitempty"`
	Rule                   string           `json:"rule"`
	Exhaustive             bool             `json:"exhaustive,omitempty"`
	WallS                  float64          `json:"wall_s"`
	Completed              bool             `json:"completed"`
}

const maxDistinct = 1 << 20

// Recorder accumulates statistics. Safe for concurrent use.
type Recorder struct {
	mu        sync.Mutex
	st        Stats
	seen      map[uint64]struct{}
	start     time.Time
	nsample   int
	outDir    string
	known     map[string]bool
	lastFlush time.Time
}

// Env helpers -----------------------------------------------------------

// Tier returns "quick" or "thorough".
func Tier() string {
	if os.Getenv("VERIF_TIER") == "thorough" {
		return "thorough"
	}
	return "quick"
}

// Thorough reports whether the thorough tier is running.
func Thorough() bool { return Tier() == "thorough" }

// Shard returns this process's shard index and the number of shards.
func Shard() (int, int) {
	i, _ := strconv.Atoi(os.Getenv("VERIF_SHARD"))
	n, _ := strconv.Atoi(os.Getenv("VERIF_NSHARDS"))
	if n < 1 {
		n = 1
	}
	return i, n
}

// Seed returns the base seed for this process (never 0).
func Seed() uint64 {
	s, _ := strconv.ParseUint(os.Getenv("VERIF_SEED"), 10, 64)
	i, _ := Shard()
	s = s*1000 + uint64(i) + 1
	return s
}

// Count returns n scaled by VERIF_COUNT_<name> or VERIF_SCALE if set.
func Count(name string, quick, thorough int) int {
	n := quick
	if Thorough() {
		n = thorough
	}
	if v := os.Getenv("VERIF_COUNT_" + name); v != "" {
		if x, err := strconv.Atoi(v); err == nil {
			return x
		}
	}
	if v := os.Getenv("VERIF_SCALE"); v != "" {
		if f, err := strconv.ParseFloat(v, 64); err == nil {
			n = int(float64(n) * f)
			if n < 1 {
				n = 1
			}
		}
	}
	return n
}

// ReplayPath returns the path of a replay file to run instead of generating.
func ReplayPath() string { return os.Getenv("VERIF_REPLAY") }

// New starts a recorder for (property, test).
func New(property, test, rule string) *Recorder {
	shard, _ := Shard()
	out := os.Getenv("VERIF_OUT")
	if out == "" {
		out = filepath.Join(os.TempDir(), "verif-out")
	}
	os.MkdirAll(out, 0o755)
	r := &Recorder{
		seen:   make(map[uint64]struct{}),
		start:  time.Now(),
		outDir: out,
		known:  map[string]bool{},
	}
	for _, k := range strings.Split(os.Getenv("VERIF_KNOWN"), ";") {
		if k != "" {
			r.known[k] = true
		}
	}
	r.st = Stats{Property: property, Test: test, Shard: shard, Rule: rule,
		Labels: map[string]int64{}, Excluded: map[string]int64{}, Extra: map[string]any{}}
	return r
}

// Known reports whether sig is listed as a known finding (the generator
// then excludes that class and counts the exclusion with Exclude).
func (r *Recorder) Known(sig string) bool { return r.known[sig] }

// Exclude counts a case that was skipped because of a known finding.
func (r *Recorder) Exclude(sig string) {
	r.mu.Lock()
	r.st.Excluded[sig]++
	r.mu.Unlock()
}

// Hash hashes arbitrary parts into a case hash.
func Hash(parts ...[]byte) uint64 {
	h := fnv.New64a()
	var l [4]byte
	for _, p := range parts {
		binary.LittleEndian.PutUint32(l[:], uint32(len(p)))
		h.Write(l[:])
		h.Write(p)
	}
	return h.Sum64()
}

// HashJSON hashes the JSON encoding of v.
func HashJSON(v any) uint64 {
	b, _ := json.Marshal(v)
	return Hash(b)
}

// Case records one evaluated case.
func (r *Recorder) Case(hash uint64, nontrivial bool, labels ...string) {
	r.mu.Lock()
	r.st.Evaluations++
	if nontrivial {
		if len(r.seen) < maxDistinct {
			r.seen[hash] = struct{}{}
		} else {
			r.st.Capped = true
		}
	}
	for _, l := range labels {
		r.st.Labels[l]++
	}
	r.mu.Unlock()
}

// Evals adds n evaluations without per-case bookkeeping (bulk loops).
func (r *Recorder) Evals(n int64) {
	r.mu.Lock()
	r.st.Evaluations += n
	r.mu.Unlock()
}

// Label adds n to a label counter.
func (r *Recorder) Label(l string, n int64) {
	r.mu.Lock()
	r.st.Labels[l] += n
	r.mu.Unlock()
}

// Distinct adds a non-trivial case hash without counting an evaluation.
func (r *Recorder) Distinct(hash uint64) {
	r.mu.Lock()
	if len(r.seen) < maxDistinct {
		r.seen[hash] = struct{}{}
	} else {
		r.st.Capped = true
	}
	r.mu.Unlock()
}

// DistinctN adds n non-trivial cases that are distinct by construction
// (members of an enumeration without repetition).
func (r *Recorder) DistinctN(n int64) {
	r.mu.Lock()
	r.st.DistinctByConstruction += n
	r.mu.Unlock()
}

// WantSample says whether another sample is wanted (keeps the first few and
// then an exponentially thinning trickle, so that late cases show up too).
func (r *Recorder) WantSample() bool {
	r.mu.Lock()
	defer r.mu.Unlock()
	r.nsample++
	n := r.nsample
	if n <= 3 {
		return true
	}
	// powers of 4
	for n%4 == 0 {
		n /= 4
	}
	return n == 1 && len(r.st.Samples) < 12
}

// Sample stores a sample case (anything JSON-encodable).
func (r *Recorder) Sample(v any) {
	b, err := json.Marshal(v)
	if err != nil {
		return
	}
	if len(b) > 6000 {
		b, _ = json.Marshal(map[string]any{"truncated_json": string(b[:6000])})
	}
	r.mu.Lock()
	if len(r.st.Samples) < 16 {
		r.st.Samples = append(r.st.Samples, json.RawMessage(b))
	}
	r.mu.Unlock()
}

// SetExtra stores an additional key in the stats.
func (r *Recorder) SetExtra(k string, v any) {
	r.mu.Lock()
	r.st.Extra[k] = v
	r.mu.Unlock()
}

// AddExtra adds to a numeric extra.
func (r *Recorder) AddExtra(k string, n int64) {
	r.mu.Lock()
	old, _ := r.st.Extra[k].(int64)
	r.st.Extra[k] = old + n
	r.mu.Unlock()
}

// SetExhaustive marks that a finite space was enumerated completely.
func (r *Recorder) SetExhaustive(v bool) {
	r.mu.Lock()
	r.st.Exhaustive = v
	r.mu.Unlock()
}

func sanitize(s string) string {
	var sb strings.Builder
	for _, c := range s {
		switch {
		case c >= 'a' && c <= 'z', c >= 'A' && c <= 'Z', c >= '0' && c <= '9', c == '-', c == '_', c == '.':
			sb.WriteRune(c)
		default:
			sb.WriteByte('_')
		}
	}
	out := sb.String()
	if len(out) > 80 {
		out = out[:80]
	}
	return out
}

// ReplayFile is the on-disk format of a failing case.
type ReplayFile struct {
	Property string          `json:"property"`
	Test     string          `json:"test"`
	Sig      string          `json:"sig"`
	Message  string          `json:"message"`
	Seed     uint64          `json:"seed"`
	Case     json.RawMessage `json:"case"`
}

// Fail records an oracle alarm and writes/overwrites the replay file for its
// signature (rapid re-runs the minimal case last, so the file ends up holding
// the shrunk case). Returns the replay path.
func (r *Recorder) Fail(sig, msg string, c any) string {
	dir := os.Getenv("VERIF_REPLAY_DIR")
	if dir == "" {
		dir = filepath.Join(r.outDir, "replays")
	}
	dir = filepath.Join(dir, r.st.Property)
	os.MkdirAll(dir, 0o755)
	path := filepath.Join(dir, sanitize(r.st.Test+"."+sig)+".json")
	cb, err := json.Marshal(c)
	if err != nil {
		cb, _ = json.Marshal(fmt.Sprintf("%+v", c))
	}
	if len(msg) > 4000 {
		msg = msg[:4000] + "…"
	}
	rf := ReplayFile{Property: r.st.Property, Test: r.st.Test, Sig: sig, Message: msg,
		Seed: Seed(), Case: cb}
	fb, _ := json.MarshalIndent(rf, "", " ")
	if ReplayPath() == "" { // never overwrite while replaying
		tmp := path + fmt.Sprintf(".tmp%d", os.Getpid())
		if os.WriteFile(tmp, fb, 0o644) == nil {
			os.Rename(tmp, path)
		}
	} else {
		path = ReplayPath()
	}
	r.mu.Lock()
	found := false
	for i := range r.st.Failures {
		if r.st.Failures[i].Sig == sig {
			r.st.Failures[i].Message = msg
			found = true
		}
	}
	if !found {
		r.st.Failures = append(r.st.Failures, Failure{Sig: sig, Message: msg, Replay: path,
			Test: r.st.Test})
	}
	r.mu.Unlock()
	r.flush(false)
	return path
}

// LoadReplay reads the case of a replay file into v.
func LoadReplay(path string, v any) (*ReplayFile, error) {
	b, err := os.ReadFile(path)
	if err != nil {
		return nil, err
	}
	var rf ReplayFile
	if err := json.Unmarshal(b, &rf); err != nil {
		return nil, err
	}
	if err := json.Unmarshal(rf.Case, v); err != nil {
		return nil, err
	}
	return &rf, nil
}

// Journal writes the case about to be executed so that the driver can
// recover it if the process dies (panic in a background goroutine).
func (r *Recorder) Journal(c any) {
	b, err := json.Marshal(c)
	if err != nil {
		return
	}
	rf := ReplayFile{Property: r.st.Property, Test: r.st.Test, Sig: "process-died",
		Message: "journaled case that was running when the test process died", Seed: Seed(), Case: b}
	fb, _ := json.Marshal(rf)
	os.WriteFile(filepath.Join(r.outDir, fmt.Sprintf("journal.%s.%d.json", r.st.Test, r.st.Shard)),
		fb, 0o644)
}

// MaybeFlush writes intermediate statistics at most every few seconds, so
// that a killed process still leaves numbers behind.
func (r *Recorder) MaybeFlush() {
	r.mu.Lock()
	due := time.Since(r.lastFlush) > 5*time.Second
	r.mu.Unlock()
	if due {
		r.flush(false)
	}
}

// Flush writes the final statistics file.
func (r *Recorder) Flush() { r.flush(true) }

func (r *Recorder) flush(final bool) {
	r.mu.Lock()
	defer r.mu.Unlock()
	r.lastFlush = time.Now()
	r.st.Distinct = int64(len(r.seen))
	r.st.WallS = time.Since(r.start).Seconds()
	r.st.Completed = final
	base := filepath.Join(r.outDir, fmt.Sprintf("stats.%s.%d", r.st.Test, r.st.Shard))
	if final {
		hs := make([]uint64, 0, len(r.seen))
		for h := range r.seen {
			hs = append(hs, h)
		}
		sort.Slice(hs, func(i, j int) bool { return hs[i] < hs[j] })
		buf := make([]byte, 8*len(hs))
		for i, h := range hs {
			binary.LittleEndian.PutUint64(buf[8*i:], h)
		}
		if os.WriteFile(base+".hashes", buf, 0o644) == nil {
			r.st.HashFile = base + ".hashes"
		}
	}
	b, _ := json.Marshal(&r.st)
	tmp := base + ".json.tmp"
	if os.WriteFile(tmp, b, 0o644) == nil {
		os.Rename(tmp, base+".json")
	}
}
