package sim

import (
	"bytes"
	"sort"

	"github.com/tsuna/gohbase/pb"
	"google.golang.org/protobuf/proto"

	"verifharness/wire"
)

// metaCompare orders hbase:meta rows like HBase's MetaCellComparator:
// table part up to the first delimiter, then the part up to the last
// delimiter, then the id; rows lacking delimiters sort first.
func metaCompare(l, r []byte) int {
	ld := bytes.IndexByte(l, ',')
	rd := bytes.IndexByte(r, ',')
	lp, rp := l, r
	if ld >= 0 {
		lp = l[:ld]
	}
	if rd >= 0 {
		rp = r[:rd]
	}
	if c := bytes.Compare(lp, rp); c != 0 {
		return c
	}
	switch {
	case ld < 0 && rd >= 0:
		return -1
	case rd < 0 && ld >= 0:
		return 1
	case ld < 0:
		return 0
	}
	l, r = l[ld+1:], r[rd+1:]
	lf := bytes.LastIndexByte(l, ',')
	rf := bytes.LastIndexByte(r, ',')
	lp, rp = l, r
	if lf >= 0 {
		lp = l[:lf]
	}
	if rf >= 0 {
		rp = r[:rf]
	}
	if c := bytes.Compare(lp, rp); c != 0 {
		return c
	}
	switch {
	case lf < 0 && rf >= 0:
		return -1
	case rf < 0 && lf >= 0:
		return 1
	case lf < 0:
		return 0
	}
	return bytes.Compare(l[lf+1:], r[rf+1:])
}

// MetaCompare is exported for tests of the sim itself.
func MetaCompare(l, r []byte) int { return metaCompare(l, r) }

func splitTable(fq string) (ns, table string) {
	for i := 0; i < len(fq); i++ {
		if fq[i] == ':' {
			return fq[:i], fq[i+1:]
		}
	}
	return "default", fq
}

func metaRowCells(r *Region) []wire.Cell {
	return metaRowCellsWith(r, nil)
}

// metaRowCellsWith builds a meta row; info, if non-nil, replaces the regioninfo value.
func metaRowCellsWith(r *Region, info []byte) []wire.Cell {
	ns, tb := splitTable(r.Table)
	ri := &pb.RegionInfo{
		RegionId:  proto.Uint64(r.ID),
		TableName: &pb.TableName{Namespace: []byte(ns), Qualifier: []byte(tb)},
		StartKey:  r.Start,
		EndKey:    r.Stop,
		Offline:   proto.Bool(false),
		Split:     proto.Bool(false),
	}
	b, _ := proto.Marshal(ri)
	val := append([]byte("PBUF"), b...)
	if info != nil {
		val = info
	}
	mk := func(q string, v []byte) wire.Cell {
		return wire.Cell{Row: r.Name, Family: []byte("info"), Qualifier: []byte(q), Timestamp: r.ID, Type: wire.TypePut, Value: v}
	}
	return []wire.Cell{
		mk("regioninfo", val),
		mk("seqnumDuringOpen", []byte{0, 0, 0, 0, 0, 0, 0, 2}),
		mk("server", []byte(r.Addr)),
		mk("serverstartcode", []byte{0, 0, 1, 0x62, 0xf7, 0, 0, 1}),
	}
}

type metaScanner struct {
	rows [][]wire.Cell
}

// execScan serves Scan requests: hbase:meta from the layout model, user
// tables through ScanHandler.
func (c *Cluster) execScan(sc *Conn, req *wire.Request, m *pb.ScanRequest) *Reply {
	c.mu.Lock()
	regName := m.GetRegion().GetValue()
	isMeta := bytes.Equal(regName, []byte("hbase:meta,,1"))
	e := Exec{Addr: sc.Addr, Conn: sc.ID, CallID: req.Header.GetCallId(), Method: "Scan", Region: string(regName)}
	if m.Scan != nil {
		e.Row = m.Scan.GetStartRow()
	}
	if !isMeta {
		handler := c.ScanHandler
		reg, exc := c.checkRegionLocked(sc.Addr, regName, nil, &e)
		if exc != nil {
			c.logExecLocked(e)
			c.mu.Unlock()
			return &Reply{Exc: exc}
		}
		c.mu.Unlock()
		if handler == nil {
			return &Reply{Exc: &Exc{Class: DoNotRetry, Stack: "sim: user-table scans are not configured"}}
		}
		return handler(c, sc, reg, &ScanCtx{Req: m, CallID: req.Header.GetCallId()})
	}
	defer c.mu.Unlock()
	if _, exc := c.checkRegionLocked(sc.Addr, regName, nil, &e); exc != nil {
		c.logExecLocked(e)
		return &Reply{Exc: exc}
	}
	if m.ScannerId != nil {
		// continuation / close of a meta scanner: nothing more to give
		e.Executed, e.Result = true, "ok"
		c.logExecLocked(e)
		return &Reply{Msg: &pb.ScanResponse{ScannerId: m.ScannerId, MoreResultsInRegion: proto.Bool(false), MoreResults: proto.Bool(false)}}
	}
	c.MetaScans++
	e.Method = "MetaScan"
	c.logExecLocked(Exec{Addr: e.Addr, Conn: e.Conn, CallID: e.CallID, Method: "MetaScanArrived", Region: e.Region, Row: e.Row})
	held := func() bool {
		return c.MetaHold || len(c.MetaHoldPrefix) > 0 && bytes.HasPrefix(e.Row, c.MetaHoldPrefix)
	}
	if held() {
		// answer later, without blocking the connection's request loop (further requests
		// must keep arriving - and being time-stamped - while this one is held)
		c.wg.Add(1)
		go func() {
			defer c.wg.Done()
			c.mu.Lock()
			for held() && !c.stopped && sc.closedBy == "" && !sc.Pair.ClientClosed() {
				c.cond.Wait()
			}
			gone := c.stopped || sc.closedBy != "" || sc.Pair.ClientClosed()
			var rep *Reply
			if !gone {
				rep = c.metaReplyLocked(e, m)
			}
			c.mu.Unlock()
			if rep != nil && !rep.NoReply && !rep.Reset {
				c.respond(sc, e.CallID, rep)
			}
		}()
		return &Reply{NoReply: true}
	}
	return c.metaReplyLocked(e, m)
}

// metaReplyLocked answers an (open) hbase:meta scan from the layout model.
func (c *Cluster) metaReplyLocked(e Exec, m *pb.ScanRequest) *Reply {
	if len(c.MetaErr) > 0 {
		x := c.MetaErr[0]
		c.MetaErr = c.MetaErr[1:]
		e.Result = x.Class
		c.logExecLocked(e)
		if x.Class == "drop" {
			return &Reply{NoReply: true}
		}
		if x.Class == "reset" {
			return &Reply{Reset: true}
		}
		return &Reply{Exc: &Exc{Class: x.Class, Stack: x.Class + ": " + x.Stack}}
	}
	scan := m.GetScan()
	var rows []*Region
	rows = append(rows, c.Regions...)
	sort.Slice(rows, func(i, j int) bool { return metaCompare(rows[i].Name, rows[j].Name) < 0 })
	start, stop := scan.GetStartRow(), scan.GetStopRow()
	var sel []*Region
	if scan.GetReversed() {
		for i := len(rows) - 1; i >= 0; i-- {
			n := rows[i].Name
			if len(start) != 0 && metaCompare(n, start) > 0 {
				continue
			}
			if len(stop) != 0 && metaCompare(n, stop) <= 0 {
				continue
			}
			sel = append(sel, rows[i])
		}
	} else {
		for _, r := range rows {
			if metaCompare(r.Name, start) < 0 {
				continue
			}
			if len(stop) != 0 && metaCompare(r.Name, stop) >= 0 {
				continue
			}
			sel = append(sel, r)
		}
	}
	limit := int(m.GetNumberOfRows())
	if limit > 0 && len(sel) > limit {
		sel = sel[:limit]
	}
	resp := &pb.ScanResponse{ScannerId: proto.Uint64(uint64(9000 + c.MetaScans)), MoreResultsInRegion: proto.Bool(false), MoreResults: proto.Bool(false)}
	var cb []byte
	var corrupt []byte
	if len(c.MetaCorrupt) > 0 && len(sel) > 0 {
		corrupt = c.MetaCorrupt[0]
		c.MetaCorrupt = c.MetaCorrupt[1:]
		if corrupt == nil {
			corrupt = []byte{}
		}
	}
	var edit *MetaRowEdit
	if len(c.MetaRowEdit) > 0 && len(sel) > 0 {
		e := c.MetaRowEdit[0]
		c.MetaRowEdit = c.MetaRowEdit[1:]
		edit = &e
	}
	for _, r := range sel {
		cells := metaRowCellsWith(r, corrupt)
		if edit != nil && edit.Stop != nil && corrupt == nil {
			rr := *r
			rr.Stop = edit.Stop
			cells = metaRowCellsWith(&rr, nil)
		}
		if edit != nil {
			for i := range cells {
				if edit.RowKey != nil {
					cells[i].Row = edit.RowKey
				}
				if edit.Server != nil && string(cells[i].Qualifier) == "server" {
					cells[i].Value = edit.Server
				}
			}
		}
		if c.UseCellBlocks {
			resp.CellsPerResult = append(resp.CellsPerResult, uint32(len(cells)))
			resp.PartialFlagPerResult = append(resp.PartialFlagPerResult, false)
			cb = append(cb, encodeCells(cells)...)
		} else {
			resp.Results = append(resp.Results, &pb.Result{Cell: cellsToPB(cells)})
		}
	}
	e.Executed, e.Result = true, "ok"
	c.logExecLocked(e)
	return &Reply{Msg: resp, CellBlock: cb}
}
