// Package sim is a simulated HBase cluster that the real gohbase client
// talks to over in-memory connections: a fake ZooKeeper, region servers that
// speak the HBase RPC wire format (decoded with the independent wire
// package), hbase:meta served from a layout model, scripted outcomes and
// faults, and observers that record what a real cluster would have seen.
package sim

import (
	"bytes"
	"context"
	"errors"
	"fmt"
	"net"
	"sort"
	"strings"
	"sync"
	"time"

	"github.com/tsuna/gohbase/zk"

	"verifharness/memconn"
)

// Region is one region of the layout.
type Region struct {
	Name  []byte
	Table string // fully qualified: ns:table or table
	Start []byte
	Stop  []byte
	ID    uint64
	Addr  string // hosting server
	// Transient exceptions answered (one per request) before the region
	// serves normally again.
	Transient []Exc
	// MultiExc are region-level exceptions answered (one per multi-request that carries actions
	// for this region) in the RegionActionResult; probes and single requests are not affected.
	MultiExc []Exc
	// ProbeHold holds every request to this region until released.
	Hold bool
	// KillAfterProbe > 0: the next region probes are answered normally and the
	// server then drops the connection at once (it crashes right after the probe).
	KillAfterProbe int
	// ProbeExc: while set, every region probe (an existence-only get without a marker) of this region is answered
	// with this application-level exception - a cluster that denies the probe's row to this user, say - while
	// ordinary requests are served
	ProbeExc *Exc
}

// Contains says whether row lies in [Start, Stop).
func (r *Region) Contains(row []byte) bool {
	return bytes.Compare(r.Start, row) <= 0 && (len(r.Stop) == 0 || bytes.Compare(row, r.Stop) < 0)
}

// Exc is a Java exception a server answers with.
type Exc struct {
	Class string
	Stack string
}

// Exception class names.
const (
	NSRE           = "org.apache.hadoop.hbase.NotServingRegionException"
	RegionMoved    = "org.apache.hadoop.hbase.exceptions.RegionMovedException"
	IOExc          = "java.io.IOException"
	CallQueueBig   = "org.apache.hadoop.hbase.CallQueueTooBigException"
	RegionOpening  = "org.apache.hadoop.hbase.exceptions.RegionOpeningException"
	Throttling     = "org.apache.hadoop.hbase.quotas.RpcThrottlingException"
	RetryImm       = "org.apache.hadoop.hbase.RetryImmediatelyException"
	TooBusy        = "org.apache.hadoop.hbase.RegionTooBusyException"
	PleaseHold     = "org.apache.hadoop.hbase.PleaseHoldException"
	RSAborted      = "org.apache.hadoop.hbase.regionserver.RegionServerAbortedException"
	RSStopped      = "org.apache.hadoop.hbase.regionserver.RegionServerStoppedException"
	MasterStopped  = "org.apache.hadoop.hbase.exceptions.MasterStoppedException"
	NotRunningYet  = "org.apache.hadoop.hbase.ipc.ServerNotRunningYetException"
	WrongRegion    = "org.apache.hadoop.hbase.regionserver.WrongRegionException"
	DoNotRetry     = "org.apache.hadoop.hbase.DoNotRetryIOException"
	UnknownScanner = "org.apache.hadoop.hbase.UnknownScannerException"
)

// Outcome is a scripted reaction to one attempt of a marked call.
type Outcome struct {
	Kind  string `json:"kind"` // ok | exc | drop | reset | truncate | hold | junk (multi: executed, but the response's cellblock carries trailing bytes)
	Class string `json:"class,omitempty"`
	Stack string `json:"stack,omitempty"`
}

// MetaRowEdit: see Cluster.MetaRowEdit.
type MetaRowEdit struct {
	RowKey []byte
	Server []byte
	// Stop, if non-nil, replaces the end key in the (otherwise sound) info:regioninfo value of the rows served
	Stop []byte
}

// Exec is one request (or multi action) as seen by a server.
type Exec struct {
	T        time.Duration
	Addr     string
	Conn     int
	CallID   uint32
	Method   string
	Region   string
	Row      []byte
	Marker   string
	Attempt  int
	InMulti  bool
	MultiSeq int // index of the action within its region action
	Executed bool
	Result   string // ok | exception class | drop | reset | hold | nsre | wrongregion
	Probe    bool
}

// DialEvent is one dial attempt.
type DialEvent struct {
	T      time.Duration
	Addr   string
	Result string // ok | refused | cancelled
	Conn   int
	// OpenBefore: connections to Addr that the client had not closed when
	// this dial was made.
	OpenBefore int
}

// ServerState describes a region server.
type ServerState struct {
	Addr string
	// Down: dials are refused.
	Down bool
	// Fatal: every request is answered with this exception class (server
	// aborting/stopping); empty = healthy.
	Fatal string
	// DialHold: dials block until released.
	DialHold bool
	// DialLate: a held dial does not notice the cancellation of its context: it completes (successfully)
	// when it is released - a connect that was already through when the cancellation arrived.
	DialLate bool
	// Silent: requests are read but never answered.
	Silent bool
	// HelloOnlyThenDrop: accept, read the hello, then drop the connection on
	// the first request.
	DropOnRequest bool
	// Stall: the server stops reading from its connections.
	Stall bool
}

// Conn is a server-side connection.
type Conn struct {
	ID       int
	Addr     string
	Pair     *memconn.Pair
	Opened   time.Duration
	wmu      sync.Mutex
	Snappy   bool
	Service  string
	closedBy string
	Requests int
	// reordering statistics
	seq         int
	pending     map[uint32]int
	MaxInFlight int
	OutOfOrder  int
}

// Cluster is the simulated cluster.
type Cluster struct {
	// IncValue, if non-nil, is the cell value every increment is answered with (a well-behaved
	// server sends 8 bytes).
	IncValue []byte
	mu       sync.Mutex
	cond     *sync.Cond

	start      time.Time
	Regions    []*Region
	Servers    map[string]*ServerState
	MetaAddr   string
	MasterAddr string
	// MetaCorrupt: the next hbase:meta answers carry these bytes as the info:regioninfo value (one
	// entry per answer that has rows)
	MetaCorrupt [][]byte
	// JunkSent counts the multi-responses sent with trailing bytes behind their cellblock.
	JunkSent int
	// MetaRowEdit: the next hbase:meta answers are altered cell by cell (one entry per answer):
	// RowKey (non-nil) replaces the row key of every cell of the answer's rows, Server (non-nil)
	// the value of info:server. The info:regioninfo value stays well-formed.
	MetaRowEdit []MetaRowEdit
	// ZKMetaAddr, if set, is what ZooKeeper says about hbase:meta (stale: the server named there
	// answers NotServingRegion for it)
	ZKMetaAddr string

	Script   map[string][]Outcome
	attempts map[string]int
	scriptAt map[string]int
	released map[string]bool

	Execs    []Exec
	Dials    []DialEvent
	Conns    []*Conn
	Problems []string

	ZKCalls   int
	ZKTimes   []time.Duration
	ZKErrs    []error // consumed one per call
	ZKHold    bool
	MetaScans int
	MetaHold  bool
	// MetaHoldPrefix: hold only the hbase:meta scans whose start row begins with these bytes ("t,x": lookups for
	// rows of table t beginning with x), everything else is answered
	MetaHoldPrefix []byte
	MetaErr   []Exc // consumed one per meta scan

	Tape    []byte
	tapePos int
	// UseCellBlocks: answer gets/scans through cellblocks (else protobuf cells).
	UseCellBlocks bool
	// Latency per response is drawn from the tape when LatencyTape is set:
	// 0, 1ms, 2ms, 5ms (reordering on a connection).
	LatencyTape bool
	// MinLatency: every response takes at least this long (a network round trip), so that a client
	// which keeps asking makes virtual time pass.
	MinLatency time.Duration
	// PermuteMulti permutes results inside multi responses by the tape.
	PermuteMulti bool

	// ConnOptions lets a test configure the memconn of the n-th connection
	// to addr (fault plans, yields).
	ConnOptions func(addr string, n int) memconn.Options

	// ScanHandler serves Scan requests on user tables (nil: unsupported).
	ScanHandler func(c *Cluster, sc *Conn, reg *Region, req *ScanCtx) *Reply

	// OnExec is called (cluster lock held) for every Exec appended.
	OnExec func(e *Exec)

	// DialHeld receives a token whenever a dial starts being held (DialHold).
	DialHeld chan struct{}

	stopped bool
	wg      sync.WaitGroup
	nconn   int
}

// New creates an empty cluster with the given server addresses.
func New(addrs ...string) *Cluster {
	c := &Cluster{
		Servers:  map[string]*ServerState{},
		Script:   map[string][]Outcome{},
		attempts: map[string]int{},
		scriptAt: map[string]int{},
		released: map[string]bool{},
		start:    time.Now(),
		DialHeld: make(chan struct{}, 64),
	}
	c.cond = sync.NewCond(&c.mu)
	for _, a := range addrs {
		c.Servers[a] = &ServerState{Addr: a}
	}
	if len(addrs) > 0 {
		c.MetaAddr = addrs[0]
		c.MasterAddr = addrs[0]
	}
	return c
}

func (c *Cluster) now() time.Duration { return time.Since(c.start) }

// Now returns the virtual time since the cluster was created.
func (c *Cluster) Now() time.Duration { return c.now() }

func (c *Cluster) tapeLocked() byte {
	if len(c.Tape) == 0 {
		return 0
	}
	v := c.Tape[c.tapePos%len(c.Tape)]
	c.tapePos++
	return v
}

// RegionName builds "table,start,id[.md5.]".
func RegionName(table string, start []byte, id uint64, md5 bool) []byte {
	s := fmt.Sprintf("%s,%s,%d", table, start, id)
	if md5 {
		s += ".0123456789abcdef0123456789abcdef."
	}
	return []byte(s)
}

// AddTable adds a table with contiguous regions split at bounds; region i
// is hosted on addrs[i%len(addrs)]. IDs start at baseID.
func (c *Cluster) AddTable(table string, bounds [][]byte, addrs []string, baseID uint64, md5 bool) []*Region {
	c.mu.Lock()
	defer c.mu.Unlock()
	var out []*Region
	var prev []byte
	for i := 0; i <= len(bounds); i++ {
		r := &Region{Table: table, Start: prev, ID: baseID + uint64(i), Addr: addrs[i%len(addrs)]}
		if i < len(bounds) {
			r.Stop = bounds[i]
			prev = bounds[i]
		}
		r.Name = RegionName(table, r.Start, r.ID, md5)
		c.Regions = append(c.Regions, r)
		out = append(out, r)
	}
	return out
}

// Lock / Unlock expose the cluster lock for multi-step edits by tests.
func (c *Cluster) Lock()   { c.mu.Lock() }
func (c *Cluster) Unlock() { c.cond.Broadcast(); c.mu.Unlock() }

// Owner returns the region of table containing row (nil if none).
func (c *Cluster) Owner(table string, row []byte) *Region {
	c.mu.Lock()
	defer c.mu.Unlock()
	return c.ownerLocked(table, row)
}

// Owner2Locked is ownerLocked for callers that hold the lock themselves (Lock / Unlock).
func (c *Cluster) Owner2Locked(table string, row []byte) *Region { return c.ownerLocked(table, row) }

func (c *Cluster) ownerLocked(table string, row []byte) *Region {
	for _, r := range c.Regions {
		if r.Table == table && r.Contains(row) {
			return r
		}
	}
	return nil
}

func (c *Cluster) regionByNameLocked(name []byte) *Region {
	for _, r := range c.Regions {
		if bytes.Equal(r.Name, name) {
			return r
		}
	}
	return nil
}

// RegionByName finds a region by name.
func (c *Cluster) RegionByName(name []byte) *Region {
	c.mu.Lock()
	defer c.mu.Unlock()
	return c.regionByNameLocked(name)
}

// Move re-homes a region.
func (c *Cluster) Move(r *Region, addr string) {
	c.mu.Lock()
	r.Addr = addr
	c.cond.Broadcast()
	c.mu.Unlock()
}

// Split replaces r by two daughters split at key (must be inside r) with new ids.
func (c *Cluster) Split(r *Region, at []byte, id uint64, addrA, addrB string) (*Region, *Region) {
	c.mu.Lock()
	defer c.mu.Unlock()
	if !c.presentLocked(r) {
		// (r was replaced by another layout change in the meantime: nothing to split)
		return nil, nil
	}
	a := &Region{Table: r.Table, Start: r.Start, Stop: at, ID: id, Addr: addrA}
	b := &Region{Table: r.Table, Start: at, Stop: r.Stop, ID: id, Addr: addrB}
	a.Name = RegionName(r.Table, a.Start, a.ID, false)
	b.Name = RegionName(r.Table, b.Start, b.ID, false)
	c.removeLocked(r)
	c.Regions = append(c.Regions, a, b)
	return a, b
}

// Merge replaces adjacent a and b by one region with a new id.
func (c *Cluster) Merge(a, b *Region, id uint64, addr string) *Region {
	c.mu.Lock()
	defer c.mu.Unlock()
	if !c.presentLocked(a) || !c.presentLocked(b) {
		return nil
	}
	m := &Region{Table: a.Table, Start: a.Start, Stop: b.Stop, ID: id, Addr: addr}
	m.Name = RegionName(a.Table, m.Start, m.ID, false)
	c.removeLocked(a)
	c.removeLocked(b)
	c.Regions = append(c.Regions, m)
	return m
}

// MergeIfNeighbours merges a and b if both are still part of the layout and adjacent (one atomic step).
func (c *Cluster) MergeIfNeighbours(a, b *Region, id uint64, addr string) *Region {
	c.mu.Lock()
	defer c.mu.Unlock()
	ia, ib := -1, -1
	for i, x := range c.Regions {
		if x == a {
			ia = i
		}
		if x == b {
			ib = i
		}
	}
	if ia < 0 || ib < 0 || a.Table != b.Table || !bytes.Equal(a.Stop, b.Start) || len(a.Stop) == 0 {
		return nil
	}
	m := &Region{Table: a.Table, Start: a.Start, Stop: b.Stop, ID: id, Addr: addr}
	m.Name = RegionName(a.Table, m.Start, m.ID, false)
	c.removeLocked(a)
	c.removeLocked(b)
	c.Regions = append(c.Regions, m)
	return m
}

func (c *Cluster) presentLocked(r *Region) bool {
	for _, x := range c.Regions {
		if x == r {
			return true
		}
	}
	return false
}

func (c *Cluster) removeLocked(r *Region) {
	for i, x := range c.Regions {
		if x == r {
			c.Regions = append(c.Regions[:i], c.Regions[i+1:]...)
			return
		}
	}
}

// DropTable removes every region of table.
func (c *Cluster) DropTable(table string) {
	c.mu.Lock()
	defer c.mu.Unlock()
	var keep []*Region
	for _, r := range c.Regions {
		if r.Table != table {
			keep = append(keep, r)
		}
	}
	c.Regions = keep
}

// TableRegions returns the regions of a table sorted by start key.
func (c *Cluster) TableRegions(table string) []*Region {
	c.mu.Lock()
	defer c.mu.Unlock()
	var out []*Region
	for _, r := range c.Regions {
		if r.Table == table {
			out = append(out, r)
		}
	}
	sort.Slice(out, func(i, j int) bool { return bytes.Compare(out[i].Start, out[j].Start) < 0 })
	return out
}

// SetServer edits a server's state under the lock.
func (c *Cluster) SetServer(addr string, f func(s *ServerState)) {
	c.mu.Lock()
	s := c.Servers[addr]
	if s == nil {
		s = &ServerState{Addr: addr}
		c.Servers[addr] = s
	}
	f(s)
	c.cond.Broadcast()
	c.mu.Unlock()
}

// KillConns drops every open connection to addr (server side close).
func (c *Cluster) KillConns(addr string) int {
	c.mu.Lock()
	var conns []*Conn
	for _, sc := range c.Conns {
		if sc.Addr == addr && sc.closedBy == "" {
			conns = append(conns, sc)
		}
	}
	c.mu.Unlock()
	for _, sc := range conns {
		c.closeConn(sc, "server")
	}
	return len(conns)
}

func (c *Cluster) closeConn(sc *Conn, by string) {
	c.mu.Lock()
	if sc.closedBy == "" {
		sc.closedBy = by
	}
	c.cond.Broadcast()
	c.mu.Unlock()
	sc.Pair.Server.Close()
}

// Release opens the gate for a held marker / region / dial.
func (c *Cluster) Release(marker string) {
	c.mu.Lock()
	c.released[marker] = true
	c.cond.Broadcast()
	c.mu.Unlock()
}

// Stop shuts the cluster down: closes all connections, releases all gates
// and waits for server goroutines.
func (c *Cluster) Stop() {
	c.mu.Lock()
	c.stopped = true
	conns := append([]*Conn(nil), c.Conns...)
	c.cond.Broadcast()
	c.mu.Unlock()
	for _, sc := range conns {
		sc.Pair.Server.Close()
	}
	c.wg.Wait()
}

// OpenClientConns returns, per address, the connections the client has not
// closed yet.
func (c *Cluster) OpenClientConns() map[string][]int {
	c.mu.Lock()
	defer c.mu.Unlock()
	out := map[string][]int{}
	for _, sc := range c.Conns {
		if !sc.Pair.ClientClosed() {
			out[sc.Addr] = append(out[sc.Addr], sc.ID)
		}
	}
	return out
}

// ClientCloseTimes returns, per connection id, the virtual time (since the
// cluster started) at which the client closed its end; absent = still open.
func (c *Cluster) ClientCloseTimes() map[int]time.Duration {
	c.mu.Lock()
	conns := append([]*Conn(nil), c.Conns...)
	start := c.start
	c.mu.Unlock()
	out := map[int]time.Duration{}
	for _, sc := range conns {
		for _, op := range sc.Pair.Ops() {
			if op.Kind == "close" {
				out[sc.ID] = op.At.Sub(start)
				break
			}
		}
	}
	return out
}

// RecentExecs formats the last n logged requests (most recent first) and the layout.
func (c *Cluster) RecentExecs(n int) string {
	c.mu.Lock()
	defer c.mu.Unlock()
	out := fmt.Sprintf("now=%v metahold=%v\n", c.now(), c.MetaHold)
	for _, r := range c.Regions {
		out += fmt.Sprintf("  region %q [%q,%q) @%s transient=%d\n", r.Name, r.Start, r.Stop, r.Addr, len(r.Transient))
	}
	for i := len(c.Execs) - 1; i >= 0 && i >= len(c.Execs)-n; i-- {
		e := c.Execs[i]
		out += fmt.Sprintf("  %v conn%d@%s call%d %s %s region=%q row=%q probe=%v -> %s\n", e.T, e.Conn, e.Addr, e.CallID, e.Method, e.Marker, e.Region, e.Row, e.Probe, e.Result)
	}
	return out
}

// ConnAddrs maps connection ids to addresses.
func (c *Cluster) ConnAddrs() map[int]string {
	c.mu.Lock()
	defer c.mu.Unlock()
	out := map[int]string{}
	for _, sc := range c.Conns {
		out[sc.ID] = sc.Addr
	}
	return out
}

// Snapshot copies the logs.
func (c *Cluster) Snapshot() (execs []Exec, dials []DialEvent, problems []string) {
	c.mu.Lock()
	defer c.mu.Unlock()
	return append([]Exec(nil), c.Execs...), append([]DialEvent(nil), c.Dials...), append([]string(nil), c.Problems...)
}

func (c *Cluster) problemLocked(format string, a ...any) {
	if len(c.Problems) < 20 {
		c.Problems = append(c.Problems, fmt.Sprintf(format, a...))
	}
}

// ---- ZooKeeper

// ZK returns a zk.Client backed by the cluster.
func (c *Cluster) ZK() zk.Client { return zkClient{c} }

type zkClient struct{ c *Cluster }

func (z zkClient) LocateResource(res zk.ResourceName) (string, error) {
	c := z.c
	c.mu.Lock()
	defer c.mu.Unlock()
	c.ZKCalls++
	c.ZKTimes = append(c.ZKTimes, c.now())
	for c.ZKHold && !c.stopped {
		c.cond.Wait()
	}
	if c.stopped {
		return "", errors.New("sim: zookeeper is gone")
	}
	if len(c.ZKErrs) > 0 {
		err := c.ZKErrs[0]
		c.ZKErrs = c.ZKErrs[1:]
		if err != nil {
			return "", err
		}
	}
	if strings.HasSuffix(string(res), "master") {
		return c.MasterAddr, nil
	}
	if c.ZKMetaAddr != "" {
		return c.ZKMetaAddr, nil
	}
	return c.MetaAddr, nil
}

// ---- Dialer

// Dial is a gohbase.RegionDialer.
func (c *Cluster) Dial(ctx context.Context, network, addr string) (net.Conn, error) {
	c.mu.Lock()
	s := c.Servers[addr]
	if s == nil || s.Down || c.stopped {
		c.Dials = append(c.Dials, DialEvent{T: c.now(), Addr: addr, Result: "refused"})
		c.cond.Broadcast()
		c.mu.Unlock()
		return nil, fmt.Errorf("dial tcp %s: connect: connection refused", addr)
	}
	if s.DialHold {
		// wait for release or context end
		stopWatch := context.AfterFunc(ctx, func() {
			c.mu.Lock()
			c.cond.Broadcast()
			c.mu.Unlock()
		})
		c.Dials = append(c.Dials, DialEvent{T: c.now(), Addr: addr, Result: "held"})
		select {
		case c.DialHeld <- struct{}{}:
		default:
		}
		c.cond.Broadcast()
		for s.DialHold && (ctx.Err() == nil || s.DialLate) && !c.stopped {
			c.cond.Wait()
		}
		stopWatch()
		if (ctx.Err() != nil && !s.DialLate) || c.stopped {
			c.Dials = append(c.Dials, DialEvent{T: c.now(), Addr: addr, Result: "cancelled"})
			c.mu.Unlock()
			if ctx.Err() != nil {
				return nil, ctx.Err()
			}
			return nil, errors.New("sim: cluster stopped")
		}
		if s.Down {
			c.Dials = append(c.Dials, DialEvent{T: c.now(), Addr: addr, Result: "refused"})
			c.mu.Unlock()
			return nil, fmt.Errorf("dial tcp %s: connect: connection refused", addr)
		}
	}
	c.nconn++
	n := 0
	for _, sc := range c.Conns {
		if sc.Addr == addr {
			n++
		}
	}
	opts := memconn.Options{Addr: addr}
	if c.ConnOptions != nil {
		opts = c.ConnOptions(addr, n)
		opts.Addr = addr
	}
	openBefore := 0
	for _, o := range c.Conns {
		if o.Addr == addr && !o.Pair.ClientClosed() {
			openBefore++
		}
	}
	sc := &Conn{ID: c.nconn, Addr: addr, Pair: memconn.NewPair(opts), Opened: c.now()}
	c.Conns = append(c.Conns, sc)
	c.Dials = append(c.Dials, DialEvent{T: c.now(), Addr: addr, Result: "ok", Conn: sc.ID, OpenBefore: openBefore})
	c.wg.Add(1)
	c.cond.Broadcast()
	c.mu.Unlock()
	go c.serve(sc)
	return sc.Pair.Client, nil
}
