package sim

import (
	"bytes"
	"fmt"
	"sort"
	"sync"
	"time"

	"github.com/tsuna/gohbase/pb"
	"google.golang.org/protobuf/proto"

	"verifharness/wire"
)

// ScanRow is one row of a user table served by ScanServer.
type ScanRow struct {
	Key   []byte
	Cells int
}

// ScanCells are the cells of a row (shared with the oracle).
func ScanCells(r ScanRow) []wire.Cell {
	out := make([]wire.Cell, r.Cells)
	for i := range out {
		out[i] = wire.Cell{Row: r.Key, Family: []byte("f"), Qualifier: []byte(fmt.Sprintf("q%d", i)),
			Timestamp: uint64(1000 + i), Type: wire.TypePut, Value: []byte(fmt.Sprintf("v%d:%x", i, r.Key))}
	}
	return out
}

type regionScanner struct {
	id        uint64
	region    string
	rows      []ScanRow
	pending   [][]wire.Cell
	exhausted bool
	closed    bool
	rangeDone bool
	heartbeat int
	conn      int
	// releasedAt: when the scanner was closed or exhausted (a renewal racing with that is benign)
	releasedAt time.Time
}

// ScanServer serves Scan requests on user tables from a fixed row set, cutting
// the stream into responses according to a tape (0 = plainest choice).
type ScanServer struct {
	mu       sync.Mutex
	Rows     []ScanRow // sorted by key
	Tape     []byte
	tapePos  int
	scanners map[uint64]*regionScanner
	nextID   uint64
	Requests int
	// SilentAfter > 0: requests number SilentAfter+1, ... are swallowed (no reply);
	// close requests are still honoured if AnswerClose is set.
	SilentAfter int
	// RetryAfter > 0: from request RetryAfter+1 on, answer with RetryClass.
	RetryAfter int
	RetryClass string
	// FailOn > 0: request number FailOn is answered with an application exception.
	FailOn      int
	// HoldCloses: close requests are honoured (the scanner is released) but never answered: the
	// client's close calls stay outstanding
	HoldCloses bool
	// HoldRenews: lease renewals are honoured but never answered.
	HoldRenews bool
	Problems    []string
	CloseReqs   int
	RenewReqs   int
	Heartbeats  int
	Fragmented  bool
	EarlyNoMore bool
}

// NewScanServer creates a scan server.
func NewScanServer(rows []ScanRow, tape []byte) *ScanServer {
	sorted := append([]ScanRow(nil), rows...)
	sort.Slice(sorted, func(i, j int) bool { return bytes.Compare(sorted[i].Key, sorted[j].Key) < 0 })
	return &ScanServer{Rows: sorted, Tape: tape, scanners: map[uint64]*regionScanner{}, nextID: 500}
}

func (s *ScanServer) tape() byte {
	if len(s.Tape) == 0 {
		return 0
	}
	v := s.Tape[s.tapePos%len(s.Tape)]
	s.tapePos++
	return v
}

func (s *ScanServer) problem(format string, a ...any) {
	if len(s.Problems) < 6 {
		s.Problems = append(s.Problems, fmt.Sprintf(format, a...))
	}
}

// OpenScanners lists region scanners that are neither exhausted nor closed.
func (s *ScanServer) OpenScanners() []uint64 {
	s.mu.Lock()
	defer s.mu.Unlock()
	var out []uint64
	for id, sc := range s.scanners {
		if !sc.exhausted && !sc.closed {
			out = append(out, id)
		}
	}
	sort.Slice(out, func(i, j int) bool { return out[i] < out[j] })
	return out
}

// RenewCount returns the number of lease renewals received so far.
func (s *ScanServer) RenewCount() int {
	s.mu.Lock()
	defer s.mu.Unlock()
	return s.RenewReqs
}

// RequestCount returns the number of scan requests (opens and nexts) served so far.
func (s *ScanServer) RequestCount() int {
	s.mu.Lock()
	defer s.mu.Unlock()
	return s.Requests
}

// SetFaults sets FailOn and SilentAfter under the lock.
func (s *ScanServer) SetFaults(failOn, silentAfter int) {
	s.mu.Lock()
	s.FailOn, s.SilentAfter = failOn, silentAfter
	s.mu.Unlock()
}

// NumScanners returns how many region scanners were opened.
func (s *ScanServer) NumScanners() int {
	s.mu.Lock()
	defer s.mu.Unlock()
	return len(s.scanners)
}

// Handle is a Cluster.ScanHandler.
func (s *ScanServer) Handle(c *Cluster, sc *Conn, reg *Region, ctx *ScanCtx) *Reply {
	s.mu.Lock()
	defer s.mu.Unlock()
	req := ctx.Req
	isClose := req.GetCloseScanner() && req.ScannerId != nil
	if (isClose || req.GetRenew()) && s.SilentAfter > 0 && s.Requests >= s.SilentAfter {
		// a silent server does not answer close / renew requests either
		return &Reply{NoReply: true}
	}
	if !isClose && !req.GetRenew() {
		s.Requests++
		if s.FailOn > 0 && s.Requests == s.FailOn {
			return &Reply{Exc: &Exc{Class: DoNotRetry, Stack: DoNotRetry + ": injected marker-scan-fail"}}
		}
		if s.SilentAfter > 0 && s.Requests > s.SilentAfter {
			return &Reply{NoReply: true}
		}
		if s.RetryAfter > 0 && s.Requests > s.RetryAfter {
			return &Reply{Exc: &Exc{Class: s.RetryClass, Stack: s.RetryClass + ": busy"}}
		}
	}
	if req.ScannerId != nil {
		rs := s.scanners[req.GetScannerId()]
		if rs == nil {
			s.problem("request for unknown scanner id %d", req.GetScannerId())
			return &Reply{Exc: &Exc{Class: UnknownScanner, Stack: UnknownScanner}}
		}
		if rs.region != string(reg.Name) {
			s.problem("scanner %d of region %q addressed through region %q", rs.id, rs.region, reg.Name)
		}
		if rs.closed || rs.exhausted {
			if isClose {
				s.CloseReqs++
				return &Reply{Msg: &pb.ScanResponse{}}
			}
			if !(req.GetRenew() && !time.Now().After(rs.releasedAt)) {
				s.problem("request on scanner %d which is already released", rs.id)
			}
			return &Reply{Exc: &Exc{Class: UnknownScanner, Stack: UnknownScanner}}
		}
		if isClose {
			s.CloseReqs++
			rs.closed = true
			rs.releasedAt = time.Now()
			if s.HoldCloses {
				return &Reply{NoReply: true}
			}
			return &Reply{Msg: &pb.ScanResponse{ScannerId: proto.Uint64(rs.id), MoreResults: proto.Bool(false)}}
		}
		if req.GetRenew() {
			s.RenewReqs++
			if s.HoldRenews {
				return &Reply{NoReply: true}
			}
			return &Reply{Msg: &pb.ScanResponse{ScannerId: proto.Uint64(rs.id), MoreResultsInRegion: proto.Bool(true), MoreResults: proto.Bool(true)}}
		}
		return s.respond(c, rs, req)
	}
	if req.GetRenew() {
		s.problem("renewal-without-scanner-id")
		return &Reply{Exc: &Exc{Class: DoNotRetry, Stack: "renew without scanner id"}}
	}
	scan := req.GetScan()
	if scan == nil {
		s.problem("open request without Scan")
		return &Reply{Exc: &Exc{Class: DoNotRetry, Stack: "bad request"}}
	}
	start, stop := scan.GetStartRow(), scan.GetStopRow()
	if !reg.Contains(start) && !(scan.GetReversed() && len(start) == 0) {
		s.problem("misrouted scan: start row %q opened on region %q [%q,%q)", start, reg.Name, reg.Start, reg.Stop)
	}
	rs := &regionScanner{id: s.nextID, region: string(reg.Name), conn: sc.ID}
	s.nextID++
	for _, r := range s.Rows {
		if !reg.Contains(r.Key) {
			continue
		}
		if len(start) != 0 && bytes.Equal(start, stop) {
			// start row == stop row is a point get to HBase (inclusive stop row)
			if !bytes.Equal(r.Key, start) {
				continue
			}
		} else if !scan.GetReversed() {
			if bytes.Compare(r.Key, start) < 0 || (len(stop) != 0 && bytes.Compare(r.Key, stop) >= 0) {
				continue
			}
		} else if (len(start) != 0 && bytes.Compare(r.Key, start) > 0) || (len(stop) != 0 && bytes.Compare(r.Key, stop) <= 0) {
			continue
		}
		rs.rows = append(rs.rows, r)
	}
	if scan.GetReversed() {
		sort.Slice(rs.rows, func(i, j int) bool { return bytes.Compare(rs.rows[i].Key, rs.rows[j].Key) > 0 })
		rs.rangeDone = len(reg.Start) == 0 || (len(stop) != 0 && bytes.Compare(stop, reg.Start) >= 0)
	} else {
		rs.rangeDone = len(reg.Stop) == 0 || (len(stop) != 0 && bytes.Compare(stop, reg.Stop) <= 0)
	}
	s.scanners[rs.id] = rs
	rep := s.respond(c, rs, req)
	if req.GetCloseScanner() {
		rs.closed = true
		rs.releasedAt = time.Now()
	}
	return rep
}

func (s *ScanServer) respond(c *Cluster, rs *regionScanner, req *pb.ScanRequest) *Reply {
	resp := &pb.ScanResponse{ScannerId: proto.Uint64(rs.id)}
	var block []byte
	useCB := c.UseCellBlocks
	emit := func(cells []wire.Cell, partial bool) {
		if useCB {
			resp.CellsPerResult = append(resp.CellsPerResult, uint32(len(cells)))
			resp.PartialFlagPerResult = append(resp.PartialFlagPerResult, partial)
			block = append(block, encodeCells(cells)...)
		} else {
			resp.Results = append(resp.Results, &pb.Result{Cell: cellsToPB(cells), Partial: proto.Bool(partial)})
		}
	}
	nres := func() int {
		if useCB {
			return len(resp.CellsPerResult)
		}
		return len(resp.Results)
	}
	limit := int(req.GetNumberOfRows())
	if limit <= 0 || limit > 8 {
		limit = 8
	}
	remaining := func() bool { return len(rs.rows) > 0 || len(rs.pending) > 0 }
	d := s.tape()
	if d%8 == 7 && rs.heartbeat < 3 {
		rs.heartbeat++
		s.Heartbeats++
		resp.HeartbeatMessage = proto.Bool(true)
		resp.MoreResultsInRegion = proto.Bool(true)
		resp.MoreResults = proto.Bool(true)
		return &Reply{Msg: resp}
	}
	rs.heartbeat = 0
	nrows := limit
	if d != 0 {
		nrows = 1 + int(d>>3)%limit
	}
	done := 0
	for done < nrows && remaining() {
		lastFlag := false
		if len(rs.pending) == 0 {
			r := rs.rows[0]
			rs.rows = rs.rows[1:]
			cells := ScanCells(r)
			f := s.tape()
			nfrag := 1
			if f%2 == 1 && len(cells) > 1 {
				nfrag = 2 + int(f>>1)%(len(cells)-1)
				s.Fragmented = true
			}
			for i := 0; i < nfrag; i++ {
				if i == nfrag-1 {
					rs.pending = append(rs.pending, cells)
				} else {
					rs.pending = append(rs.pending, cells[:1:1])
					cells = cells[1:]
				}
			}
		}
		stopEarly := false
		for len(rs.pending) > 0 {
			frag := rs.pending[0]
			rs.pending = rs.pending[1:]
			last := len(rs.pending) == 0
			if last {
				lastFlag = s.tape()%4 == 3
				if lastFlag {
					s.Fragmented = true
				}
			}
			emit(frag, !last || lastFlag)
			if !last && s.tape()%4 == 2 {
				stopEarly = true
				break
			}
		}
		if stopEarly {
			break
		}
		done++
	}
	if remaining() {
		if d%8 == 6 {
			// time limit reached with rows left: flagged as a heartbeat, results travel along
			resp.HeartbeatMessage = proto.Bool(true)
			s.Heartbeats++
		}
		resp.MoreResultsInRegion = proto.Bool(true)
		resp.MoreResults = proto.Bool(true)
		return &Reply{Msg: resp, CellBlock: block}
	}
	f := s.tape()
	if f%3 == 1 && nres() > 0 {
		resp.MoreResultsInRegion = proto.Bool(true)
		resp.MoreResults = proto.Bool(true)
		return &Reply{Msg: resp, CellBlock: block}
	}
	inRegion := false
	if rs.rangeDone {
		switch (f >> 2) % 4 {
		case 0:
			resp.MoreResults = proto.Bool(true)
		case 1:
		case 2:
			resp.MoreResults = proto.Bool(false)
		case 3:
			resp.MoreResults = proto.Bool(false)
			inRegion = true
			s.EarlyNoMore = true
		}
	} else {
		resp.MoreResults = proto.Bool(true)
	}
	resp.MoreResultsInRegion = proto.Bool(inRegion)
	if !inRegion {
		rs.exhausted = true
		rs.releasedAt = time.Now()
	}
	return &Reply{Msg: resp, CellBlock: block}
}
