package sim

import (
	"bytes"
	"encoding/binary"
	"fmt"
	"hash/fnv"
	"sort"
	"strings"
	"time"

	"github.com/tsuna/gohbase/pb"
	"google.golang.org/protobuf/proto"

	"verifharness/wire"
)

// Reply is what a handler wants sent back for one request.
type Reply struct {
	Msg       proto.Message
	CellBlock []byte // uncompressed cellblock
	Exc       *Exc
	// NoReply: the request is swallowed. Reset: the connection is dropped.
	NoReply  bool
	Reset    bool
	Truncate bool   // send half of the frame, then drop the connection
	HoldKey  string // hold the response until Release(HoldKey)
	RawFrame []byte // if set, send these bytes verbatim instead
	// CloseAfter: send the reply, then drop the connection
	CloseAfter bool
}

// ScanCtx is a decoded Scan request.
type ScanCtx struct {
	Req    *pb.ScanRequest
	CallID uint32
	Marker string
}

// H is the key-derived hash behind the echo data model.
func H(parts ...[]byte) uint64 {
	h := fnv.New64a()
	for _, p := range parts {
		h.Write(p)
		h.Write([]byte{0xfe})
	}
	return h.Sum64()
}

// EchoCells are the cells the echo model returns for (row, marker).
func EchoCells(row []byte, marker string) []wire.Cell {
	n := int(H(row, []byte(marker)) % 6)
	out := make([]wire.Cell, n)
	for i := range out {
		out[i] = wire.Cell{
			Row:       row,
			Family:    []byte("f"),
			Qualifier: []byte(marker),
			Timestamp: uint64(i + 1),
			Type:      wire.TypePut,
			Value:     []byte(fmt.Sprintf("%016x-%d", H(row, []byte(marker), []byte{byte(i)}), i)),
		}
	}
	return out
}

// EchoInc is the value an increment returns for (row, marker).
func EchoInc(row []byte, marker string) int64 {
	return int64(H(row, []byte(marker), []byte("inc")) >> 1)
}

func markerOfGet(g *pb.Get) string {
	for _, col := range g.GetColumn() {
		for _, q := range col.GetQualifier() {
			if bytes.HasPrefix(q, []byte("mk")) {
				return string(q)
			}
		}
	}
	return ""
}

func markerOfCells(cells []wire.Cell) string {
	for _, c := range cells {
		if bytes.HasPrefix(c.Qualifier, []byte("mk")) {
			return string(c.Qualifier)
		}
	}
	return ""
}

func markerOfMutation(m *pb.MutationProto, cells []wire.Cell) string {
	if mk := markerOfCells(cells); mk != "" {
		return mk
	}
	for _, cv := range m.GetColumnValue() {
		for _, qv := range cv.GetQualifierValue() {
			if bytes.HasPrefix(qv.GetQualifier(), []byte("mk")) {
				return string(qv.GetQualifier())
			}
		}
	}
	return ""
}

func cellsToPB(cells []wire.Cell) []*pb.Cell {
	out := make([]*pb.Cell, len(cells))
	for i, c := range cells {
		ts := c.Timestamp
		out[i] = &pb.Cell{Row: c.Row, Family: c.Family, Qualifier: c.Qualifier, Timestamp: &ts,
			CellType: pb.CellType(c.Type).Enum(), Value: c.Value}
	}
	return out
}

func encodeCells(cells []wire.Cell) []byte {
	var out []byte
	for _, c := range cells {
		out = wire.AppendCell(out, c)
	}
	return out
}

func (c *Cluster) serve(sc *Conn) {
	defer c.wg.Done()
	defer c.closeConn(sc, "server-exit")
	conn := sc.Pair.Server
	hello, err := wire.ReadHello(conn)
	if err != nil {
		c.mu.Lock()
		if !sc.Pair.ClientClosed() && !c.stopped && sc.closedBy == "" {
			c.problemLocked("conn %d to %s: bad hello: %v", sc.ID, sc.Addr, err)
		}
		c.mu.Unlock()
		return
	}
	sc.Service = hello.Header.GetServiceName()
	if hello.Header.GetCellBlockCodecClass() != "org.apache.hadoop.hbase.codec.KeyValueCodec" {
		c.mu.Lock()
		c.problemLocked("conn %d: codec class %q", sc.ID, hello.Header.GetCellBlockCodecClass())
		c.mu.Unlock()
	}
	switch hello.Header.GetCellBlockCompressorClass() {
	case "":
	case "org.apache.hadoop.io.compress.SnappyCodec":
		sc.Snappy = true
	default:
		c.mu.Lock()
		c.problemLocked("conn %d: compressor class %q", sc.ID, hello.Header.GetCellBlockCompressorClass())
		c.mu.Unlock()
	}
	if hello.Header.GetUserInfo().GetEffectiveUser() == "" {
		c.mu.Lock()
		c.problemLocked("conn %d: no effective user in the connection header", sc.ID)
		c.mu.Unlock()
	}
	seen := map[uint32]bool{}
	for {
		c.mu.Lock()
		for st := c.Servers[sc.Addr]; st != nil && st.Stall && !c.stopped && sc.closedBy == "" && !sc.Pair.ClientClosed(); {
			c.cond.Wait()
		}
		c.mu.Unlock()
		req, err := wire.ReadRequest(conn)
		if err != nil {
			c.mu.Lock()
			if !sc.Pair.ClientClosed() && !c.stopped && sc.closedBy == "" && !strings.Contains(err.Error(), "EOF") {
				c.problemLocked("conn %d to %s: undecodable request frame: %v", sc.ID, sc.Addr, err)
			}
			c.mu.Unlock()
			return
		}
		id := req.Header.GetCallId()
		c.mu.Lock()
		sc.Requests++
		sc.seq++
		if sc.pending == nil {
			sc.pending = map[uint32]int{}
		}
		sc.pending[id] = sc.seq
		if len(sc.pending) > sc.MaxInFlight {
			sc.MaxInFlight = len(sc.pending)
		}
		if req.Header.CallId == nil {
			c.problemLocked("conn %d: request without call id", sc.ID)
		} else if seen[id] {
			c.problemLocked("conn %d: call id %d reused", sc.ID, id)
		}
		seen[id] = true
		st := c.Servers[sc.Addr]
		drop := st != nil && st.DropOnRequest
		silent := st != nil && st.Silent
		fatal := ""
		if st != nil {
			fatal = st.Fatal
		}
		c.mu.Unlock()
		if drop {
			return
		}
		if silent {
			continue
		}
		var rep *Reply
		if fatal != "" {
			rep = &Reply{Exc: &Exc{Class: fatal, Stack: fatal + ": server is going down"}}
			c.mu.Lock()
			c.logExecLocked(Exec{Addr: sc.Addr, Conn: sc.ID, CallID: id, Method: req.Header.GetMethodName(), Result: fatal})
			c.mu.Unlock()
		} else {
			rep = c.handle(sc, req)
		}
		if rep == nil || rep.NoReply {
			continue
		}
		if rep.Reset {
			return
		}
		c.respond(sc, id, rep)
		if rep.Truncate || rep.CloseAfter {
			return
		}
		if fatal != "" {
			// a server that said it is going down drops the connection
			return
		}
	}
}

func (c *Cluster) logExecLocked(e Exec) {
	e.T = c.now()
	c.Execs = append(c.Execs, e)
	if c.OnExec != nil {
		c.OnExec(&c.Execs[len(c.Execs)-1])
	}
	c.cond.Broadcast()
}

// respond encodes and sends (possibly later) the reply.
func (c *Cluster) noteWritten(sc *Conn, callID uint32) {
	c.mu.Lock()
	my := sc.pending[callID]
	delete(sc.pending, callID)
	for _, s := range sc.pending {
		if s < my {
			sc.OutOfOrder++
			break
		}
	}
	c.mu.Unlock()
}

func (c *Cluster) respond(sc *Conn, callID uint32, rep *Reply) {
	frame := rep.RawFrame
	if frame == nil {
		if rep.Exc != nil {
			frame = wire.BuildResponse(callID, nil, nil, wire.Exception(rep.Exc.Class, rep.Exc.Stack))
		} else {
			cb := rep.CellBlock
			if len(cb) > 0 && sc.Snappy {
				cb = wire.WriteBlocks(cb, []int{len(cb)}, func(rem int) int {
					if rem > wire.SnappyChunk {
						return wire.SnappyChunk
					}
					return rem
				})
			}
			frame = wire.BuildResponse(callID, rep.Msg, cb, nil)
		}
	}
	if rep.Truncate {
		sc.wmu.Lock()
		sc.Pair.Server.Write(frame[:len(frame)/2])
		sc.wmu.Unlock()
		return
	}
	var lat time.Duration
	c.mu.Lock()
	if c.LatencyTape {
		lat = []time.Duration{0, 0, time.Millisecond, 2 * time.Millisecond, 5 * time.Millisecond, 0, 3 * time.Millisecond, 0}[c.tapeLocked()%8]
	}
	if lat < c.MinLatency {
		lat = c.MinLatency
	}
	c.mu.Unlock()
	if lat == 0 && rep.HoldKey == "" {
		sc.wmu.Lock()
		c.noteWritten(sc, callID)
		sc.Pair.Server.Write(frame)
		sc.wmu.Unlock()
		return
	}
	c.wg.Add(1)
	go func() {
		defer c.wg.Done()
		if rep.HoldKey != "" {
			c.mu.Lock()
			for !c.released[rep.HoldKey] && !c.stopped && sc.closedBy == "" && !sc.Pair.ClientClosed() {
				c.cond.Wait()
			}
			gone := c.stopped || sc.closedBy != ""
			c.mu.Unlock()
			if gone {
				return
			}
		}
		if lat > 0 {
			time.Sleep(lat)
		}
		sc.wmu.Lock()
		c.noteWritten(sc, callID)
		sc.Pair.Server.Write(frame)
		sc.wmu.Unlock()
	}()
}

// handle dispatches one request.
func (c *Cluster) handle(sc *Conn, req *wire.Request) *Reply {
	method := req.Header.GetMethodName()
	cellblock := req.CellBlock
	if len(cellblock) > 0 && sc.Snappy {
		plain, _, err := wire.ReadBlocks(cellblock)
		if err != nil {
			c.mu.Lock()
			c.problemLocked("conn %d call %d: compressed cellblock does not decode: %v", sc.ID, req.Header.GetCallId(), err)
			c.mu.Unlock()
			return &Reply{Exc: &Exc{Class: DoNotRetry, Stack: "bad cellblock"}}
		}
		cellblock = plain
	}
	switch method {
	case "Get":
		m := &pb.GetRequest{}
		if err := proto.Unmarshal(req.Param, m); err != nil {
			return c.badRequest(sc, req, err)
		}
		if len(cellblock) > 0 {
			c.mu.Lock()
			c.problemLocked("Get with a cellblock")
			c.mu.Unlock()
		}
		return c.execSingle(sc, req, m.GetRegion().GetValue(), m.GetGet(), nil, nil, nil)
	case "Mutate":
		m := &pb.MutateRequest{}
		if err := proto.Unmarshal(req.Param, m); err != nil {
			return c.badRequest(sc, req, err)
		}
		n := int(m.GetMutation().GetAssociatedCellCount())
		cells, used, err := wire.DecodeCells(cellblock, n)
		if err != nil || used != len(cellblock) {
			c.mu.Lock()
			c.problemLocked("conn %d call %d: Mutate cellblock: associated_cell_count=%d, %d bytes, used %d, err %v", sc.ID, req.Header.GetCallId(), n, len(cellblock), used, err)
			c.mu.Unlock()
		}
		return c.execSingle(sc, req, m.GetRegion().GetValue(), nil, m.GetMutation(), cells, m.GetCondition())
	case "Multi":
		m := &pb.MultiRequest{}
		if err := proto.Unmarshal(req.Param, m); err != nil {
			return c.badRequest(sc, req, err)
		}
		return c.execMulti(sc, req, m, cellblock)
	case "Scan":
		m := &pb.ScanRequest{}
		if err := proto.Unmarshal(req.Param, m); err != nil {
			return c.badRequest(sc, req, err)
		}
		return c.execScan(sc, req, m)
	case "GetClusterStatus":
		return c.execMaster(sc, req, &pb.GetClusterStatusResponse{ClusterStatus: &pb.ClusterStatus{
			Master: &pb.ServerName{HostName: proto.String(sc.Addr)}}})
	case "GetTableNames":
		return c.execMaster(sc, req, &pb.GetTableNamesResponse{})
	case "SetBalancerRunning":
		return c.execMaster(sc, req, &pb.SetBalancerRunningResponse{PrevBalanceValue: proto.Bool(true)})
	}
	c.mu.Lock()
	c.problemLocked("conn %d: unknown method %q", sc.ID, method)
	c.mu.Unlock()
	return &Reply{Exc: &Exc{Class: DoNotRetry, Stack: "unknown method " + method}}
}

func (c *Cluster) badRequest(sc *Conn, req *wire.Request, err error) *Reply {
	c.mu.Lock()
	c.problemLocked("conn %d call %d: %s request does not decode: %v", sc.ID, req.Header.GetCallId(), req.Header.GetMethodName(), err)
	c.mu.Unlock()
	return &Reply{Exc: &Exc{Class: DoNotRetry, Stack: "bad request"}}
}

func (c *Cluster) execMaster(sc *Conn, req *wire.Request, ok proto.Message) *Reply {
	c.mu.Lock()
	defer c.mu.Unlock()
	e := Exec{Addr: sc.Addr, Conn: sc.ID, CallID: req.Header.GetCallId(), Method: req.Header.GetMethodName()}
	if sc.Service != "MasterService" {
		c.problemLocked("master method %s on a %q connection", e.Method, sc.Service)
	}
	if sc.Addr != c.MasterAddr {
		// a master that is not (or no longer) the active one has not started its master service:
		// HMaster.checkServiceStarted answers ServerNotRunningYetException
		e.Result = NotRunningYet
		c.logExecLocked(e)
		return &Reply{Exc: &Exc{Class: NotRunningYet, Stack: NotRunningYet + ": Server is not running yet"}}
	}
	mk := "master"
	e.Marker = mk
	c.arriveLocked(mk, &e)
	if o := c.scriptedLocked(mk); o != nil {
		if o.Kind == "exc" {
			e.Result = o.Class
			c.logExecLocked(e)
			return &Reply{Exc: &Exc{Class: o.Class, Stack: o.Class + ": " + o.Stack}}
		}
	}
	e.Executed, e.Result = true, "ok"
	c.logExecLocked(e)
	return &Reply{Msg: ok}
}

// checkRegionLocked decides whether server addr serves the region named
// name for row; returns the region or an exception.
func (c *Cluster) checkRegionLocked(addr string, name, row []byte, e *Exec) (*Region, *Exc) {
	r := c.regionByNameLocked(name)
	if bytes.Equal(name, []byte("hbase:meta,,1")) {
		if addr != c.MetaAddr {
			e.Result = "nsre"
			return nil, &Exc{Class: NSRE, Stack: NSRE + ": hbase:meta,,1 is not online on " + addr}
		}
		return &Region{Name: name, Table: "hbase:meta", Addr: addr}, nil
	}
	if r == nil || r.Addr != addr {
		e.Result = "nsre"
		return nil, &Exc{Class: NSRE, Stack: fmt.Sprintf("%s: %s is not online on %s", NSRE, name, addr)}
	}
	if row != nil && !r.Contains(row) {
		e.Result = "wrongregion"
		// (the client's own region probe included: it is a get like any other)
		c.problemLocked("misrouted: row %q sent to region %q [%q,%q) on %s (probe=%v)", row, r.Name, r.Start, r.Stop, addr, e.Probe)
		return nil, &Exc{Class: WrongRegion, Stack: fmt.Sprintf("%s: row %q out of range for region %s", WrongRegion, row, name)}
	}
	if len(r.Transient) > 0 {
		x := r.Transient[0]
		r.Transient = r.Transient[1:]
		e.Result = x.Class
		if x.Stack == "" {
			x.Stack = x.Class + ": transient"
		}
		return nil, &x
	}
	return r, nil
}

// arriveLocked counts one arrival of a marked call.
func (c *Cluster) arriveLocked(marker string, e *Exec) {
	if marker == "" {
		return
	}
	c.attempts[marker]++
	e.Attempt = c.attempts[marker]
}

// scriptedLocked consumes the next scripted outcome of marker. It is only
// called for requests that reached a region the server hosts, so that a
// script describes what the owning region answers, attempt by attempt.
func (c *Cluster) scriptedLocked(marker string) *Outcome {
	if marker == "" {
		return nil
	}
	outs := c.Script[marker]
	i := c.scriptAt[marker]
	if i < len(outs) {
		c.scriptAt[marker] = i + 1
		o := outs[i]
		return &o
	}
	return nil
}

func (c *Cluster) waitRegionHoldLocked(r *Region, sc *Conn) bool {
	for r != nil && r.Hold && !c.stopped && sc.closedBy == "" && !sc.Pair.ClientClosed() {
		c.cond.Wait()
	}
	return !c.stopped
}

// execSingle executes a Get or Mutate.
func (c *Cluster) execSingle(sc *Conn, req *wire.Request, regName []byte, get *pb.Get, mut *pb.MutationProto,
	cells []wire.Cell, cond *pb.Condition) *Reply {
	c.mu.Lock()
	defer c.mu.Unlock()
	e := Exec{Addr: sc.Addr, Conn: sc.ID, CallID: req.Header.GetCallId(), Method: req.Header.GetMethodName(), Region: string(regName)}
	var marker string
	if get != nil {
		e.Row = get.GetRow()
		marker = markerOfGet(get)
		e.Probe = get.GetExistenceOnly() && marker == ""
	} else {
		e.Row = mut.GetRow()
		marker = markerOfMutation(mut, cells)
	}
	e.Marker = marker
	if sc.Service != "ClientService" {
		c.problemLocked("%s on a %q connection", e.Method, sc.Service)
	}
	c.arriveLocked(marker, &e)
	if r := c.regionByNameLocked(regName); r != nil && r.Hold {
		c.logExecLocked(Exec{Addr: e.Addr, Conn: e.Conn, CallID: e.CallID, Method: e.Method, Region: e.Region, Row: e.Row, Marker: marker, Attempt: e.Attempt, Result: "held", Probe: e.Probe})
		if !c.waitRegionHoldLocked(r, sc) {
			return &Reply{NoReply: true}
		}
	}
	reg, exc := c.checkRegionLocked(sc.Addr, regName, e.Row, &e)
	if exc != nil {
		c.logExecLocked(e)
		return &Reply{Exc: exc}
	}
	if e.Probe && reg != nil && reg.ProbeExc != nil {
		e.Result = reg.ProbeExc.Class
		c.logExecLocked(e)
		return &Reply{Exc: &Exc{Class: reg.ProbeExc.Class, Stack: reg.ProbeExc.Class + ": " + reg.ProbeExc.Stack}}
	}
	out := c.scriptedLocked(marker)
	if out != nil {
		switch out.Kind {
		case "exc":
			e.Result = out.Class
			c.logExecLocked(e)
			return &Reply{Exc: &Exc{Class: out.Class, Stack: out.Class + ": " + out.Stack + " marker=" + marker}}
		case "drop":
			e.Result = "drop"
			c.logExecLocked(e)
			return &Reply{NoReply: true}
		case "reset":
			e.Result = "reset"
			c.logExecLocked(e)
			return &Reply{Reset: true}
		}
	}
	e.Executed, e.Result = true, "ok"
	c.logExecLocked(e)
	rep := &Reply{}
	if e.Probe && reg != nil && reg.KillAfterProbe > 0 {
		reg.KillAfterProbe--
		rep.CloseAfter = true
	}
	if out != nil && out.Kind == "hold" {
		rep.HoldKey = marker
	}
	if out != nil && out.Kind == "truncate" {
		rep.Truncate = true
	}
	if get != nil {
		res, cb := c.getResultLocked(get, marker)
		rep.Msg = &pb.GetResponse{Result: res}
		rep.CellBlock = cb
		return rep
	}
	res, cb, processed := c.mutateResultLocked(mut, marker, cond)
	rep.Msg = &pb.MutateResponse{Result: res, Processed: processed}
	rep.CellBlock = cb
	return rep
}

func (c *Cluster) getResultLocked(get *pb.Get, marker string) (*pb.Result, []byte) {
	if get.GetExistenceOnly() {
		ex := marker != "" && H(get.GetRow(), []byte(marker))&1 == 1
		return &pb.Result{Exists: &ex}, nil
	}
	return c.cellsResultLocked(EchoCells(get.GetRow(), marker))
}

func (c *Cluster) cellsResultLocked(cells []wire.Cell) (*pb.Result, []byte) {
	if c.UseCellBlocks {
		n := int32(len(cells))
		return &pb.Result{AssociatedCellCount: &n}, encodeCells(cells)
	}
	return &pb.Result{Cell: cellsToPB(cells)}, nil
}

func (c *Cluster) mutateResultLocked(mut *pb.MutationProto, marker string, cond *pb.Condition) (*pb.Result, []byte, *bool) {
	switch mut.GetMutateType() {
	case pb.MutationProto_APPEND:
		r, cb := c.cellsResultLocked(EchoCells(mut.GetRow(), marker))
		return r, cb, nil
	case pb.MutationProto_INCREMENT:
		v := make([]byte, 8)
		binary.BigEndian.PutUint64(v, uint64(EchoInc(mut.GetRow(), marker)))
		if c.IncValue != nil {
			v = c.IncValue
		}
		r, cb := c.cellsResultLocked([]wire.Cell{{Row: mut.GetRow(), Family: []byte("f"), Qualifier: []byte(marker), Timestamp: 1, Type: wire.TypePut, Value: v}})
		return r, cb, nil
	}
	if cond != nil {
		p := H(mut.GetRow(), []byte(marker), []byte("cas"))&1 == 1
		return &pb.Result{}, nil, &p
	}
	// HBase answers puts/deletes with an empty result and processed=true
	t := true
	return &pb.Result{}, nil, &t
}

// execMulti executes a MultiRequest.
func (c *Cluster) execMulti(sc *Conn, req *wire.Request, m *pb.MultiRequest, cellblock []byte) *Reply {
	c.mu.Lock()
	defer c.mu.Unlock()
	callID := req.Header.GetCallId()
	if sc.Service != "ClientService" {
		c.problemLocked("Multi on a %q connection", sc.Service)
	}
	type pending struct {
		e   Exec
		out *Outcome
		a   *pb.Action
	}
	type regionActs struct {
		name      []byte
		acts      []*pending
		exc       *Exc
		excResult string
	}
	var all []regionActs
	off := 0
	dropAll, resetAll := false, false
	seenIdx := map[uint32]bool{}
	// pass 1: decode everything and look up the scripted outcomes
	for _, ra := range m.GetRegionAction() {
		regName := ra.GetRegion().GetValue()
		rs := regionActs{name: regName}
		for i, a := range ra.GetAction() {
			e := Exec{Addr: sc.Addr, Conn: sc.ID, CallID: callID, Method: "Multi", Region: string(regName), InMulti: true, MultiSeq: i}
			if a.Index == nil || a.GetIndex() == 0 {
				c.problemLocked("multi action without index")
			} else if seenIdx[a.GetIndex()] {
				c.problemLocked("multi action index %d repeated", a.GetIndex())
			}
			seenIdx[a.GetIndex()] = true
			var marker string
			if a.Get != nil {
				e.Row = a.Get.GetRow()
				marker = markerOfGet(a.Get)
			} else if a.Mutation != nil {
				n := int(a.Mutation.GetAssociatedCellCount())
				cells, used, err := wire.DecodeCells(cellblock[off:], n)
				if err != nil {
					c.problemLocked("conn %d call %d: multi cellblock for action %d: %v", sc.ID, callID, a.GetIndex(), err)
				}
				off += used
				e.Row = a.Mutation.GetRow()
				marker = markerOfMutation(a.Mutation, cells)
			} else {
				c.problemLocked("multi action %d has neither get nor mutation", a.GetIndex())
			}
			e.Marker = marker
			c.arriveLocked(marker, &e)
			rs.acts = append(rs.acts, &pending{e, nil, a})
		}
		all = append(all, rs)
	}
	if off != len(cellblock) {
		c.problemLocked("conn %d call %d: multi request cellblock has %d bytes, associated cell counts cover %d", sc.ID, callID, len(cellblock), off)
	}
	// region checks, then the scripted outcomes of the actions that reached their region
	for i := range all {
		rs := &all[i]
		e0 := Exec{}
		var reg *Region
		reg, rs.exc = c.checkRegionLocked(sc.Addr, rs.name, nil, &e0)
		rs.excResult = e0.Result
		if rs.exc == nil && reg != nil {
			if rr := c.regionByNameLocked(rs.name); rr != nil && len(rr.MultiExc) > 0 {
				x := rr.MultiExc[0]
				rr.MultiExc = rr.MultiExc[1:]
				rs.exc, rs.excResult = &x, x.Class
			}
		}
		if rs.exc != nil {
			continue
		}
		for _, p := range rs.acts {
			p.out = c.scriptedLocked(p.e.Marker)
			if p.out != nil && p.out.Kind == "drop" {
				dropAll = true
			}
			if p.out != nil && p.out.Kind == "reset" {
				resetAll = true
			}
		}
	}
	if dropAll || resetAll {
		// the whole request is lost before anything is executed
		for _, rs := range all {
			for _, p := range rs.acts {
				p.e.Result = "drop"
				c.logExecLocked(p.e)
			}
		}
		if resetAll {
			return &Reply{Reset: true}
		}
		return &Reply{NoReply: true}
	}
	// pass 2: execute
	resp := &pb.MultiResponse{}
	var outCells []byte
	holdKey := ""
	junk := false
	for _, rs := range all {
		rar := &pb.RegionActionResult{}
		if exc := rs.exc; exc != nil {
			for _, p := range rs.acts {
				p.e.Result = rs.excResult
				c.logExecLocked(p.e)
			}
			rar.Exception = &pb.NameBytesPair{Name: proto.String(exc.Class), Value: []byte(exc.Stack)}
			resp.RegionActionResult = append(resp.RegionActionResult, rar)
			continue
		}
		r := c.regionByNameLocked(rs.name)
		var roes []*pb.ResultOrException
		var roeCells [][]byte
		for _, p := range rs.acts {
			idx := p.a.GetIndex()
			if r != nil && p.e.Row != nil && !r.Contains(p.e.Row) {
				c.problemLocked("misrouted: row %q in multi action for region %q [%q,%q) on %s", p.e.Row, r.Name, r.Start, r.Stop, sc.Addr)
				p.e.Result = "wrongregion"
				c.logExecLocked(p.e)
				roes = append(roes, &pb.ResultOrException{Index: &idx, Exception: &pb.NameBytesPair{Name: proto.String(WrongRegion), Value: []byte(WrongRegion + ": row out of range marker=" + p.e.Marker)}})
				roeCells = append(roeCells, nil)
				continue
			}
			if p.out != nil && p.out.Kind == "exc" {
				p.e.Result = p.out.Class
				c.logExecLocked(p.e)
				roes = append(roes, &pb.ResultOrException{Index: &idx, Exception: &pb.NameBytesPair{Name: proto.String(p.out.Class),
					Value: []byte(p.out.Class + ": " + p.out.Stack + " marker=" + p.e.Marker)}})
				roeCells = append(roeCells, nil)
				continue
			}
			if p.out != nil && p.out.Kind == "hold" {
				holdKey = p.e.Marker
			}
			if p.out != nil && p.out.Kind == "junk" {
				junk = true
			}
			p.e.Executed, p.e.Result = true, "ok"
			c.logExecLocked(p.e)
			var res *pb.Result
			var cb []byte
			if p.a.Get != nil {
				res, cb = c.getResultLocked(p.a.Get, p.e.Marker)
			} else {
				res, cb, _ = c.mutateResultLocked(p.a.Mutation, p.e.Marker, nil)
			}
			roes = append(roes, &pb.ResultOrException{Index: &idx, Result: res})
			roeCells = append(roeCells, cb)
		}
		if c.PermuteMulti && len(roes) > 1 {
			perm := make([]int, len(roes))
			for i := range perm {
				perm[i] = i
			}
			switch c.tapeLocked() % 4 {
			case 1:
				sort.Sort(sort.Reverse(sort.IntSlice(perm)))
			case 2:
				k := int(c.tapeLocked()) % len(perm)
				perm = append(perm[k:], perm[:k]...)
			case 3:
				for i := len(perm) - 1; i > 0; i-- {
					j := int(c.tapeLocked()) % (i + 1)
					perm[i], perm[j] = perm[j], perm[i]
				}
			}
			nr := make([]*pb.ResultOrException, len(roes))
			nc := make([][]byte, len(roes))
			for i, p := range perm {
				nr[i], nc[i] = roes[p], roeCells[p]
			}
			roes, roeCells = nr, nc
		}
		for i := range roes {
			rar.ResultOrException = append(rar.ResultOrException, roes[i])
			outCells = append(outCells, roeCells[i]...)
		}
		resp.RegionActionResult = append(resp.RegionActionResult, rar)
	}
	if junk && len(outCells) > 0 {
		// a sound cellblock followed by bytes that belong to nothing (the client has to refuse the response)
		outCells = append(outCells, 0, 0, 0, 1, 0xde, 0xad)
		c.JunkSent++
	}
	return &Reply{Msg: resp, CellBlock: outCells, HoldKey: holdKey}
}
