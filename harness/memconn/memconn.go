// Package memconn provides an in-memory net.Conn pair that the harness owns:
// buffering, deadlines, an operation counter with a fault plan, optional
// yields between writes and hooks. It blocks only on sync.Cond, so that it
// is durably blocking inside a testing/synctest bubble (net.Pipe is not).
package memconn

import (
	"errors"
	"fmt"
	"io"
	"net"
	"os"
	"runtime"
	"sync"
	"time"
)

// Op is one operation on the client side of a pair.
type Op struct {
	Index int    // 1-based, over all client-side operations
	Kind  string // read | write | setreaddeadline | setwritedeadline | close
	N     int    // bytes transferred
	Err   string
	At    time.Time
	Arg   time.Time // deadline argument
}

// Fault makes client-side operation number Op fail.
type Fault struct {
	Op      int
	Partial int   // bytes transferred before a write fails
	Err     error // default: ErrInjected
	// Sticky makes every later client-side operation fail too (a reset
	// connection); default true for read/write faults, see NewPair.
	NotSticky bool
}

// ErrInjected is the default injected error.
var ErrInjected = errors.New("memconn: injected connection fault")

type timeoutError struct{}

func (timeoutError) Error() string   { return "memconn: i/o timeout" }
func (timeoutError) Timeout() bool   { return true }
func (timeoutError) Temporary() bool { return true }
func (timeoutError) Unwrap() error   { return os.ErrDeadlineExceeded }

// ErrTimeout is returned when a deadline expires.
var ErrTimeout net.Error = timeoutError{}

// Options configure a pair.
type Options struct {
	// Cap bounds the client->server buffer (0 = unbounded): a client Write
	// blocks while the server has not read enough.
	Cap int
	// YieldAfterWrite makes every client Write yield the processor that many
	// times before returning, so that multi-call emissions from different
	// goroutines interleave unless something prevents it.
	YieldAfterWrite int
	// Faults is the fault plan for client-side operations.
	Faults []Fault
	// BeforeOp is called (without locks held) before each client-side
	// operation with its index and kind.
	BeforeOp func(index int, kind string)
	// AfterWrite is called (without locks held) after a client Write has
	// delivered its bytes and before it returns.
	AfterWrite func(data []byte)
	// AfterWriteDone is called (without locks held) when a client Write is about to return,
	// whatever its outcome.
	AfterWriteDone func(err error)
	// BeforeDeadline is called (without locks held) before a client-side
	// SetReadDeadline is applied, with its argument.
	BeforeDeadline func(t time.Time)
	Addr           string
	// CloseErr: the client side's Close closes the connection and reports this error (a TLS connection that
	// could not send its close_notify alert does that)
	CloseErr error
}

// Pair is a connected pair of conns.
type Pair struct {
	mu     sync.Mutex
	cond   *sync.Cond
	Client *Conn
	Server *Conn
	opts   Options
	ops    []Op
	nops   int
	broken error // sticky fault
	// ClientWritten is every byte the client wrote, in order, with offsets of
	// the individual Write calls.
	ClientWritten []byte
	WriteOffsets  []int
	WriteTimes    []time.Time
}

// Conn is one end of a pair.
type Conn struct {
	p        *Pair
	isClient bool
	rx       []byte
	closed   bool // this end was closed
	peerGone bool // peer end was closed
	rdl, wdl time.Time
	rtimer   *time.Timer
	wtimer   *time.Timer
	// LastReadDeadline is the last value passed to SetReadDeadline and when.
	LastReadDeadline   time.Time
	LastReadDeadlineAt time.Time
	ReadDeadlineSets   int
	peer               *Conn
	local, remote      addr
}

type addr string

func (a addr) Network() string { return "mem" }
func (a addr) String() string  { return string(a) }

// NewPair creates a connected pair.
func NewPair(opts Options) *Pair {
	p := &Pair{opts: opts}
	p.cond = sync.NewCond(&p.mu)
	p.Client = &Conn{p: p, isClient: true, local: "client", remote: addr(opts.Addr)}
	p.Server = &Conn{p: p, local: addr(opts.Addr), remote: "client"}
	p.Client.peer = p.Server
	p.Server.peer = p.Client
	return p
}

// Ops returns a copy of the client-side operation log.
func (p *Pair) Ops() []Op {
	p.mu.Lock()
	defer p.mu.Unlock()
	return append([]Op(nil), p.ops...)
}

// NumOps returns the number of client-side operations so far.
func (p *Pair) NumOps() int {
	p.mu.Lock()
	defer p.mu.Unlock()
	return p.nops
}

// ClientClosed reports whether the client end has been closed.
func (p *Pair) ClientClosed() bool {
	p.mu.Lock()
	defer p.mu.Unlock()
	return p.Client.closed
}

// ReadDeadline returns the client's current read deadline.
func (p *Pair) ReadDeadline() time.Time {
	p.mu.Lock()
	defer p.mu.Unlock()
	return p.Client.rdl
}

// Written returns a copy of everything the client wrote.
func (p *Pair) Written() ([]byte, []int) {
	p.mu.Lock()
	defer p.mu.Unlock()
	return append([]byte(nil), p.ClientWritten...), append([]int(nil), p.WriteOffsets...)
}

// beginOp counts a client-side op, runs the hook and looks up a fault.
func (c *Conn) beginOp(kind string) (idx int, f *Fault, sticky error) {
	if !c.isClient {
		return 0, nil, nil
	}
	p := c.p
	p.mu.Lock()
	p.nops++
	idx = p.nops
	hook := p.opts.BeforeOp
	p.mu.Unlock()
	if hook != nil {
		hook(idx, kind)
	}
	p.mu.Lock()
	defer p.mu.Unlock()
	if p.broken != nil && kind != "close" {
		return idx, nil, p.broken
	}
	for i := range p.opts.Faults {
		if p.opts.Faults[i].Op == idx {
			f = &p.opts.Faults[i]
			if f.Err == nil {
				f.Err = ErrInjected
			}
			if !f.NotSticky && (kind == "read" || kind == "write") {
				p.broken = f.Err
			}
			return idx, f, nil
		}
	}
	return idx, nil, nil
}

func (c *Conn) logOp(idx int, kind string, n int, err error, arg time.Time) {
	if !c.isClient {
		return
	}
	e := ""
	if err != nil {
		e = err.Error()
	}
	c.p.ops = append(c.p.ops, Op{Index: idx, Kind: kind, N: n, Err: e, At: time.Now(), Arg: arg})
}

// Read implements net.Conn.
func (c *Conn) Read(b []byte) (int, error) {
	idx, f, sticky := c.beginOp("read")
	p := c.p
	p.mu.Lock()
	defer p.mu.Unlock()
	if sticky != nil {
		c.logOp(idx, "read", 0, sticky, time.Time{})
		return 0, sticky
	}
	if f != nil {
		c.logOp(idx, "read", 0, f.Err, time.Time{})
		return 0, f.Err
	}
	for {
		if c.closed {
			c.logOp(idx, "read", 0, net.ErrClosed, time.Time{})
			return 0, net.ErrClosed
		}
		if len(c.rx) > 0 {
			n := copy(b, c.rx)
			c.rx = c.rx[n:]
			c.logOp(idx, "read", n, nil, time.Time{})
			p.cond.Broadcast() // a bounded writer may proceed
			return n, nil
		}
		if c.peerGone {
			c.logOp(idx, "read", 0, io.EOF, time.Time{})
			return 0, io.EOF
		}
		if !c.rdl.IsZero() && !time.Now().Before(c.rdl) {
			c.logOp(idx, "read", 0, ErrTimeout, time.Time{})
			return 0, ErrTimeout
		}
		if len(b) == 0 {
			return 0, nil
		}
		p.cond.Wait()
	}
}

// Write implements net.Conn. One call is atomic with respect to other
// writers; nothing is guaranteed across calls.
func (c *Conn) Write(b []byte) (int, error) {
	n, err := c.write(b)
	if c.isClient && c.p.opts.AfterWriteDone != nil {
		c.p.opts.AfterWriteDone(err)
	}
	return n, err
}

func (c *Conn) write(b []byte) (int, error) {
	idx, f, sticky := c.beginOp("write")
	p := c.p
	p.mu.Lock()
	if sticky != nil {
		c.logOp(idx, "write", 0, sticky, time.Time{})
		p.mu.Unlock()
		return 0, sticky
	}
	data := b
	var ferr error
	if f != nil {
		n := f.Partial
		if n < 0 { // negative: counted from the end
			n = len(b) + n
			if n < 0 {
				n = 0
			}
		}
		if n > len(b) {
			n = len(b)
		}
		data = b[:n]
		ferr = f.Err
	}
	for {
		if c.closed {
			c.logOp(idx, "write", 0, net.ErrClosed, time.Time{})
			p.mu.Unlock()
			return 0, net.ErrClosed
		}
		if c.peerGone {
			err := fmt.Errorf("memconn: write: %w", errors.New("broken pipe"))
			c.logOp(idx, "write", 0, err, time.Time{})
			p.mu.Unlock()
			return 0, err
		}
		if !c.wdl.IsZero() && !time.Now().Before(c.wdl) {
			c.logOp(idx, "write", 0, ErrTimeout, time.Time{})
			p.mu.Unlock()
			return 0, ErrTimeout
		}
		if c.isClient && p.opts.Cap > 0 && len(c.peer.rx) > 0 && len(c.peer.rx)+len(data) > p.opts.Cap {
			p.cond.Wait()
			continue
		}
		break
	}
	c.peer.rx = append(c.peer.rx, data...)
	if c.isClient {
		p.WriteOffsets = append(p.WriteOffsets, len(p.ClientWritten))
		p.WriteTimes = append(p.WriteTimes, time.Now())
		p.ClientWritten = append(p.ClientWritten, data...)
	}
	c.logOp(idx, "write", len(data), ferr, time.Time{})
	p.cond.Broadcast()
	hook := p.opts.AfterWrite
	yields := p.opts.YieldAfterWrite
	p.mu.Unlock()
	if c.isClient {
		if hook != nil {
			hook(data)
		}
		for i := 0; i < yields; i++ {
			runtime.Gosched()
		}
	}
	if ferr != nil {
		return len(data), ferr
	}
	return len(b), nil
}

// Close implements net.Conn.
func (c *Conn) Close() error {
	idx, f, _ := c.beginOp("close")
	p := c.p
	p.mu.Lock()
	defer p.mu.Unlock()
	var err error
	if c.closed {
		err = net.ErrClosed
	}
	c.closed = true
	c.peer.peerGone = true
	if c.rtimer != nil {
		c.rtimer.Stop()
	}
	if c.wtimer != nil {
		c.wtimer.Stop()
	}
	if f != nil {
		err = f.Err
	}
	if err == nil && c.isClient && p.opts.CloseErr != nil {
		err = p.opts.CloseErr
	}
	c.logOp(idx, "close", 0, err, time.Time{})
	p.cond.Broadcast()
	return err
}

func (c *Conn) setDeadline(kind string, t time.Time) error {
	idx, f, sticky := c.beginOp(kind)
	if c.isClient && kind == "setreaddeadline" && c.p.opts.BeforeDeadline != nil {
		c.p.opts.BeforeDeadline(t)
	}
	p := c.p
	p.mu.Lock()
	defer p.mu.Unlock()
	if sticky != nil {
		c.logOp(idx, kind, 0, sticky, t)
		return sticky
	}
	if f != nil {
		c.logOp(idx, kind, 0, f.Err, t)
		return f.Err
	}
	if c.closed {
		c.logOp(idx, kind, 0, net.ErrClosed, t)
		return net.ErrClosed
	}
	arm := func(old *time.Timer) *time.Timer {
		if old != nil {
			old.Stop()
		}
		if t.IsZero() {
			return nil
		}
		d := time.Until(t)
		if d < 0 {
			d = 0
		}
		return time.AfterFunc(d, func() {
			p.mu.Lock()
			p.cond.Broadcast()
			p.mu.Unlock()
		})
	}
	if kind == "setreaddeadline" || kind == "setdeadline" {
		c.rdl = t
		c.rtimer = arm(c.rtimer)
		c.LastReadDeadline = t
		c.LastReadDeadlineAt = time.Now()
		c.ReadDeadlineSets++
	}
	if kind == "setwritedeadline" || kind == "setdeadline" {
		c.wdl = t
		c.wtimer = arm(c.wtimer)
	}
	c.logOp(idx, kind, 0, nil, t)
	p.cond.Broadcast()
	return nil
}

// SetDeadline implements net.Conn.
func (c *Conn) SetDeadline(t time.Time) error { return c.setDeadline("setdeadline", t) }

// SetReadDeadline implements net.Conn.
func (c *Conn) SetReadDeadline(t time.Time) error { return c.setDeadline("setreaddeadline", t) }

// SetWriteDeadline implements net.Conn.
func (c *Conn) SetWriteDeadline(t time.Time) error { return c.setDeadline("setwritedeadline", t) }

// LocalAddr implements net.Conn.
func (c *Conn) LocalAddr() net.Addr { return c.local }

// RemoteAddr implements net.Conn.
func (c *Conn) RemoteAddr() net.Addr { return c.remote }

// Buffered returns the number of bytes waiting to be read by this end.
func (c *Conn) Buffered() int {
	c.p.mu.Lock()
	defer c.p.mu.Unlock()
	return len(c.rx)
}
