package props

import (
	"context"
	"errors"
	"fmt"
	"log/slog"
	"strings"
	"sync"
	"testing"
	"testing/synctest"
	"time"

	"github.com/tsuna/gohbase"
	"github.com/tsuna/gohbase/hrpc"
	"github.com/tsuna/gohbase/region"
	"pgregory.net/rapid"

	"verifharness/evid"
	"verifharness/memconn"
	"verifharness/sim"
)

// c19Case: a workload, a state in which Close is issued, and what follows.
type c19Case struct {
	// Point: idle | inflight | zk | meta | dial | probe | backoff | dialrefused | zkerror | multistop | lookedup
	Point   string   `json:"point"`
	Warm    bool     `json:"warm"`            // run a few calls to completion first (connections exist)
	Callers []opSpec `json:"callers"`         // one call per concurrent caller, in flight at Close
	Batch   []opSpec `json:"batch,omitempty"` // one caller uses SendBatch with these
	Twice   string   `json:"twice,omitempty"` // "" | seq | concurrent
	After   []opSpec `json:"after"`           // calls issued after Close returned
	Queue   int      `json:"queue"`
	FlushMS int      `json:"flush_ms"`
	// PreSplit: after warming up, a used region is split (its server stays healthy) and the
	// daughters are used, so that the location cache has replaced a region before Close
	PreSplit bool `json:"pre_split,omitempty"`
	// Scan (only with Warm): before the state is arranged a scanner is opened on the first region
	// (one row per response, more rows left in the region), ScanRead rows are read, and it is left
	// open - with a lease renewer running every ScanRenewMS if that is > 0. ScanNextAfter: Next is
	// called on it after Close.
	Scan          bool `json:"scan,omitempty"`
	ScanRead      int  `json:"scan_read,omitempty"`
	ScanRenewMS   int  `json:"scan_renew_ms,omitempty"`
	ScanNextAfter bool `json:"scan_next_after,omitempty"`
	// Log: the client's logger ("" discards unevaluated; json / text: Debug-level slog handlers that marshal every attribute)
	Log string `json:"log,omitempty"`
	// CloseErr: closing a connection succeeds but reports an error (as a TLS connection may)
	CloseErr bool `json:"close_err,omitempty"`
	// ReleaseFirst: release the gate before (true) or after (false) Close runs -
	// e.g. the dial completes just before or just after
	ReleaseAfterMS int `json:"release_after_ms"`
}

func isClientClosedErr(err error) bool {
	if err == nil {
		return false
	}
	return errors.Is(err, gohbase.ErrClientClosed) || err == region.ErrClientClosed ||
		strings.Contains(err.Error(), "client is closed")
}

func c19Run(c c19Case) Outcome {
	var o Outcome
	res := inBubble(theT, func() { o = c19RunInBubble(c) })
	if c.Point == "stalled" && res.Frozen != "" && strings.Contains(res.Frozen, "tsuna/gohbase") {
		// at this point every connection has exactly one writer, blocked in conn.Write, which returns as soon as the
		// connection is closed: a goroutine of the client parked on a mutex for 40 s of real time waits for that writer
		return viol("close-blocked@stalled", "Close ran while the regionservers were not reading (a writer blocked in Write on each connection); a goroutine of the client is parked on a lock that only the blocked writer can release, and nothing interrupts the write:\n%s", res.Frozen)
	}
	if o, stuck := stuckVerdict(res); stuck {
		return o
	}
	if res.Panic != "" {
		return viol("panic@"+topFrame(res.Stack), "%s\n%s", res.Panic, res.Stack)
	}
	if res.Deadlock != "" && o.Sig == "" {
		if exitLeak(res.Deadlock) {
			return viol("goroutines-left-after-close@"+c.Point, "goroutines are still blocked long after Close returned and all calls finished:\n%s", bubbleStacks(res.Stack))
		}
		return viol("close-deadlock@"+c.Point, "bubble deadlocked: %s\n%s", res.Deadlock, bubbleStacks(res.Stack))
	}
	return o
}

func c19RunInBubble(c c19Case) (out Outcome) {
	defer withLog(c.Log)()
	cl := sim.New("rs1:16020", "rs2:16020", "rs3:16020")
	cl.AddTable("t", [][]byte{[]byte("m")}, []string{"rs2:16020", "rs3:16020"}, 1000, false)
	var scanRows []sim.ScanRow
	for _, k := range []string{"a", "b", "c", "d", "e", "f", "g"} {
		scanRows = append(scanRows, sim.ScanRow{Key: []byte(k), Cells: 1})
	}
	cl.ScanHandler = sim.NewScanServer(scanRows, nil).Handle
	copts := []gohbase.Option{gohbase.RpcQueueSize(c.Queue), gohbase.FlushInterval(time.Duration(c.FlushMS) * time.Millisecond)}
	var park *parkingHandler
	if c.Point == "lookedup" {
		// an owned scheduling point: the goroutine that has just looked a region up in hbase:meta (and is about
		// to have a connection established for it) is parked at the client's own debug message
		park = newParkingHandler("looked up a region")
		copts = append(copts, gohbase.Logger(slog.New(park)))
	}
	if c.Point == "stalled" || c.CloseErr {
		cl.ConnOptions = func(addr string, k int) memconn.Options {
			var o memconn.Options
			if c.Point == "stalled" && addr != "rs1:16020" {
				// small pipes to the regionservers: a server that stops reading blocks the client's writer at once
				o.Cap = 16
			}
			if c.CloseErr {
				o.CloseErr = errors.New("tls: failed to send closeNotify alert (but connection was closed anyway)")
			}
			return o
		}
	}
	client := newSimClient(cl, copts...)
	stopped := false
	defer func() {
		if !stopped {
			cl.Stop()
		}
	}()
	if c.Warm {
		for i, k := range []string{"a", "z"} {
			g, _ := hrpc.NewGet(context.Background(), []byte("t"), []byte(k), hrpc.Families(markerFam(fmt.Sprintf("mkwarm%d", i))))
			if _, err := client.Get(g); err != nil {
				return viol("harness", "warm-up failed: %v", err)
			}
		}
	}
	if c.Warm && c.PreSplit {
		if r := cl.Owner("t", []byte("z")); r != nil {
			cl.Split(r, []byte("r"), 7000, r.Addr, "rs2:16020")
			for i, k := range []string{"n", "z"} {
				g, _ := hrpc.NewGet(context.Background(), []byte("t"), []byte(k), hrpc.Families(markerFam(fmt.Sprintf("mksplit%d", i))))
				if _, err := client.Get(g); err != nil {
					return viol("harness", "get after split failed: %v", err)
				}
			}
		}
	}
	var openScanner hrpc.Scanner
	if c.Warm && c.Scan {
		sopts := []func(hrpc.Call) error{hrpc.NumberOfRows(1)}
		if c.ScanRenewMS > 0 {
			sopts = append(sopts, hrpc.RenewInterval(time.Duration(c.ScanRenewMS)*time.Millisecond))
		}
		call, err := hrpc.NewScanRange(context.Background(), []byte("t"), nil, nil, sopts...)
		if err != nil {
			return viol("harness", "NewScanRange: %v", err)
		}
		openScanner = client.Scan(call)
		for i := 0; i < c.ScanRead; i++ {
			if _, err := openScanner.Next(); err != nil {
				return viol("harness", "scan Next %d before Close failed: %v", i, err)
			}
		}
		out.Labels = append(out.Labels, "scanner_open_at_close")
		if c.ScanRenewMS > 0 {
			out.Labels = append(out.Labels, "scanner_with_lease_renewer")
		}
	}
	// arrange the state
	all := append(append([]opSpec(nil), c.Callers...), c.Batch...)
	switch c.Point {
	case "inflight":
		for _, op := range all {
			cl.Script[op.Marker] = []sim.Outcome{{Kind: "hold"}}
		}
	case "zk":
		cl.Lock()
		cl.ZKHold = true
		cl.Unlock()
	case "meta":
		cl.Lock()
		cl.MetaHold = true
		cl.Unlock()
	case "dial":
		cl.SetServer("rs2:16020", func(s *sim.ServerState) { s.DialHold = true })
		cl.SetServer("rs3:16020", func(s *sim.ServerState) { s.DialHold = true })
	case "probe":
		cl.Lock()
		for _, r := range cl.Regions {
			r.Hold = true
		}
		cl.Unlock()
	case "backoff":
		for _, op := range all {
			var outs []sim.Outcome
			for k := 0; k < 30; k++ {
				outs = append(outs, sim.Outcome{Kind: "exc", Class: sim.CallQueueBig, Stack: "busy"})
			}
			cl.Script[op.Marker] = outs
		}
	case "dialrefused":
		cl.SetServer("rs2:16020", func(s *sim.ServerState) { s.Down = true })
		cl.SetServer("rs3:16020", func(s *sim.ServerState) { s.Down = true })
	case "lookedup":
		// (hbase:meta itself is known and connected: a lookup for a table that does not exist)
		g, _ := hrpc.NewGet(context.Background(), []byte("nosuchtable"), []byte("k"))
		client.Get(g)
		park.Arm()
	case "zkerror":
		// ZooKeeper answers every lookup with an error, before and after Close (quorum unreachable)
		cl.Lock()
		for k := 0; k < 3000; k++ {
			cl.ZKErrs = append(cl.ZKErrs, errors.New("zk: could not connect to a server"))
		}
		cl.Unlock()
	case "stalled":
		// the regionservers stop reading (hung processes): the batching goroutine of each connection blocks in
		// Write with the callers' requests; nothing but closing the connection ends such a write
		cl.SetServer("rs2:16020", func(s *sim.ServerState) { s.Stall = true })
		cl.SetServer("rs3:16020", func(s *sim.ServerState) { s.Stall = true })
	case "multistop":
		// every region answers the next multi-request that addresses it with a region-level
		// RegionServerStoppedException (the connection stays up): the client gives that connection up,
		// gets itself another one, and the calls succeed there - all of that before Close
		cl.Lock()
		for _, r := range cl.Regions {
			r.MultiExc = append(r.MultiExc, sim.Exc{Class: sim.RSStopped, Stack: sim.RSStopped + ": Server is stopping"})
		}
		cl.Unlock()
	}
	if (c.Point == "lookedup" || c.Point == "zkerror" || c.Point == "zk" || c.Point == "meta" || c.Point == "dial" || c.Point == "probe" || c.Point == "dialrefused") && c.Warm {
		// the warm connections would serve the calls without any lookup; kill them so that
		// the calls have to go through establishment again
		cl.KillConns("rs2:16020")
		cl.KillConns("rs3:16020")
		if c.Point == "zk" || c.Point == "meta" || c.Point == "zkerror" {
			cl.KillConns("rs1:16020")
		}
		synctest.Wait()
	}

	type callRes struct {
		op       opSpec
		err      error
		check    error
		done     bool
		at       time.Time
		batchRes []hrpc.RPCResult
	}
	var mu sync.Mutex
	var results []*callRes
	var wg sync.WaitGroup
	for _, op := range c.Callers {
		r := &callRes{op: op}
		results = append(results, r)
		wg.Add(1)
		go func(r *callRes) {
			defer wg.Done()
			err, cerr := doOp(client, context.Background(), "t", r.op)
			mu.Lock()
			r.err, r.check, r.done, r.at = err, cerr, true, time.Now()
			mu.Unlock()
		}(r)
	}
	var batchRes *callRes
	if len(c.Batch) > 0 {
		batchRes = &callRes{}
		wg.Add(1)
		go func() {
			defer wg.Done()
			var calls []hrpc.Call
			for _, op := range c.Batch {
				call, _ := buildCall(context.Background(), "t", op)
				calls = append(calls, call)
			}
			rs, _ := client.SendBatch(context.Background(), calls)
			mu.Lock()
			batchRes.batchRes, batchRes.done, batchRes.at = rs, true, time.Now()
			mu.Unlock()
		}()
	}
	// let the calls reach the state
	switch c.Point {
	case "backoff":
		time.Sleep(time.Duration(100+c.ReleaseAfterMS) * time.Millisecond)
	case "dialrefused", "zkerror":
		time.Sleep(60 * time.Millisecond)
	case "multistop":
		time.Sleep(time.Second)
	case "stalled":
		time.Sleep(time.Duration(c.FlushMS+1) * time.Millisecond)
	}
	if c.Point == "dial" {
		// While a dial is held inside the region client's dial-once section, other
		// establishers of the same server queue on its mutex; that is not a durable block,
		// so neither synctest.Wait nor the fake clock can be used until the dial is
		// released: wait for the dialer's own report, then Close and release directly.
		select {
		case <-cl.DialHeld:
		case <-time.After(time.Minute):
		}
	} else {
		synctest.Wait()
	}
	inFlight := 0
	mu.Lock()
	for _, r := range results {
		if !r.done {
			inFlight++
		}
	}
	if batchRes != nil && !batchRes.done {
		inFlight++
	}
	mu.Unlock()
	_, dialsBefore, _ := cl.Snapshot()

	// Close
	closeAt := time.Now()
	switch c.Twice {
	case "concurrent":
		var cw sync.WaitGroup
		for i := 0; i < 2; i++ {
			cw.Add(1)
			go func() { defer cw.Done(); client.Close() }()
		}
		cw.Wait()
	case "seq":
		client.Close()
		client.Close()
	default:
		client.Close()
	}
	if d := time.Since(closeAt); d != 0 {
		return viol("close-blocked@"+c.Point, "Close took %v of virtual time", d)
	}
	if park != nil {
		// Close has returned while the lookups' goroutines were parked: whatever they do now happens after Close
		_, dialsAtClose, _ := cl.Snapshot()
		parked := park.Parked()
		park.Release()
		synctest.Wait()
		time.Sleep(time.Second)
		synctest.Wait()
		_, dialsLater, _ := cl.Snapshot()
		if parked > 0 && len(dialsLater) > len(dialsAtClose) {
			d := dialsLater[len(dialsAtClose)]
			return viol("dial-after-close@lookedup", "%d goroutine(s) had just looked a region up when Close ran (and returned); afterwards the client dialled %s (%s): a closed client opens no connections", parked, d.Addr, d.Result)
		}
		if parked > 0 {
			out.Labels = append(out.Labels, "close_between_lookup_and_establishment")
		}
	}
	// whatever was being waited for now happens (a dial completes, ZooKeeper answers...)
	if c.ReleaseAfterMS > 0 && c.Point != "backoff" && c.Point != "dial" {
		time.Sleep(time.Duration(c.ReleaseAfterMS) * time.Millisecond)
	}
	cl.Lock()
	cl.ZKHold, cl.MetaHold = false, false
	for _, r := range cl.Regions {
		r.Hold = false
	}
	for _, s := range cl.Servers {
		s.Stall = false
		s.DialHold = false
	}
	cl.Unlock()
	for _, op := range all {
		cl.Release(op.Marker)
	}
	synctest.Wait()
	// ("promptly": a caller inside a retry back-off sleep - up to 33 s - does not get to finish it)
	bound := 100 * time.Millisecond
	time.Sleep(bound)
	synctest.Wait()

	// every in-flight call has returned, with success or a client-closed error
	mu.Lock()
	for _, r := range results {
		if !r.done {
			mu.Unlock()
			return viol("call-blocked-after-close@"+c.Point, "call %s (%s) had not returned %v after Close; blocked at:\n%s", r.op.Marker, r.op.Kind, bound, firstGohbaseStack(gohbaseGoroutines(), "SendRPC", "SendBatch"))
		}
		if r.err != nil && !isClientClosedErr(r.err) {
			mu.Unlock()
			return viol("close-wrong-error@"+c.Point, "call %s returned %v after Close; expected success or a client-closed error", r.op.Marker, r.err)
		}
		if r.check != nil {
			mu.Unlock()
			return viol("foreign-response", "%v", r.check)
		}
	}
	if batchRes != nil {
		if !batchRes.done {
			mu.Unlock()
			return viol("call-blocked-after-close@"+c.Point, "SendBatch had not returned %v after Close; blocked at:\n%s", bound, firstGohbaseStack(gohbaseGoroutines(), "SendBatch"))
		}
		for i, r := range batchRes.batchRes {
			// (a batch that could not locate one call reports the others as "not executed")
			if r.Error != nil && !isClientClosedErr(r.Error) && r.Error != gohbase.NotExecutedError &&
				!strings.Contains(r.Error.Error(), "marker="+c.Batch[i].Marker) {
				mu.Unlock()
				return viol("close-wrong-error@"+c.Point, "batch call %d returned %v after Close", i, r.Error)
			}
		}
	}
	mu.Unlock()
	wg.Wait()

	// later calls fail promptly
	for _, op := range c.After {
		t0 := time.Now()
		done := make(chan error, 1)
		go func() {
			err, _ := doOp(client, context.Background(), "t", op)
			done <- err
		}()
		synctest.Wait()
		select {
		case err := <-done:
			if !isClientClosedErr(err) {
				return viol("late-call-wrong-error", "call %s issued after Close returned %v, expected a client-closed error", op.Marker, err)
			}
			if d := time.Since(t0); d > 100*time.Millisecond {
				return viol("late-call-slow", "call %s issued after Close took %v", op.Marker, d)
			}
		default:
			time.Sleep(100 * time.Millisecond)
			synctest.Wait()
			select {
			case err := <-done:
				if !isClientClosedErr(err) {
					return viol("late-call-wrong-error", "call %s issued after Close returned %v", op.Marker, err)
				}
			default:
				stack := firstGohbaseStack(gohbaseGoroutines(), "SendRPC")
				// unblock it for teardown
				go func() { <-done }()
				return viol("late-call-blocked", "call %s issued after Close was still blocked 100ms later at:\n%s", op.Marker, stack)
			}
		}
	}

	// a scanner left open: Next on it returns promptly too
	if openScanner != nil && c.ScanNextAfter {
		done := make(chan error, 1)
		go func() {
			var err error
			for i := 0; i < 3 && err == nil; i++ { // (the first may be served from rows already fetched)
				_, err = openScanner.Next()
			}
			done <- err
		}()
		synctest.Wait()
		time.Sleep(100 * time.Millisecond)
		synctest.Wait()
		select {
		case err := <-done:
			if err == nil {
				return viol("scan-continues-after-close", "a scanner left open across Close still fetched 3 further rows afterwards")
			}
		default:
			stack := firstGohbaseStack(gohbaseGoroutines(), "Next")
			go func() { <-done }()
			return viol("late-call-blocked", "Next on a scanner left open across Close was still blocked 100ms later at:\n%s", stack)
		}
	}

	// quiescence: let back-offs elapse, then nothing may be open or happening
	time.Sleep(5 * time.Minute)
	synctest.Wait()
	_, dials1, _ := cl.Snapshot()
	cl.Lock()
	zk1, meta1 := cl.ZKCalls, cl.MetaScans
	cl.Unlock()
	if open := cl.OpenClientConns(); len(open) > 0 {
		return viol("conn-open-after-close@"+c.Point, "connections %v are still open at the servers 5 minutes after Close (dials before Close: %d, after: %d)", open, len(dialsBefore), len(dials1)-len(dialsBefore))
	}
	time.Sleep(time.Minute)
	synctest.Wait()
	_, dials2, _ := cl.Snapshot()
	cl.Lock()
	zk2, meta2 := cl.ZKCalls, cl.MetaScans
	cl.Unlock()
	if len(dials2) != len(dials1) || zk2 != zk1 || meta2 != meta1 {
		return viol("activity-after-close@"+c.Point, "the closed client is still active: %d dials, %d ZooKeeper lookups, %d meta scans in a minute", len(dials2)-len(dials1), zk2-zk1, meta2-meta1)
	}
	if gs := gohbaseGoroutines(); len(gs) > 0 {
		g := gs[0]
		if len(g) > 1500 {
			g = g[:1500]
		}
		return viol("goroutines-left-after-close@"+c.Point, "%d goroutine(s) of the closed client are still alive:\n%s", len(gs), g)
	}
	stopped = true
	cl.Stop()
	out.NonTrivial = inFlight > 0
	if c.Point == "multistop" {
		cl.Lock()
		left := 0
		for _, r := range cl.Regions {
			left += len(r.MultiExc)
		}
		cl.Unlock()
		if left < len(cl.Regions) {
			out.NonTrivial = true
			out.Labels = append(out.Labels, "connection_given_up_on_a_server_exception_before_close")
		}
	}
	out.Labels = append(out.Labels, "point_"+c.Point)
	if c.Twice != "" {
		out.Labels = append(out.Labels, "close_twice_"+c.Twice)
	}
	if inFlight > 0 {
		out.Labels = append(out.Labels, "inflight_at_close")
	}
	return out
}

func c19Gen(t *rapid.T) c19Case {
	var c c19Case
	c.Point = rapid.SampledFrom([]string{"idle", "inflight", "zk", "meta", "dial", "dial", "probe", "backoff", "dialrefused", "zkerror", "multistop", "lookedup"}).Draw(t, "point")
	if rapid.IntRange(0, 11).Draw(t, "stalledpoint") == 0 {
		c.Point = "stalled"
	}
	c.Warm = rapid.Bool().Draw(t, "warm")
	c.Log = rapid.SampledFrom([]string{"", "", "", "json", "text"}).Draw(t, "log")
	c.CloseErr = rapid.IntRange(0, 3).Draw(t, "closeerr") == 0
	if c.Point == "idle" || c.Point == "multistop" || c.Point == "stalled" {
		c.Warm = true
	}
	if c.Point == "lookedup" {
		// (the regions are not known yet: the calls look them up themselves)
		c.Warm = false
	}
	c.Queue = rapid.SampledFrom([]int{1, 2, 100}).Draw(t, "queue")
	c.FlushMS = rapid.SampledFrom([]int{0, 1, 20}).Draw(t, "flush")
	if c.Point == "stalled" {
		// (one writer per connection - the batching goroutine: a second one would queue on the write lock behind
		// the blocked one, which is not a durable block and would freeze the bubble's clock)
		c.Queue = rapid.SampledFrom([]int{2, 5, 100}).Draw(t, "queue2")
	}
	c.PreSplit = c.Warm && c.Point != "stalled" && rapid.Bool().Draw(t, "presplit")
	c.Twice = rapid.SampledFrom([]string{"", "", "seq", "concurrent"}).Draw(t, "twice")
	c.ReleaseAfterMS = rapid.SampledFrom([]int{0, 0, 1, 10, 500}).Draw(t, "release")
	if c.Warm && c.Point != "stalled" && rapid.IntRange(0, 2).Draw(t, "scan") == 0 {
		c.Scan = true
		c.ScanRead = rapid.IntRange(1, 3).Draw(t, "scanread")
		c.ScanRenewMS = rapid.SampledFrom([]int{0, 5, 1000, 20000}).Draw(t, "scanrenew")
		c.ScanNextAfter = rapid.Bool().Draw(t, "scannext")
	}
	n := 0
	l := layoutSpec{Table: "t", Bounds: []evid.B{evid.B("m")}}
	kinds := []string{"get", "get", "put", "app", "inc"}
	if c.Point == "stalled" {
		kinds = []string{"get", "put", "put"}
	}
	if c.Point != "idle" {
		nc := rapid.IntRange(1, 6).Draw(t, "ncallers")
		for i := 0; i < nc; i++ {
			c.Callers = append(c.Callers, genOp(t, l, kinds, &n))
		}
		if rapid.IntRange(0, 2).Draw(t, "withbatch") == 0 {
			nb := rapid.IntRange(1, 4).Draw(t, "nbatch")
			for i := 0; i < nb; i++ {
				c.Batch = append(c.Batch, genOp(t, l, []string{"get", "put"}, &n))
			}
		}
	}
	na := rapid.IntRange(0, 3).Draw(t, "nafter")
	for i := 0; i < na; i++ {
		c.After = append(c.After, genOp(t, l, kinds, &n))
	}
	return c
}

func TestC19_Close(t *testing.T) {
	theT = t
	rec := evid.New("C19", "TestC19_Close",
		"rapid, virtual time: 1..6 concurrent callers (single calls, optionally one SendBatch) over 2 regions on 2 "+
			"servers are brought into a chosen state - idle, responses held (in flight), ZooKeeper lookup held, meta scan "+
			"held, dialer entered and held (before/during dial), region probe held, retry back-off, dial refused "+
			"repeatedly, ZooKeeper answering every lookup with an error (before and after Close), a connection given up because a multi-response "+
			"carried a server-stopped exception (and replaced by another one), regionservers that stopped reading so that the connections' writers are blocked in Write with the callers' requests, a region just looked up in hbase:meta and not yet being established (the looking-up goroutine parked "+
			"at the client's own debug message through a harness-supplied logger) - with or without previously established connections, optionally over connections whose Close reports an error although it closes, optionally with a scanner left open mid-region "+
			"(with or without a lease renewer); then Close runs (once, twice, or twice "+
			"concurrently) and 0/1/10/500 virtual ms later the awaited event happens (the dial completes, ZooKeeper "+
			"answers...). Oracle: Close takes zero virtual time; every in-flight call returns within 100 virtual ms "+
			"(also a caller inside a back-off sleep) with success or a client-closed error; calls issued "+
			"afterwards fail at once with a client-closed error; 5 virtual minutes later no client-side connection is "+
			"open at the simulated servers, a further minute sees no dial / ZooKeeper lookup / meta scan, and no "+
			"goroutine of the client is left. Non-trivial = Close ran while >= 1 call was in flight; distinct by case hash")
	Drive(t, rec, true, c19Gen, c19Run)
}
