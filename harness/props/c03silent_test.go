package props

import (
	"context"
	"fmt"
	"runtime"
	"sync"
	"sync/atomic"
	"testing"
	"testing/synctest"
	"time"

	"github.com/tsuna/gohbase/hrpc"
	"github.com/tsuna/gohbase/region"
	"pgregory.net/rapid"

	"verifharness/evid"
	"verifharness/memconn"
	"verifharness/wire"
)

// c03sCase: the server answers the first Answered requests and is silent from then on; the request that meets
// the silence is sent at an unlucky moment: while the connection's reader, having delivered the last answer, is
// about to note that nothing is in flight any more (harness-owned schedule: the reader is descheduled right where
// it clears the read deadline, for as long as it takes the new sender to get as far as the code lets it).
type c03sCase struct {
	Answered int  `json:"answered"` // 1..3 requests answered, one at a time
	Batched  bool `json:"batched"`  // the late request goes through the batching goroutine
	Queue    int  `json:"queue"`
	FlushMS  int  `json:"flush_ms"`
	Hold     bool `json:"hold"`  // false: the late request is sent after the reader is done (control)
	Late     int  `json:"late"`  // 1..2 late requests
	After    int  `json:"after"` // calls queued after the failure
}

func c03sRun(c c03sCase) Outcome {
	var o Outcome
	res := inBubble(theT, func() { o = c03sInBubble(c) })
	if so, stuck := stuckVerdict(res); stuck {
		return so
	}
	if res.Panic != "" {
		return viol("panic@"+topFrame(res.Stack), "%s\n%s", res.Panic, res.Stack)
	}
	if res.Deadlock != "" && o.Sig == "" {
		return viol("conn-fail-hang", "%s\n%s", res.Deadlock, bubbleStacks(res.Stack))
	}
	return o
}

func c03sInBubble(c c03sCase) (out Outcome) {
	const readTimeout = 50 * time.Millisecond
	var armSeq atomic.Int64
	var holdNext atomic.Bool
	var sendLate func()
	overtaken := false
	opts := memconn.Options{BeforeDeadline: func(t time.Time) {
		if !t.IsZero() {
			armSeq.Add(1)
			return
		}
		if !holdNext.CompareAndSwap(true, false) {
			return
		}
		start := armSeq.Load()
		sendLate()
		for i := 0; i < 20000 && armSeq.Load() == start; i++ {
			runtime.Gosched()
		}
		overtaken = armSeq.Load() != start
	}}
	env, err := newRCEnv(c.Queue, time.Duration(c.FlushMS)*time.Millisecond, readTimeout, false, opts)
	if err != nil {
		return viol("harness", "dial: %v", err)
	}
	// the server: answers what it is told to, reads everything
	var smu sync.Mutex
	var pending []*wire.Request
	srvDone := make(chan struct{})
	go func() {
		defer close(srvDone)
		if _, err := wire.ReadHello(env.pair.Server); err != nil {
			return
		}
		for {
			r, err := wire.ReadRequest(env.pair.Server)
			if err != nil {
				return
			}
			smu.Lock()
			pending = append(pending, r)
			smu.Unlock()
		}
	}()
	answerOne := func() bool {
		smu.Lock()
		if len(pending) == 0 {
			smu.Unlock()
			return false
		}
		r := pending[0]
		pending = pending[1:]
		smu.Unlock()
		env.pair.Server.Write(rcOKResponse(r))
		return true
	}
	type tracked struct {
		name    string
		call    hrpc.Call
		results []hrpc.RPCResult
	}
	var tmu sync.Mutex
	var all []*tracked
	stop := make(chan struct{})
	var waiters sync.WaitGroup
	newCall := func(name string, batched bool) *tracked {
		var gopts []func(hrpc.Call) error
		if !batched {
			gopts = append(gopts, hrpc.SkipBatch())
		}
		g, _ := hrpc.NewGet(context.Background(), []byte("t"), []byte("r"), append(gopts, hrpc.Families(markerFam("mk"+name)))...)
		g.SetRegion(env.reg)
		t := &tracked{name: name, call: g}
		tmu.Lock()
		all = append(all, t)
		tmu.Unlock()
		waiters.Add(1)
		go func() {
			defer waiters.Done()
			for {
				select {
				case r := <-g.ResultChan():
					tmu.Lock()
					t.results = append(t.results, r)
					tmu.Unlock()
				case <-stop:
					return
				}
			}
		}()
		return t
	}
	defer func() {
		close(stop)
		env.rc.Close()
		env.pair.Server.Close()
		waiters.Wait()
		<-srvDone
		synctest.Wait()
	}()
	var late []*tracked
	var lateWG sync.WaitGroup
	sendLate = func() {
		for i := 0; i < c.Late; i++ {
			t := newCall(fmt.Sprintf("late%d", i), c.Batched)
			late = append(late, t)
			lateWG.Add(1)
			go func() {
				defer lateWG.Done()
				env.rc.QueueRPC(t.call)
			}()
		}
	}
	for i := 0; i < c.Answered; i++ {
		t := newCall(fmt.Sprintf("answered%d", i), false)
		env.rc.QueueRPC(t.call)
		synctest.Wait()
		if i == c.Answered-1 && c.Hold {
			holdNext.Store(true)
		}
		if !answerOne() {
			return viol("harness", "request %d did not reach the server", i)
		}
		synctest.Wait()
		tmu.Lock()
		n := len(t.results)
		tmu.Unlock()
		if n != 1 || t.results[0].Error != nil {
			return viol("answer-lost", "answered request %d has %d results (%v)", i, n, t.results)
		}
	}
	if !c.Hold {
		sendLate()
	}
	lateWG.Wait()
	synctest.Wait()
	// silence: the late requests are on the wire (or will be after the flush interval) and nothing comes back
	time.Sleep(time.Duration(c.FlushMS)*time.Millisecond + 2*readTimeout + 5*time.Millisecond)
	synctest.Wait()
	tmu.Lock()
	for _, t := range late {
		if len(t.results) == 0 {
			tmu.Unlock()
			return viol("never-completed", "request %s was sent while the reader was finishing with the previous answer (it %s the reader's clearing of the read deadline); the server has been silent for %v since (read timeout %v) and the request has no result - read deadline now: %v, connection closed by the client: %v",
				t.name, map[bool]string{true: "overtook", false: "did not overtake"}[overtaken], 2*readTimeout, readTimeout, env.pair.ReadDeadline(), env.pair.ClientClosed())
		}
	}
	tmu.Unlock()
	for i := 0; i < c.After; i++ {
		t := newCall(fmt.Sprintf("later%d", i), false)
		env.rc.QueueRPC(t.call)
		synctest.Wait()
		tmu.Lock()
		n := len(t.results)
		var e error
		if n > 0 {
			e = t.results[0].Error
		}
		tmu.Unlock()
		if _, ok := e.(region.ServerError); n != 1 || !ok {
			return viol("not-refused-after-failure", "call queued after the failure: %d results, error %v", n, e)
		}
	}
	tmu.Lock()
	defer tmu.Unlock()
	for _, t := range all {
		if len(t.results) > 1 {
			return viol("completed-twice", "call %s received %d results: %v", t.name, len(t.results), t.results)
		}
		if len(t.results) == 1 && t.name[:4] == "late" {
			if _, ok := t.results[0].Error.(region.ServerError); !ok {
				return viol("wrong-error-class", "call %s ended with %T %v, not a region.ServerError", t.name, t.results[0].Error, t.results[0].Error)
			}
		}
	}
	if !env.pair.ClientClosed() {
		return viol("silent-server-not-detected", "the server has been silent for two read timeouts with %d request(s) outstanding and the connection is still open", c.Late)
	}
	out.NonTrivial = c.Hold
	if overtaken {
		out.Labels = append(out.Labels, "sender_overtook_the_clearing_reader")
	}
	if c.Hold {
		out.Labels = append(out.Labels, "sent_while_reader_clears_deadline")
	}
	return out
}

func TestC03_SilentAfterAnswer(t *testing.T) {
	theT = t
	rec := evid.New("C03", "TestC03_SilentAfterAnswer",
		"rapid, virtual time, harness-owned schedule: a region client gets 1..3 requests answered one at a time; while its reader, "+
			"having delivered the last answer, is at the point of clearing the read deadline (nothing in flight), 1..2 further requests "+
			"are sent (unbatched or through the batching goroutine) and get as far as the code lets them; then the server is silent. "+
			"Oracle: within two read timeouts every late request is completed exactly once with a region.ServerError, the connection is "+
			"closed by the client, later calls are refused. Non-trivial = the late requests were sent inside the reader's window; "+
			"distinct by case hash (the space is small)")
	Drive(t, rec, true, func(t *rapid.T) c03sCase {
		return c03sCase{
			Answered: rapid.IntRange(1, 3).Draw(t, "answered"),
			Batched:  rapid.Bool().Draw(t, "batched"),
			Queue:    rapid.SampledFrom([]int{1, 2, 5, 100}).Draw(t, "queue"),
			FlushMS:  rapid.SampledFrom([]int{0, 1, 20}).Draw(t, "flush"),
			Hold:     rapid.IntRange(0, 4).Draw(t, "hold") > 0,
			Late:     rapid.IntRange(1, 2).Draw(t, "late"),
			After:    rapid.IntRange(0, 2).Draw(t, "after"),
		}
	}, c03sRun)
}
