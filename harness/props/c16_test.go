package props

import (
	"bytes"
	"fmt"
	"sort"
	"testing"

	"github.com/tsuna/gohbase"
	"github.com/tsuna/gohbase/region"
	"pgregory.net/rapid"

	"verifharness/evid"
	"verifharness/gen"
)

// nameParts is a region name in components; the oracle orders by the tuple.
type nameParts struct {
	Table evid.B `json:"table"`
	Key   evid.B `json:"key"`
	ID    evid.B `json:"id"`
}

func (n nameParts) name() []byte {
	out := make([]byte, 0, len(n.Table)+len(n.Key)+len(n.ID)+2)
	out = append(out, n.Table...)
	out = append(out, ',')
	out = append(out, n.Key...)
	out = append(out, ',')
	out = append(out, n.ID...)
	return out
}

func sign(x int) int {
	switch {
	case x < 0:
		return -1
	case x > 0:
		return 1
	}
	return 0
}

func tupleCmp(a, b nameParts) int {
	if c := bytes.Compare(a.Table, b.Table); c != 0 {
		return c
	}
	if c := bytes.Compare(a.Key, b.Key); c != 0 {
		return c
	}
	return bytes.Compare(a.ID, b.ID)
}

func safeCompare(a, b []byte) (r int, p any) {
	defer func() {
		if x := recover(); x != nil {
			p = x
		}
	}()
	return region.Compare(a, b), nil
}

// c16Nontrivial: prefix-related tables, a comma in a key, or raw byte order
// of the names disagreeing with the tuple order.
func c16Nontrivial(a, b nameParts) bool {
	if !bytes.Equal(a.Table, b.Table) &&
		(bytes.HasPrefix(a.Table, b.Table) || bytes.HasPrefix(b.Table, a.Table)) {
		return true
	}
	if bytes.IndexByte(a.Key, ',') >= 0 || bytes.IndexByte(b.Key, ',') >= 0 {
		return true
	}
	return sign(bytes.Compare(a.name(), b.name())) != sign(tupleCmp(a, b))
}

type c16Case struct {
	Names []nameParts `json:"names"`
}

func c16CheckPair(a, b nameParts) (string, string) {
	got, p := safeCompare(a.name(), b.name())
	if p != nil {
		return "panic@Compare", fmt.Sprintf("Compare(%q,%q) panicked: %v", a.name(), b.name(), p)
	}
	want := tupleCmp(a, b)
	if sign(got) != sign(want) {
		return "order-mismatch", fmt.Sprintf("Compare(%q,%q)=%d but tuple order says %d",
			a.name(), b.name(), got, want)
	}
	// the order is one of byte strings: it cannot depend on where the bytes live. Names are sub-slices of
	// decoded buffers in the client; compare views into ONE buffer: back to back, and - where one name is a
	// byte prefix of the other - the shorter one as a prefix view of the longer
	an, bn := a.name(), b.name()
	buf := append(append(make([]byte, 0, len(an)+len(bn)), an...), bn...)
	if r, p := safeCompare(buf[:len(an):len(an)], buf[len(an):]); p != nil || sign(r) != sign(want) {
		return "order-depends-on-memory", fmt.Sprintf("Compare(%q,%q)=%d (panic %v) when both names lie back to back in one buffer, tuple order says %d", an, bn, r, p, want)
	}
	if len(an) <= len(bn) && bytes.HasPrefix(bn, an) {
		shared := append([]byte(nil), bn...)
		if r, p := safeCompare(shared[:len(an)], shared); p != nil || sign(r) != sign(want) {
			return "order-depends-on-memory", fmt.Sprintf("Compare(%q,%q)=%d (panic %v) when the first name is a prefix view of the second's buffer, tuple order says %d", an, bn, r, p, want)
		}
		if r, p := safeCompare(shared, shared[:len(an)]); p != nil || sign(r) != -sign(want) {
			return "order-depends-on-memory", fmt.Sprintf("Compare(%q,%q)=%d (panic %v) when the second name is a prefix view of the first's buffer, tuple order says %d", bn, an, r, p, -want)
		}
	}
	return "", ""
}

func c16Run(c c16Case) Outcome {
	var out Outcome
	long := false
	ns := c.Names
	for i := range ns {
		for j := range ns {
			if sig, msg := c16CheckPair(ns[i], ns[j]); sig != "" {
				return viol(sig, "%s", msg)
			}
			if c16Nontrivial(ns[i], ns[j]) {
				out.NonTrivial = true
			}
			if i < j && len(ns[i].Key) >= 8 && len(ns[j].Key) >= 8 && bytes.Equal(ns[i].Table, ns[j].Table) && !bytes.Equal(ns[i].Key, ns[j].Key) {
				long = true
			}
		}
	}
	if long {
		out.Labels = append(out.Labels, "same_table_pair_of_different_keys_of_8_or_more_bytes")
	}
	// the lookup search keys as the client itself builds them: "table,key,:" for the table and row of a request -
	// whatever the capacity of the caller's table slice, and however many keys were built from the same slice
	for i := range ns {
		for j := range ns {
			tb := make([]byte, len(ns[i].Table), len(ns[i].Table)+len(ns[i].Key)+len(ns[j].Key)+16)
			copy(tb, ns[i].Table)
			spare := tb[:cap(tb)]
			for x := len(tb); x < len(spare); x++ {
				spare[x] = '#'
			}
			k1 := gohbase.VerifCreateRegionSearchKey(tb, ns[i].Key)
			k2 := gohbase.VerifCreateRegionSearchKey(tb, ns[j].Key)
			w1 := nameParts{Table: ns[i].Table, Key: ns[i].Key, ID: evid.B(":")}.name()
			w2 := nameParts{Table: ns[i].Table, Key: ns[j].Key, ID: evid.B(":")}.name()
			if !bytes.Equal(k1, w1) || !bytes.Equal(k2, w2) {
				return viol("search-key-wrong", "search keys built for rows %q and %q of table %q (one table slice, spare capacity %d): %q and %q, expected %q and %q",
					ns[i].Key, ns[j].Key, ns[i].Table, cap(tb)-len(tb), k1, k2, w1, w2)
			}
			if !bytes.Equal(tb, ns[i].Table) || bytes.Count(spare[len(tb):], []byte{'#'}) != len(spare)-len(tb) {
				return viol("search-key-writes-into-callers-table", "building search keys for rows %q and %q wrote into the caller's table slice %q (now %q)", ns[i].Key, ns[j].Key, ns[i].Table, spare)
			}
			// and they order like the names they stand for
			want := tupleCmp(nameParts{Table: ns[i].Table, Key: ns[i].Key, ID: evid.B(":")}, nameParts{Table: ns[i].Table, Key: ns[j].Key, ID: evid.B(":")})
			if r, p := safeCompare(k1, k2); p != nil || sign(r) != sign(want) {
				return viol("search-key-order", "Compare(%q,%q)=%d (panic %v), tuple order says %d", k1, k2, r, p, want)
			}
		}
	}
	// transitivity directly on the implementation (independent of the oracle)
	for i := range ns {
		for j := range ns {
			for k := range ns {
				ab, _ := safeCompare(ns[i].name(), ns[j].name())
				bc, _ := safeCompare(ns[j].name(), ns[k].name())
				ac, _ := safeCompare(ns[i].name(), ns[k].name())
				if ab <= 0 && bc <= 0 && ac > 0 {
					return viol("not-transitive", "%q <= %q <= %q but first > third",
						ns[i].name(), ns[j].name(), ns[k].name())
				}
			}
		}
	}
	// sorting with Compare equals sorting by tuple
	byImpl := append([]nameParts(nil), ns...)
	byTuple := append([]nameParts(nil), ns...)
	sort.SliceStable(byImpl, func(i, j int) bool {
		r, _ := safeCompare(byImpl[i].name(), byImpl[j].name())
		return r < 0
	})
	sort.SliceStable(byTuple, func(i, j int) bool { return tupleCmp(byTuple[i], byTuple[j]) < 0 })
	for i := range byImpl {
		if !bytes.Equal(byImpl[i].name(), byTuple[i].name()) {
			return viol("sort-mismatch", "sorted by Compare: %q at %d, by tuple: %q",
				byImpl[i].name(), i, byTuple[i].name())
		}
	}
	return out
}

var c16Tables = []string{"a", "a-", "a.", "aa", "a0", "a_", "b", "n:a", "n:a-", "A", "a:a", "0"}

func c16GenName(t *rapid.T, pool []nameParts) nameParts {
	if len(pool) > 0 && rapid.IntRange(0, 2).Draw(t, "derive") == 0 {
		// derive from an existing name so that components coincide
		base := pool[rapid.IntRange(0, len(pool)-1).Draw(t, "base")]
		n := nameParts{Table: base.Table, Key: base.Key, ID: base.ID}
		switch rapid.IntRange(0, 6).Draw(t, "what") {
		case 5:
			// a name that is a byte prefix of the base name: a shorter id
			if len(base.ID) > 1 {
				n.ID = base.ID[:rapid.IntRange(1, len(base.ID)-1).Draw(t, "idcut")]
			}
		case 6:
			// ... or cut inside the key at one of its commas: "t,x,1" against "t,x,1,2,5"
			if p := bytes.IndexByte(base.Key, ','); p >= 0 && p+1 < len(base.Key) && base.Key[p+1] != ',' {
				rest := base.Key[p+1:]
				if q := bytes.IndexByte(rest, ','); q > 0 {
					rest = rest[:q]
				}
				n.Key, n.ID = base.Key[:p], rest
			}
		case 4:
			n.Key = gen.Perturb(t, base.Key)
		case 0:
			n.Key = gen.Near(t, base.Key)
		case 1:
			n.ID = c16GenID(t)
		case 2:
			n.Table = evid.B(rapid.SampledFrom(c16Tables).Draw(t, "tbl"))
		case 3:
			// move a byte across the separator: "a,b" key "" vs table "a" key ",b"...
			n.Key = append(append(evid.B{}, base.Key...), ',')
		}
		return n
	}
	var tbl string
	if rapid.IntRange(0, 3).Draw(t, "fam") > 0 {
		tbl = rapid.SampledFrom(c16Tables).Draw(t, "tbl")
	} else {
		tbl = gen.Table().Draw(t, "tbl")
	}
	key := gen.Key(6)
	if rapid.IntRange(0, 2).Draw(t, "long") == 0 {
		key = gen.LongKey(40)
	}
	return nameParts{Table: evid.B(tbl), Key: key.Draw(t, "key"), ID: c16GenID(t)}
}

func c16GenID(t *rapid.T) evid.B {
	switch rapid.IntRange(0, 6).Draw(t, "idkind") {
	case 6:
		// the real format of current HBase: <timestamp, nowadays 13 digits>.<md5 of the name, 32 hex digits>.
		return evid.B(rapid.StringMatching(`[0-9]{1,14}\.[0-9a-f]{32}\.`).Draw(t, "id"))
	case 0:
		return evid.B(":") // lookup search key
	case 1:
		return evid.B(rapid.StringMatching(`[0-9]{1,19}\.[0-9a-f]{4}\.`).Draw(t, "id"))
	case 2:
		return evid.B(rapid.SampledFrom([]string{"1", "10", "2", "9", "99", "100"}).Draw(t, "id"))
	default:
		return evid.B(rapid.StringMatching(`[0-9]{1,19}`).Draw(t, "id"))
	}
}

func TestC16_Generated(t *testing.T) {
	rec := evid.New("C16", "TestC16_Generated",
		"rapid: lists of 2..6 region names built from (table, start key, id) components with "+
			"prefix-related tables, comma/neighbour bytes in keys, long keys (up to 40 bytes, word-aligned common prefixes, one byte perturbed "+
			"anywhere incl. top-bit flips), ids of different lengths and "+
			"search keys, names that are byte prefixes of other names; all ordered pairs (also as views into one shared buffer: back to back, and prefix views), all triples (transitivity) and sortedness are checked "+
			"against the component-wise tuple order; for every pair the two lookup search keys are also built by the client's own builder (hook VerifCreateRegionSearchKey) from ONE table slice with spare capacity: "+
			"both must read table,key,: afterwards, order like their tuples, and the caller's slice must be untouched. Non-trivial = some pair has prefix-related "+
			"tables, a comma in a key, or raw byte order disagreeing with tuple order; distinct by "+
			"hash of the name list")
	Drive(t, rec, false, func(t *rapid.T) c16Case {
		n := rapid.IntRange(2, 6).Draw(t, "n")
		var c c16Case
		for i := 0; i < n; i++ {
			c.Names = append(c.Names, c16GenName(t, c.Names))
		}
		return c
	}, c16Run)
}

// TestC16_Exhaustive enumerates a small scope completely.
func TestC16_Exhaustive(t *testing.T) {
	rec := evid.New("C16", "TestC16_Exhaustive",
		"exhaustive small scope: tables {a,a-,a.,aa,b,n:a} x keys over {00,+,comma,-,ff}^<=2 x ids "+
			"{1,10,2,:,1.ab.}: every ordered pair; non-trivial by the same rule, distinct by pair hash")
	defer rec.Flush()
	if evid.ReplayPath() != "" {
		var pr c16Case
		if _, err := evid.LoadReplay(evid.ReplayPath(), &pr); err != nil {
			t.Fatal(err)
		}
		if out := c16Run(pr); out.Sig != "" {
			rec.Fail(out.Sig, out.Msg, pr)
			t.Errorf("%s: %s", out.Sig, out.Msg)
		}
		return
	}
	tables := []string{"a", "a-", "a.", "aa", "b", "n:a"}
	alpha := []byte{0x00, '+', ',', '-', 0xff}
	var keys [][]byte
	keys = append(keys, nil)
	for _, x := range alpha {
		keys = append(keys, []byte{x})
		for _, y := range alpha {
			keys = append(keys, []byte{x, y})
		}
	}
	ids := []string{"1", "10", "2", ":", "1.ab."}
	var names []nameParts
	for _, tb := range tables {
		for _, k := range keys {
			for _, id := range ids {
				names = append(names, nameParts{evid.B(tb), evid.B(k), evid.B(id)})
			}
		}
	}
	var pairs, nontriv int64
	for i := range names {
		for j := range names {
			pairs++
			if sig, msg := c16CheckPair(names[i], names[j]); sig != "" {
				c := c16Case{Names: []nameParts{names[i], names[j]}}
				rec.Fail(sig, msg, c)
				t.Fatalf("%s: %s", sig, msg)
			}
			if c16Nontrivial(names[i], names[j]) {
				nontriv++
				if nontriv%200000 == 1 {
					rec.Sample(c16Case{Names: []nameParts{names[i], names[j]}})
				}
			}
		}
	}
	rec.Evals(pairs)
	rec.Label("names", int64(len(names)))
	rec.Label("nontrivial_pairs", nontriv)
	rec.DistinctN(nontriv)
	rec.SetExhaustive(true)
}
