package props

import (
	"bytes"
	"context"
	"encoding/binary"
	"fmt"
	"math"
	"sort"
	"testing"
	"testing/synctest"
	"time"

	"github.com/tsuna/gohbase/filter"
	"github.com/tsuna/gohbase/hrpc"
	"github.com/tsuna/gohbase/pb"
	"github.com/tsuna/gohbase/region"
	"google.golang.org/protobuf/proto"
	"pgregory.net/rapid"

	"verifharness/evid"
	"verifharness/memconn"
	"verifharness/wire"
)

// c05Op is the specification of one call; both the hrpc call (public
// constructors and options only) and the expected wire content derive from it.
type c05Op struct {
	Kind   string `json:"kind"` // get | put | del | app | inc | cas | scan | scannext | scanclose | scanrenew
	Row    evid.B `json:"row"`
	Region int    `json:"region"`
	// Retried: this is not the call's first attempt: it was serialised once for another region
	// (FirstRegion) - as when a request comes back NotServingRegion after a split - before it was
	// given its present region and queued
	Retried     bool `json:"retried,omitempty"`
	FirstRegion int  `json:"first_region,omitempty"`
	// queries
	Families   []c05Fam `json:"families,omitempty"`
	TRFrom     uint64   `json:"tr_from,omitempty"`
	TRTo       uint64   `json:"tr_to,omitempty"` // 0 = not set
	MaxVers    uint32   `json:"max_versions,omitempty"`
	StoreLimit uint32   `json:"store_limit,omitempty"`
	StoreOff   uint32   `json:"store_offset,omitempty"`
	NoCache    bool     `json:"no_cache,omitempty"`
	Timeline   bool     `json:"timeline,omitempty"`
	Priority   uint32   `json:"priority,omitempty"`
	Filter     string   `json:"filter,omitempty"` // "" | prefix | keyonly
	ExistsOnly bool     `json:"exists_only,omitempty"`
	// mutations
	Values     []c10Fam `json:"values,omitempty"`
	NilValues  bool     `json:"nil_values,omitempty"`
	Durability int      `json:"durability,omitempty"`
	TTLms      int64    `json:"ttl_ms,omitempty"`
	// TTLZero: the TTL option is given with a duration below one millisecond (TTLSubNS nanoseconds, possibly 0):
	// "expires at once" is not "never expires". TTLSubNS is also added to a non-zero TTLms.
	TTLZero    bool   `json:"ttl_zero,omitempty"`
	TTLSubNS   int64  `json:"ttl_sub_ns,omitempty"`
	HasTS      bool   `json:"has_ts,omitempty"`
	TS         uint64 `json:"ts,omitempty"`
	OneVersion bool   `json:"one_version,omitempty"`
	CasFamily  string `json:"cas_family,omitempty"`
	CasQual    string `json:"cas_qual,omitempty"`
	CasValue   evid.B `json:"cas_value,omitempty"`
	// scans
	Stop       evid.B `json:"stop,omitempty"`
	Reversed   bool   `json:"reversed,omitempty"`
	NumRows    uint32 `json:"num_rows,omitempty"`
	MaxResSize uint64 `json:"max_result_size,omitempty"`
	ScannerID  uint64 `json:"scanner_id,omitempty"`
	Attr       evid.B `json:"attr,omitempty"`
	Metrics    bool   `json:"metrics,omitempty"`
	SkipBatch  bool   `json:"skip_batch,omitempty"`
}

type c05Fam struct {
	Name  string   `json:"name"`
	Quals []string `json:"quals"` // nil = whole family
}

type c05aCase struct {
	Ops     []c05Op `json:"ops"`
	Queue   int     `json:"queue"`
	FlushMS int     `json:"flush_ms"`
	Snappy  bool    `json:"snappy"`
}

var c05Regions = []hrpc.RegionInfo{
	region.NewInfo(1, nil, []byte("t"), []byte("t,,1"), nil, []byte("g")),
	region.NewInfo(2, nil, []byte("t"), []byte("t,g,2.0123456789abcdef0123456789abcdef."), []byte("g"), []byte("p")),
	region.NewInfo(3, nil, []byte("t"), []byte("t,p,3"), []byte("p"), nil),
	region.NewInfo(4, []byte("ns"), []byte("t"), []byte("ns:t,,4"), nil, nil),
}

func (o c05Op) famMap() map[string][]string {
	if o.Families == nil {
		return nil
	}
	m := map[string][]string{}
	for _, f := range o.Families {
		m[f.Name] = f.Quals
	}
	return m
}

func (o c05Op) pbFilter() *pb.Filter {
	var f filter.Filter
	switch o.Filter {
	case "prefix":
		f = filter.NewPrefixFilter([]byte("pre"))
	case "keyonly":
		f = filter.NewKeyOnlyFilter(true)
	default:
		return nil
	}
	p, err := f.ConstructPBFilter()
	if err != nil {
		panic(err)
	}
	return p
}

func (o c05Op) queryOpts() []func(hrpc.Call) error {
	var opts []func(hrpc.Call) error
	if o.Families != nil {
		opts = append(opts, hrpc.Families(o.famMap()))
	}
	if o.TRTo != 0 {
		opts = append(opts, hrpc.TimeRangeUint64(o.TRFrom, o.TRTo))
	}
	if o.MaxVers != 0 {
		opts = append(opts, hrpc.MaxVersions(o.MaxVers))
	}
	if o.StoreLimit != 0 {
		opts = append(opts, hrpc.MaxResultsPerColumnFamily(o.StoreLimit))
	}
	if o.StoreOff != 0 {
		opts = append(opts, hrpc.ResultOffset(o.StoreOff))
	}
	if o.NoCache {
		opts = append(opts, hrpc.CacheBlocks(false))
	}
	if o.Timeline {
		opts = append(opts, hrpc.Consistency(hrpc.TimelineConsistency))
	}
	if o.Priority != 0 {
		opts = append(opts, hrpc.Priority(o.Priority))
	}
	switch o.Filter {
	case "prefix":
		opts = append(opts, hrpc.Filters(filter.NewPrefixFilter([]byte("pre"))))
	case "keyonly":
		opts = append(opts, hrpc.Filters(filter.NewKeyOnlyFilter(true)))
	}
	return opts
}

func (o c05Op) c10() c10Case {
	kind := map[string]string{"put": "put", "cas": "put", "del": "del", "app": "app", "inc": "inc"}[o.Kind]
	return c10Case{Kind: kind, Row: o.Row, Fams: o.Values, NilValues: o.NilValues, TS: o.TS, HasTS: o.HasTS, OneVersion: o.OneVersion}
}

func (o c05Op) build() (hrpc.Call, error) {
	ctx := context.Background()
	tb := []byte("t")
	if o.Region == 3 {
		tb = []byte("ns:t")
	}
	var call hrpc.Call
	var err error
	switch o.Kind {
	case "get":
		opts := o.queryOpts()
		if o.SkipBatch {
			opts = append(opts, hrpc.SkipBatch())
		}
		var g *hrpc.Get
		g, err = hrpc.NewGet(ctx, tb, o.Row, opts...)
		if err == nil && o.ExistsOnly {
			g.ExistsOnly()
		}
		call = g
	case "put", "del", "app", "inc", "cas":
		var opts []func(hrpc.Call) error
		if o.HasTS {
			opts = append(opts, hrpc.TimestampUint64(o.TS))
		}
		if o.OneVersion {
			opts = append(opts, hrpc.DeleteOneVersion())
		}
		if o.Durability != 0 {
			opts = append(opts, hrpc.Durability(hrpc.DurabilityType(o.Durability)))
		}
		if o.TTLms != 0 || o.TTLZero {
			opts = append(opts, hrpc.TTL(time.Duration(o.TTLms)*time.Millisecond+time.Duration(o.TTLSubNS)))
		}
		if o.SkipBatch && o.Kind != "cas" {
			opts = append(opts, hrpc.SkipBatch())
		}
		vals := o.c10().values()
		var m *hrpc.Mutate
		switch o.Kind {
		case "put", "cas":
			m, err = hrpc.NewPut(ctx, tb, o.Row, vals, opts...)
		case "del":
			m, err = hrpc.NewDel(ctx, tb, o.Row, vals, opts...)
		case "app":
			m, err = hrpc.NewApp(ctx, tb, o.Row, vals, opts...)
		case "inc":
			m, err = hrpc.NewInc(ctx, tb, o.Row, vals, opts...)
		}
		call = m
		if err == nil && o.Kind == "cas" {
			call, err = hrpc.NewCheckAndPut(m, o.CasFamily, o.CasQual, o.CasValue)
		}
	default:
		opts := o.queryOpts()
		if o.Kind == "scan" {
			if o.Reversed {
				opts = append(opts, hrpc.Reversed())
			}
			if o.MaxResSize != 0 {
				opts = append(opts, hrpc.MaxResultSize(o.MaxResSize))
			}
			if o.Attr != nil {
				opts = append(opts, hrpc.Attribute("a", o.Attr))
			}
			if o.Metrics {
				opts = append(opts, hrpc.TrackScanMetrics())
			}
		} else {
			opts = []func(hrpc.Call) error{hrpc.ScannerID(o.ScannerID)}
			if o.Priority != 0 {
				opts = append(opts, hrpc.Priority(o.Priority))
			}
			if o.Kind == "scanclose" {
				opts = append(opts, hrpc.CloseScanner())
			}
			if o.Kind == "scanrenew" {
				opts = append(opts, hrpc.RenewalScan())
			}
		}
		if o.NumRows != 0 {
			opts = append(opts, hrpc.NumberOfRows(o.NumRows))
		}
		call, err = hrpc.NewScanRange(ctx, tb, o.Row, o.Stop, opts...)
	}
	if err != nil {
		return nil, err
	}
	if o.Retried {
		call.SetRegion(c05Regions[o.FirstRegion%len(c05Regions)])
		if m, ok := call.(*hrpc.Mutate); ok {
			m.SerializeCellBlocks(nil)
		}
		call.ToProto()
	}
	call.SetRegion(c05Regions[o.Region])
	return call, nil
}

// ---- independent expectations

func wantColumns(o c05Op) []*pb.Column {
	var out []*pb.Column
	for _, f := range o.Families {
		c := &pb.Column{Family: []byte(f.Name)}
		for _, q := range f.Quals {
			c.Qualifier = append(c.Qualifier, []byte(q))
		}
		out = append(out, c)
	}
	sort.Slice(out, func(i, j int) bool { return bytes.Compare(out[i].Family, out[j].Family) < 0 })
	return out
}

func sortColumns(cs []*pb.Column) []*pb.Column {
	out := append([]*pb.Column(nil), cs...)
	sort.Slice(out, func(i, j int) bool { return bytes.Compare(out[i].Family, out[j].Family) < 0 })
	return out
}

func columnsEqual(a, b []*pb.Column) bool {
	if len(a) != len(b) {
		return false
	}
	for i := range a {
		if !bytes.Equal(a[i].Family, b[i].Family) || len(a[i].Qualifier) != len(b[i].Qualifier) {
			return false
		}
		for j := range a[i].Qualifier {
			if !bytes.Equal(a[i].Qualifier[j], b[i].Qualifier[j]) {
				return false
			}
		}
	}
	return true
}

func checkTimeRange(tr *pb.TimeRange, o c05Op) error {
	if tr == nil {
		return fmt.Errorf("no time_range message")
	}
	if o.TRTo == 0 {
		if tr.From != nil || tr.To != nil {
			return fmt.Errorf("time range %v set although none was requested", tr)
		}
		return nil
	}
	wantFrom := o.TRFrom
	if (tr.From == nil && wantFrom != 0) || (tr.From != nil && *tr.From != wantFrom) {
		return fmt.Errorf("time range from=%v, requested %d", tr.From, wantFrom)
	}
	if o.TRTo == math.MaxUint64 {
		if tr.To != nil {
			return fmt.Errorf("time range to=%d, requested the maximum (absent)", *tr.To)
		}
	} else if tr.To == nil || *tr.To != o.TRTo {
		return fmt.Errorf("time range to=%v, requested %d", tr.To, o.TRTo)
	}
	return nil
}

func checkQueryCommon(o c05Op, cols []*pb.Column, tr *pb.TimeRange, maxV *uint32, sl, so *uint32, cache *bool, cons *pb.Consistency, f *pb.Filter) error {
	if !columnsEqual(sortColumns(cols), wantColumns(o)) {
		return fmt.Errorf("columns %v, requested %v", cols, o.Families)
	}
	if err := checkTimeRange(tr, o); err != nil {
		return err
	}
	if o.MaxVers == 0 || o.MaxVers == 1 {
		if maxV != nil && *maxV != 1 {
			return fmt.Errorf("max_versions=%d, requested the default", *maxV)
		}
	} else if maxV == nil || *maxV != o.MaxVers {
		return fmt.Errorf("max_versions=%v, requested %d", maxV, o.MaxVers)
	}
	if o.StoreLimit == 0 || o.StoreLimit == math.MaxInt32 {
		if sl != nil && *sl != math.MaxInt32 {
			return fmt.Errorf("store_limit=%d, none requested", *sl)
		}
	} else if sl == nil || *sl != o.StoreLimit {
		return fmt.Errorf("store_limit=%v, requested %d", sl, o.StoreLimit)
	}
	if o.StoreOff == 0 {
		if so != nil && *so != 0 {
			return fmt.Errorf("store_offset=%d, none requested", *so)
		}
	} else if so == nil || *so != o.StoreOff {
		return fmt.Errorf("store_offset=%v, requested %d", so, o.StoreOff)
	}
	if o.NoCache {
		if cache == nil || *cache {
			return fmt.Errorf("cache_blocks=%v, requested false", cache)
		}
	} else if cache != nil && !*cache {
		return fmt.Errorf("cache_blocks=false, not requested")
	}
	if o.Timeline {
		if cons == nil || *cons != pb.Consistency_TIMELINE {
			return fmt.Errorf("consistency=%v, requested TIMELINE", cons)
		}
	} else if cons != nil && *cons != pb.Consistency_STRONG {
		return fmt.Errorf("consistency=%v, not requested", cons)
	}
	if !proto.Equal(f, o.pbFilter()) {
		return fmt.Errorf("filter %v, requested %v", f, o.pbFilter())
	}
	return nil
}

func checkGet(o c05Op, g *pb.Get) error {
	if !bytes.Equal(g.GetRow(), o.Row) {
		return fmt.Errorf("row %q, requested %q", g.GetRow(), o.Row)
	}
	if g.GetExistenceOnly() != o.ExistsOnly {
		return fmt.Errorf("existence_only=%v, requested %v", g.GetExistenceOnly(), o.ExistsOnly)
	}
	return checkQueryCommon(o, g.Column, g.TimeRange, g.MaxVersions, g.StoreLimit, g.StoreOffset, g.CacheBlocks, g.Consistency, g.Filter)
}

func checkMutation(o c05Op, m *pb.MutationProto, cells []wire.Cell, cellblockForm bool) error {
	if !bytes.Equal(m.GetRow(), o.Row) {
		return fmt.Errorf("row %q, requested %q", m.GetRow(), o.Row)
	}
	wantType := map[string]pb.MutationProto_MutationType{"put": pb.MutationProto_PUT, "cas": pb.MutationProto_PUT, "app": pb.MutationProto_APPEND,
		"inc": pb.MutationProto_INCREMENT, "del": pb.MutationProto_DELETE}[o.Kind]
	if m.GetMutateType() != wantType {
		return fmt.Errorf("mutate_type %v, requested %v", m.GetMutateType(), wantType)
	}
	if int32(m.GetDurability()) != int32(o.Durability) {
		return fmt.Errorf("durability %v, requested %d", m.GetDurability(), o.Durability)
	}
	latest := !o.HasTS || o.TS == math.MaxUint64
	if latest && m.Timestamp != nil {
		return fmt.Errorf("timestamp %d in the protobuf although the latest sentinel was requested", *m.Timestamp)
	}
	if !latest && (m.Timestamp == nil || *m.Timestamp != o.TS) {
		return fmt.Errorf("timestamp %v, requested %d", m.Timestamp, o.TS)
	}
	var ttl []byte
	for _, a := range m.GetAttribute() {
		if a.GetName() == "_ttl" {
			ttl = a.GetValue()
		}
	}
	hasTTL := o.TTLms != 0 || o.TTLZero
	if !hasTTL && ttl != nil {
		return fmt.Errorf("_ttl attribute although no TTL was requested")
	}
	// (millisecond resolution: a remainder below one millisecond may be cut off or rounded)
	if hasTTL && (len(ttl) != 8 || (int64(binary.BigEndian.Uint64(ttl)) != o.TTLms && !(o.TTLSubNS > 0 && int64(binary.BigEndian.Uint64(ttl)) == o.TTLms+1))) {
		return fmt.Errorf("_ttl attribute %x, the call was built with TTL(%d ms + %d ns)", ttl, o.TTLms, o.TTLSubNS)
	}
	var got []flatCell
	if cellblockForm {
		if int(m.GetAssociatedCellCount()) != len(cells) {
			return fmt.Errorf("associated_cell_count=%d, %d cells travel with the mutation", m.GetAssociatedCellCount(), len(cells))
		}
		if len(m.GetColumnValue()) != 0 {
			return fmt.Errorf("column values in the protobuf of a cellblock mutation")
		}
		for _, c := range cells {
			if !bytes.Equal(c.Row, o.Row) {
				return fmt.Errorf("cell row %q under mutation of row %q", c.Row, o.Row)
			}
			got = append(got, flatCell{string(c.Family), string(c.Qualifier), string(c.Value), c.Timestamp, c.Type})
		}
	} else {
		for _, cv := range m.GetColumnValue() {
			for _, qv := range cv.GetQualifierValue() {
				ts := uint64(math.MaxInt64)
				if qv.Timestamp != nil {
					ts = *qv.Timestamp
				}
				typ := byte(wire.TypePut)
				if o.Kind == "del" {
					typ = deleteTypeToKV(qv.GetDeleteType())
				}
				got = append(got, flatCell{string(cv.GetFamily()), string(qv.GetQualifier()), string(qv.GetValue()), ts, typ})
			}
		}
	}
	if want, ok := c10Expected(o.c10()); ok && !flatEqual(got, want) {
		return fmt.Errorf("cells on the wire %s, requested %s", flatStr(got), flatStr(want))
	}
	return nil
}

func checkScan(o c05Op, r *pb.ScanRequest) error {
	if !r.GetClientHandlesPartials() || !r.GetClientHandlesHeartbeats() {
		return fmt.Errorf("client_handles_partials/heartbeats not announced")
	}
	wantRows := o.NumRows
	if wantRows == 0 {
		wantRows = math.MaxInt32
	}
	if r.GetNumberOfRows() != wantRows {
		return fmt.Errorf("number_of_rows=%d, requested %d", r.GetNumberOfRows(), wantRows)
	}
	if r.GetCloseScanner() != (o.Kind == "scanclose") {
		return fmt.Errorf("close_scanner=%v for %s", r.GetCloseScanner(), o.Kind)
	}
	if r.GetRenew() != (o.Kind == "scanrenew") {
		return fmt.Errorf("renew=%v for %s", r.GetRenew(), o.Kind)
	}
	if o.Kind != "scan" {
		if r.ScannerId == nil || *r.ScannerId != o.ScannerID {
			return fmt.Errorf("scanner_id=%v, requested %d", r.ScannerId, o.ScannerID)
		}
		if r.Scan != nil {
			return fmt.Errorf("continuation request carries a Scan message")
		}
		return nil
	}
	if r.ScannerId != nil {
		return fmt.Errorf("open request carries scanner id %d", *r.ScannerId)
	}
	if r.GetTrackScanMetrics() != o.Metrics {
		return fmt.Errorf("track_scan_metrics=%v, requested %v", r.GetTrackScanMetrics(), o.Metrics)
	}
	s := r.GetScan()
	if s == nil {
		return fmt.Errorf("open request without Scan message")
	}
	if !bytes.Equal(s.GetStartRow(), o.Row) || !bytes.Equal(s.GetStopRow(), o.Stop) {
		return fmt.Errorf("scan [%q,%q), requested [%q,%q)", s.GetStartRow(), s.GetStopRow(), o.Row, o.Stop)
	}
	if s.GetReversed() != o.Reversed {
		return fmt.Errorf("reversed=%v, requested %v", s.GetReversed(), o.Reversed)
	}
	wantSize := o.MaxResSize
	if wantSize == 0 {
		wantSize = 2097152
	}
	if s.GetMaxResultSize() != wantSize {
		return fmt.Errorf("max_result_size=%d, requested %d", s.GetMaxResultSize(), wantSize)
	}
	if o.Attr != nil {
		if len(s.GetAttribute()) != 1 || s.GetAttribute()[0].GetName() != "a" || !bytes.Equal(s.GetAttribute()[0].GetValue(), o.Attr) {
			return fmt.Errorf("attributes %v, requested a=%q", s.GetAttribute(), o.Attr)
		}
	} else if len(s.GetAttribute()) != 0 {
		return fmt.Errorf("attributes %v, none requested", s.GetAttribute())
	}
	return checkQueryCommon(o, s.Column, s.TimeRange, s.MaxVersions, s.StoreLimit, s.StoreOffset, s.CacheBlocks, s.Consistency, s.Filter)
}

func checkRegion(rs *pb.RegionSpecifier, o c05Op) error {
	if rs.GetType() != pb.RegionSpecifier_REGION_NAME || !bytes.Equal(rs.GetValue(), c05Regions[o.Region].Name()) {
		return fmt.Errorf("region specifier %v %q, the call was given region %q", rs.GetType(), rs.GetValue(), c05Regions[o.Region].Name())
	}
	return nil
}

func c05aRun(c c05aCase) Outcome {
	var o Outcome
	res := inBubble(theT, func() { o = c05aInBubble(c) })
	if o, stuck := stuckVerdict(res); stuck {
		return o
	}
	if res.Panic != "" {
		return viol("panic@"+topFrame(res.Stack), "%s\n%s", res.Panic, res.Stack)
	}
	if res.Deadlock != "" && o.Sig == "" {
		return viol("deadlock", "bubble deadlocked: %s", res.Deadlock)
	}
	return o
}

func c05aInBubble(c c05aCase) (out Outcome) {
	env, err := newRCEnv(c.Queue, time.Duration(c.FlushMS)*time.Millisecond, time.Hour, c.Snappy, memconn.Options{})
	if err != nil {
		return viol("harness", "dial: %v", err)
	}
	// op index -> marker is positional: unbatched ops go out in order; batched ones keep
	// their relative order per region. We tag each op through its row: append "#<i>".
	var sent []c05Op
	for i, op := range c.Ops {
		op.Row = append(append(evid.B{}, op.Row...), []byte(fmt.Sprintf("#%03d", i))...)
		call, err := op.build()
		if err != nil {
			out.Labels = append(out.Labels, "rejected_by_constructor")
			continue
		}
		sent = append(sent, op)
		env.rc.QueueRPC(call)
	}
	time.Sleep(time.Duration(c.FlushMS)*time.Millisecond + time.Millisecond)
	synctest.Wait()
	stream, _ := env.pair.Written()
	env.rc.Close()
	synctest.Wait()

	r := bytes.NewReader(stream)
	hello, err := wire.ReadHello(r)
	if err != nil {
		return viol("hello", "connection preamble/header: %v", err)
	}
	if hello.Header.GetServiceName() != "ClientService" || hello.Header.GetUserInfo().GetEffectiveUser() != "verif" ||
		hello.Header.GetCellBlockCodecClass() != "org.apache.hadoop.hbase.codec.KeyValueCodec" {
		return viol("hello", "connection header %v", hello.Header)
	}
	if (hello.Header.GetCellBlockCompressorClass() == "org.apache.hadoop.io.compress.SnappyCodec") != c.Snappy || (!c.Snappy && hello.Header.CellBlockCompressorClass != nil) {
		return viol("hello", "compressor class %q, snappy=%v", hello.Header.GetCellBlockCompressorClass(), c.Snappy)
	}
	byRow := map[string]c05Op{}
	for _, op := range sent {
		byRow[string(op.Row)] = op
	}
	seen := map[string]int{}
	ids := map[uint32]bool{}
	multiRegions, withCells := false, false
	frame := 0
	for r.Len() > 0 {
		req, err := wire.ReadRequest(r)
		if err != nil {
			return viol("frame-malformed", "frame %d: %v", frame, err)
		}
		frame++
		if req.Header.CallId == nil || ids[req.Header.GetCallId()] {
			return viol("call-id", "frame %d: call id %v missing or reused", frame, req.Header.CallId)
		}
		ids[req.Header.GetCallId()] = true
		if !req.Header.GetRequestParam() {
			return viol("frame-malformed", "frame %d: request_param not set", frame)
		}
		cb := req.CellBlock
		if len(cb) > 0 && c.Snappy {
			plain, _, err := wire.ReadBlocks(cb)
			if err != nil {
				return viol("cellblock-compression", "frame %d: %v", frame, err)
			}
			cb = plain
		}
		cells, err := wire.DecodeAllCells(cb)
		if err != nil {
			return viol("cellblock-malformed", "frame %d: %v", frame, err)
		}
		if len(cells) > 0 {
			withCells = true
		}
		prio := req.Header.GetPriority()
		fail := func(op c05Op, err error) Outcome {
			return viol("wire-content@"+op.Kind, "frame %d, %s of row %q: %v", frame, op.Kind, op.Row, err)
		}
		switch req.Header.GetMethodName() {
		case "Get":
			m := &pb.GetRequest{}
			if err := proto.Unmarshal(req.Param, m); err != nil {
				return viol("frame-malformed", "GetRequest: %v", err)
			}
			op, ok := byRow[string(m.GetGet().GetRow())]
			if !ok || op.Kind != "get" {
				return viol("unknown-call-on-wire", "Get of row %q was never requested", m.GetGet().GetRow())
			}
			seen[string(op.Row)]++
			if prio != op.Priority {
				return fail(op, fmt.Errorf("header priority %d, requested %d", prio, op.Priority))
			}
			if err := checkRegion(m.GetRegion(), op); err != nil {
				return fail(op, err)
			}
			if err := checkGet(op, m.GetGet()); err != nil {
				return fail(op, err)
			}
			if len(cells) != 0 {
				return fail(op, fmt.Errorf("a Get travels with %d cells", len(cells)))
			}
		case "Mutate":
			m := &pb.MutateRequest{}
			if err := proto.Unmarshal(req.Param, m); err != nil {
				return viol("frame-malformed", "MutateRequest: %v", err)
			}
			op, ok := byRow[string(m.GetMutation().GetRow())]
			if !ok {
				return viol("unknown-call-on-wire", "Mutate of row %q was never requested", m.GetMutation().GetRow())
			}
			seen[string(op.Row)]++
			if err := checkRegion(m.GetRegion(), op); err != nil {
				return fail(op, err)
			}
			if op.Kind == "cas" {
				cond := m.GetCondition()
				wantCmp, _ := filter.NewBinaryComparator(filter.NewByteArrayComparable(op.CasValue)).ConstructPBComparator()
				if cond == nil || !bytes.Equal(cond.GetRow(), op.Row) || string(cond.GetFamily()) != op.CasFamily || string(cond.GetQualifier()) != op.CasQual ||
					cond.GetCompareType() != pb.CompareType_EQUAL || !proto.Equal(cond.GetComparator(), wantCmp) {
					return fail(op, fmt.Errorf("condition %v, requested row=%q %s:%s == %q", cond, op.Row, op.CasFamily, op.CasQual, op.CasValue))
				}
				if len(cells) != 0 {
					return fail(op, fmt.Errorf("check-and-put travels with a cellblock"))
				}
				if err := checkMutation(op, m.GetMutation(), nil, false); err != nil {
					return fail(op, err)
				}
			} else {
				if m.Condition != nil {
					return fail(op, fmt.Errorf("condition on a plain mutation"))
				}
				if err := checkMutation(op, m.GetMutation(), cells, true); err != nil {
					return fail(op, err)
				}
			}
		case "Scan":
			m := &pb.ScanRequest{}
			if err := proto.Unmarshal(req.Param, m); err != nil {
				return viol("frame-malformed", "ScanRequest: %v", err)
			}
			// scans are matched by position among scans (continuations carry no row)
			var op c05Op
			found := false
			for _, s := range sent {
				if (s.Kind == "scan" || s.Kind == "scannext" || s.Kind == "scanclose" || s.Kind == "scanrenew") && seen[string(s.Row)] == 0 {
					op, found = s, true
					break
				}
			}
			if !found {
				return viol("unknown-call-on-wire", "a Scan request that was never requested")
			}
			seen[string(op.Row)]++
			if prio != op.Priority {
				return fail(op, fmt.Errorf("header priority %d, requested %d", prio, op.Priority))
			}
			if err := checkRegion(m.GetRegion(), op); err != nil {
				return fail(op, err)
			}
			if err := checkScan(op, m); err != nil {
				return fail(op, err)
			}
		case "Multi":
			m := &pb.MultiRequest{}
			if err := proto.Unmarshal(req.Param, m); err != nil {
				return viol("frame-malformed", "MultiRequest: %v", err)
			}
			if len(m.GetRegionAction()) > 1 {
				multiRegions = true
			}
			off := 0
			idx := map[uint32]bool{}
			regionsSeen := map[string]bool{}
			for _, ra := range m.GetRegionAction() {
				if regionsSeen[string(ra.GetRegion().GetValue())] {
					return viol("multi-region-twice", "region %q appears in two region actions of one multi-request", ra.GetRegion().GetValue())
				}
				regionsSeen[string(ra.GetRegion().GetValue())] = true
				last := -1
				for _, a := range ra.GetAction() {
					if a.Index == nil || a.GetIndex() == 0 || idx[a.GetIndex()] {
						return viol("multi-index", "action index %v missing, zero or repeated", a.Index)
					}
					idx[a.GetIndex()] = true
					var row []byte
					if a.Get != nil {
						row = a.Get.GetRow()
					} else {
						row = a.GetMutation().GetRow()
					}
					op, ok := byRow[string(row)]
					if !ok {
						return viol("unknown-call-on-wire", "multi action for row %q was never requested", row)
					}
					seen[string(op.Row)]++
					if !bytes.Equal(ra.GetRegion().GetValue(), c05Regions[op.Region].Name()) || ra.GetRegion().GetType() != pb.RegionSpecifier_REGION_NAME {
						return fail(op, fmt.Errorf("grouped under region %q, the call was given %q", ra.GetRegion().GetValue(), c05Regions[op.Region].Name()))
					}
					// actions of one region keep the order in which they were queued
					var pos int
					fmt.Sscanf(string(op.Row[len(op.Row)-3:]), "%d", &pos)
					if pos < last {
						return fail(op, fmt.Errorf("queued as #%d but presented after #%d within its region", pos, last))
					}
					last = pos
					if a.Get != nil {
						if op.Kind != "get" {
							return fail(op, fmt.Errorf("sent as a get"))
						}
						if err := checkGet(op, a.Get); err != nil {
							return fail(op, err)
						}
						continue
					}
					n := int(a.GetMutation().GetAssociatedCellCount())
					if off+n > len(cells) {
						return fail(op, fmt.Errorf("associated_cell_count=%d exceeds the %d cells left in the cellblock", n, len(cells)-off))
					}
					if err := checkMutation(op, a.GetMutation(), cells[off:off+n], true); err != nil {
						return fail(op, err)
					}
					off += n
				}
			}
			if off != len(cells) {
				return viol("multi-cell-count", "multi-request cellblock holds %d cells, the actions account for %d", len(cells), off)
			}
		default:
			return viol("frame-malformed", "unknown method %q", req.Header.GetMethodName())
		}
	}
	for _, op := range sent {
		if seen[string(op.Row)] != 1 {
			return viol("calls-missing-or-duplicated", "%s of row %q is on the wire %d times", op.Kind, op.Row, seen[string(op.Row)])
		}
	}
	out.NonTrivial = withCells || multiRegions
	if withCells {
		out.Labels = append(out.Labels, "frame_with_cellblock")
	}
	if multiRegions {
		out.Labels = append(out.Labels, "multi_spanning_regions")
	}
	if c.Snappy {
		out.Labels = append(out.Labels, "snappy")
	}
	return out
}

func c05GenOp(t *rapid.T) c05Op {
	var o c05Op
	o.Kind = rapid.SampledFrom([]string{"get", "get", "put", "put", "del", "app", "inc", "cas", "scan", "scannext", "scanclose", "scanrenew"}).Draw(t, "kind")
	o.Row = evid.B(rapid.SliceOfN(rapid.Byte(), 0, 8).Draw(t, "row"))
	o.Region = rapid.IntRange(0, 3).Draw(t, "region")
	if rapid.IntRange(0, 4).Draw(t, "retried") == 0 {
		o.Retried, o.FirstRegion = true, rapid.IntRange(0, 3).Draw(t, "firstregion")
	}
	o.SkipBatch = rapid.Bool().Draw(t, "skipbatch")
	opt := func(label string) bool { return rapid.IntRange(0, 3).Draw(t, label) == 0 }
	switch o.Kind {
	case "get", "scan":
		if opt("families") {
			nf := rapid.IntRange(0, 3).Draw(t, "nf")
			o.Families = []c05Fam{}
			for i := 0; i < nf; i++ {
				f := c05Fam{Name: fmt.Sprintf("f%d", i)}
				if rapid.Bool().Draw(t, "quals") {
					f.Quals = rapid.SliceOfN(rapid.StringMatching(`[a-z]{0,3}`), 0, 3).Draw(t, "q")
				}
				o.Families = append(o.Families, f)
			}
		}
		if opt("tr") {
			o.TRFrom = rapid.Uint64Range(0, 1000).Draw(t, "from")
			o.TRTo = rapid.SampledFrom([]uint64{1001, 1 << 40, math.MaxUint64}).Draw(t, "to")
		}
		if opt("mv") {
			o.MaxVers = rapid.SampledFrom([]uint32{1, 2, 100, math.MaxInt32}).Draw(t, "maxv")
		}
		if opt("sl") {
			o.StoreLimit = rapid.SampledFrom([]uint32{1, 50, math.MaxInt32}).Draw(t, "sl")
		}
		if opt("so") {
			o.StoreOff = rapid.SampledFrom([]uint32{1, 7}).Draw(t, "so")
		}
		o.NoCache = opt("nocache")
		o.Timeline = opt("timeline")
		if opt("prio") {
			o.Priority = rapid.SampledFrom([]uint32{1, 5, 200}).Draw(t, "prio")
		}
		o.Filter = rapid.SampledFrom([]string{"", "", "prefix", "keyonly"}).Draw(t, "filter")
		if o.Kind == "get" {
			o.ExistsOnly = opt("exists")
		} else {
			o.Stop = evid.B(rapid.SliceOfN(rapid.Byte(), 0, 6).Draw(t, "stop"))
			o.Reversed = opt("reversed")
			if opt("nr") {
				o.NumRows = rapid.SampledFrom([]uint32{1, 10, 1000}).Draw(t, "numrows")
			}
			if opt("mrs") {
				o.MaxResSize = rapid.SampledFrom([]uint64{1, 4096, 1 << 32}).Draw(t, "mrs")
			}
			if opt("attr") {
				o.Attr = evid.B(rapid.SliceOfN(rapid.Byte(), 0, 5).Draw(t, "attrv"))
			}
			o.Metrics = opt("metrics")
		}
	case "scannext", "scanclose", "scanrenew":
		o.ScannerID = rapid.Uint64Range(0, math.MaxUint64-1).Draw(t, "scannerid")
		if opt("nr") {
			o.NumRows = rapid.SampledFrom([]uint32{1, 10}).Draw(t, "numrows")
		}
		if opt("prio") {
			o.Priority = rapid.SampledFrom([]uint32{1, 5}).Draw(t, "prio")
		}
	default:
		c10 := c10Gen(t)
		c10.BigValue = 0
		if opt("big") {
			c10.BigValue = rapid.SampledFrom([]int{70000, 218421, 300000}).Draw(t, "bigv")
		}
		o.Values, o.NilValues, o.HasTS, o.TS = c10.Fams, c10.NilValues, c10.HasTS, c10.TS
		if c10.BigValue > 0 && len(o.Values) > 0 && len(o.Values[0].Quals) > 0 {
			o.Values[0].Quals[0].V = evid.B(bytes.Repeat([]byte{'V'}, c10.BigValue))
			o.Values[0].Quals[0].NilV = false
		}
		if o.Kind == "del" {
			o.OneVersion = c10.OneVersion
		}
		if opt("dur") {
			o.Durability = rapid.IntRange(0, 4).Draw(t, "durability")
		}
		if opt("ttl") {
			o.TTLms = rapid.Int64Range(1, 1<<40).Draw(t, "ttl")
			switch rapid.IntRange(0, 5).Draw(t, "ttlshape") {
			case 0:
				o.TTLms, o.TTLZero = 0, true
			case 1:
				o.TTLms, o.TTLZero, o.TTLSubNS = 0, true, rapid.Int64Range(1, 999999).Draw(t, "ttlsub")
			case 2:
				o.TTLSubNS = rapid.Int64Range(1, 999999).Draw(t, "ttlsub")
			}
		}
		if o.Kind == "cas" {
			o.CasFamily = rapid.StringMatching(`[a-z]{1,3}`).Draw(t, "casf")
			o.CasQual = rapid.StringMatching(`[a-z]{0,3}`).Draw(t, "casq")
			o.CasValue = evid.B(rapid.SliceOfN(rapid.Byte(), 0, 6).Draw(t, "casv"))
		}
	}
	return o
}

func TestC05_WireContent(t *testing.T) {
	theT = t
	rec := evid.New("C05", "TestC05_WireContent",
		"rapid, virtual time: 1..12 call specifications (get, put, delete in all five kinds, append, increment, "+
			"check-and-put, scan open / continue / close / renew) over four regions incl. a namespaced table and an "+
			"md5-suffixed region name, with arbitrary byte rows, nil/empty/many family-qualifier-value maps, values up "+
			"to 300 KB (above the compression chunk), and option combinations (families, time range incl. the open "+
			"end, max versions, store limit/offset, cache blocks, consistency, priority, filter, durability, TTL (including zero and sub-millisecond durations), "+
			"timestamps incl. the latest sentinel, delete-one-version, scan bounds/direction/number of rows/max result "+
			"size/attributes/metrics); batched or SkipBatch, queue size and flush interval drawn (so that calls are "+
			"grouped into multi-requests across regions), snappy on/off. One sender on an in-memory connection; every "+
			"byte written is parsed by the independent codec and each decoded operation is compared with an independently "+
			"written expectation (protobuf fields, KeyValue types, cell multisets, cellblock accounting, per-region "+
			"order, region specifiers, header fields). Non-trivial = a frame with a cellblock or a multi-request "+
			"spanning >= 2 regions; distinct by case hash")
	Drive(t, rec, true, func(t *rapid.T) c05aCase {
		c := c05aCase{Queue: rapid.SampledFrom([]int{1, 2, 5, 100}).Draw(t, "queue"), FlushMS: rapid.SampledFrom([]int{0, 1, 20}).Draw(t, "flush"),
			Snappy: rapid.Bool().Draw(t, "snappy")}
		n := rapid.IntRange(1, 12).Draw(t, "nops")
		for i := 0; i < n; i++ {
			c.Ops = append(c.Ops, c05GenOp(t))
		}
		return c
	}, c05aRun)
}
