package props

import (
	"context"
	"errors"
	"testing"
	"time"

	"github.com/tsuna/gohbase"
	"pgregory.net/rapid"

	"verifharness/evid"
)

// backoffOracle is the schedule as the property states it.
func backoffOracle(b time.Duration) time.Duration {
	switch {
	case b == 0:
		return 16 * time.Millisecond
	case b < 5*time.Second:
		return 2 * b
	case b < 30*time.Second:
		return b + 5*time.Second
	}
	return b
}

type c17aCase struct {
	Backoff  int64 `json:"backoff_ns"`
	CancelAt int64 `json:"cancel_at_ns"` // <0: never
	Deadline bool  `json:"deadline"`     // end the context by deadline instead of cancel
	Chain    int   `json:"chain"`        // >0: follow the chain from 0 for that many steps instead
}

var theT *testing.T

func c17aRun(c c17aCase) (out Outcome) {
	var o Outcome
	res := inBubble(theT, func() {
		if c.Chain > 0 {
			b := time.Duration(0)
			total := time.Duration(0)
			start := time.Now()
			for i := 0; i < c.Chain; i++ {
				t0 := time.Now()
				next, err := gohbase.VerifSleepAndIncreaseBackoff(context.Background(), b)
				if err != nil {
					o = viol("backoff-error", "step %d: unexpected error %v", i, err)
					return
				}
				if el := time.Since(t0); el != b {
					o = viol("backoff-wait-wrong", "step %d: waited %v for backoff %v", i, el, b)
					return
				}
				if want := backoffOracle(b); next != want {
					o = viol("backoff-next-wrong", "step %d: backoff %v -> %v, schedule says %v", i, b, next, want)
					return
				}
				total += b
				b = next
			}
			if time.Since(start) != total {
				o = viol("backoff-wait-wrong", "chain consumed %v, expected %v", time.Since(start), total)
			}
			o.NonTrivial = true
			o.Labels = []string{"chain"}
			return
		}
		b := time.Duration(c.Backoff)
		ctx := context.Background()
		var cancel context.CancelFunc = func() {}
		wantErr := error(nil)
		wantWait := b
		if c.CancelAt >= 0 {
			if c.Deadline {
				ctx, cancel = context.WithTimeout(ctx, time.Duration(c.CancelAt))
			} else {
				ctx, cancel = context.WithCancel(ctx)
				tm := time.AfterFunc(time.Duration(c.CancelAt), cancel)
				defer tm.Stop()
			}
			if time.Duration(c.CancelAt) < b {
				wantWait = time.Duration(c.CancelAt)
				wantErr = context.Canceled
				if c.Deadline {
					wantErr = context.DeadlineExceeded
				}
				o.Labels = append(o.Labels, "cancelled_during_wait")
			}
		}
		defer cancel()
		t0 := time.Now()
		next, err := gohbase.VerifSleepAndIncreaseBackoff(ctx, b)
		el := time.Since(t0)
		if b == 0 {
			o.Labels = append(o.Labels, "zero")
			if err != nil || next != 16*time.Millisecond || el != 0 {
				o = viol("backoff-zero-wrong", "backoff 0 -> (%v, %v) after %v; expected 16ms at once", next, err, el)
			}
			return
		}
		o.NonTrivial = true
		if el != wantWait {
			o = viol("backoff-wait-wrong", "backoff %v cancelAt %v: returned after %v, expected %v", b, c.CancelAt, el, wantWait)
			return
		}
		if wantErr != nil {
			if !errors.Is(err, wantErr) {
				o = viol("backoff-cancel-error", "backoff %v cancelled at %v: err=%v, expected %v", b, c.CancelAt, err, wantErr)
			}
			return
		}
		if err != nil {
			o = viol("backoff-error", "backoff %v: unexpected error %v", b, err)
			return
		}
		if want := backoffOracle(b); next != want {
			o = viol("backoff-next-wrong", "backoff %v -> %v, schedule says %v", b, next, want)
		}
		switch {
		case b < 5*time.Second:
			o.Labels = append(o.Labels, "doubling")
		case b < 30*time.Second:
			o.Labels = append(o.Labels, "plus5s")
		default:
			o.Labels = append(o.Labels, "constant")
		}
	})
	if res.Deadlock != "" {
		return viol("backoff-hang", "bubble deadlocked: %s", res.Deadlock)
	}
	if res.Panic != "" {
		return viol("panic@backoff", "%s\n%s", res.Panic, res.Stack)
	}
	return o
}

func c17aGen(t *rapid.T) c17aCase {
	var c c17aCase
	if rapid.IntRange(0, 19).Draw(t, "chainp") == 0 {
		c.Chain = rapid.IntRange(1, 30).Draw(t, "chain")
		c.CancelAt = -1
		return c
	}
	ms := int64(time.Millisecond)
	s := int64(time.Second)
	rungs := []int64{0, 16 * ms, 32 * ms, 64 * ms, 128 * ms, 256 * ms, 512 * ms, 1024 * ms, 2048 * ms, 4096 * ms,
		8192 * ms, 13192 * ms, 18192 * ms, 23192 * ms, 28192 * ms, 33192 * ms,
		5*s - 1, 5 * s, 5*s + 1, 30*s - 1, 30 * s, 30*s + 1, 1, 2500 * ms, 60 * s}
	if rapid.Bool().Draw(t, "rung") {
		c.Backoff = rapid.SampledFrom(rungs).Draw(t, "b")
	} else {
		c.Backoff = rapid.Int64Range(0, 60*s).Draw(t, "b")
	}
	c.CancelAt = -1
	if rapid.IntRange(0, 2).Draw(t, "cancel") == 0 {
		c.Deadline = rapid.Bool().Draw(t, "deadline")
		if c.Backoff > 1 && rapid.IntRange(0, 3).Draw(t, "inside") > 0 {
			c.CancelAt = rapid.Int64Range(1, c.Backoff-1).Draw(t, "at")
		} else {
			c.CancelAt = c.Backoff + rapid.Int64Range(1, s).Draw(t, "after")
		}
	}
	return c
}

func TestC17_Formula(t *testing.T) {
	theT = t
	rec := evid.New("C17", "TestC17_Formula",
		"rapid, virtual time (synctest): the real back-off function is called with every rung of the schedule, "+
			"the thresholds 5s/30s +-1ns, 0, and drawn durations up to 60s, with cancellation or deadline at a "+
			"drawn instant inside or after the wait, and chains of up to 30 steps from 0; oracle = schedule "+
			"formula for the returned value, exact virtual time consumed, context error on cancellation. "+
			"Non-trivial = backoff > 0; distinct by case hash")
	Drive(t, rec, false, c17aGen, c17aRun)
}
