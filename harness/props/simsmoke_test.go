package props

import (
	"bytes"
	"context"
	"fmt"
	"io"
	"log/slog"
	"testing"
	"testing/synctest"
	"time"

	"github.com/tsuna/gohbase"
	"github.com/tsuna/gohbase/hrpc"

	"verifharness/sim"
)

var quietLogger = slog.New(slog.NewTextHandler(io.Discard, &slog.HandlerOptions{Level: slog.LevelError + 4}))

// newSimClient creates the real client wired to the simulated cluster.
// envLogKind selects the logger the clients of the current case get: "" = everything discarded unevaluated (the
// default), "json" / "text" = a slog JSON / text handler at Debug level writing to nowhere - every attribute of every
// message (the client itself among them) is marshalled for real, in whatever goroutine logs.
var envLogKind string

func envLogger() *slog.Logger {
	switch envLogKind {
	case "json":
		return slog.New(slog.NewJSONHandler(io.Discard, &slog.HandlerOptions{Level: slog.LevelDebug}))
	case "text":
		return slog.New(slog.NewTextHandler(io.Discard, &slog.HandlerOptions{Level: slog.LevelDebug}))
	}
	return quietLogger
}

// withLog sets the logger kind for a case; the returned func restores the default.
func withLog(kind string) func() {
	envLogKind = kind
	return func() { envLogKind = "" }
}

func newSimClient(c *sim.Cluster, opts ...gohbase.Option) gohbase.Client {
	all := append([]gohbase.Option{gohbase.RegionDialer(c.Dial), gohbase.Logger(envLogger())}, opts...)
	return gohbase.VerifNewClient(c.ZK(), all...)
}

func markerFam(marker string) map[string][]string {
	return map[string][]string{"f": {marker}}
}

func markerVals(marker string) map[string]map[string][]byte {
	return map[string]map[string][]byte{"f": {marker: []byte("v-" + marker)}}
}

// checkEcho verifies that a Get result is the echo model's answer for (row, marker).
func checkEcho(res *hrpc.Result, row []byte, marker string) error {
	want := sim.EchoCells(row, marker)
	if res == nil {
		return fmt.Errorf("nil result")
	}
	if len(res.Cells) != len(want) {
		return fmt.Errorf("got %d cells, the server produced %d for row %q marker %s", len(res.Cells), len(want), row, marker)
	}
	for i, c := range res.Cells {
		w := want[i]
		if !bytes.Equal(c.Row, w.Row) || !bytes.Equal(c.Qualifier, w.Qualifier) || !bytes.Equal(c.Value, w.Value) {
			return fmt.Errorf("cell %d: got row=%q q=%q v=%q, the server produced row=%q q=%q v=%q", i, c.Row, c.Qualifier, c.Value, w.Row, w.Qualifier, w.Value)
		}
	}
	return nil
}

func TestSimSmoke(t *testing.T) {
	for _, cellblocks := range []bool{false, true} {
		res := inBubble(t, func() {
			c := sim.New("rs1:16020", "rs2:16020", "rs3:16020")
			c.UseCellBlocks = cellblocks
			c.AddTable("t", [][]byte{[]byte("g"), []byte("p")}, []string{"rs1:16020", "rs2:16020", "rs3:16020"}, 100, true)
			cl := newSimClient(c, gohbase.CompressionCodec("snappy"))
			t0 := time.Now()
			for i, k := range []string{"a", "g", "h", "p", "zz", "", "a"} {
				mk := fmt.Sprintf("mk%d", i)
				g, _ := hrpc.NewGet(context.Background(), []byte("t"), []byte(k), hrpc.Families(markerFam(mk)))
				r, err := cl.Get(g)
				if err != nil {
					t.Errorf("get %q: %v", k, err)
					continue
				}
				if err := checkEcho(r, []byte(k), mk); err != nil {
					t.Errorf("get %q: %v", k, err)
				}
				p, _ := hrpc.NewPut(context.Background(), []byte("t"), []byte(k), markerVals(mk+"p"))
				if _, err := cl.Put(p); err != nil {
					t.Errorf("put %q: %v", k, err)
				}
			}
			cl.Close()
			synctest.Wait()
			if open := c.OpenClientConns(); len(open) != 0 {
				t.Errorf("connections left open: %v", open)
			}
			c.Stop()
			_, dials, problems := c.Snapshot()
			if len(problems) > 0 {
				t.Errorf("problems: %v", problems)
			}
			t.Logf("cellblocks=%v: %d dials, %d meta scans, %d zk calls, virtual %v", cellblocks, len(dials), c.MetaScans, c.ZKCalls, time.Since(t0))
		})
		if res.Deadlock != "" || res.Panic != "" {
			t.Fatalf("bubble: %+v", res)
		}
	}
}
