package props

import (
	"bytes"
	"context"
	"fmt"
	"sync"
	"testing"
	"testing/synctest"
	"time"

	"github.com/tsuna/gohbase/hrpc"
	"github.com/tsuna/gohbase/pb"
	"google.golang.org/protobuf/proto"
	"pgregory.net/rapid"

	"verifharness/evid"
	"verifharness/memconn"
	"verifharness/wire"
)

// c15cOp is one call on a region client with snappy cellblock compression.
type c15cOp struct {
	Kind     string `json:"kind"` // get | put
	Cells    int    `json:"cells"`
	ValueLen int    `json:"value_len"`
	Seed     uint32 `json:"seed"`
	// server side of a get: how the answer's block stream is cut
	Blocks int `json:"blocks,omitempty"`
	Chunk  int `json:"chunk,omitempty"`
}

type c15cCase struct {
	Ops []c15cOp `json:"ops"`
	// Concurrent: the calls are issued by as many goroutines at once (compression happens in the senders,
	// before they take their turn on the connection), the connection yields after each write
	Concurrent bool `json:"concurrent,omitempty"`
	Yields     int  `json:"yields,omitempty"`
}

func c15cValue(op c15cOp, i int) []byte {
	p := c15Payload(c15Case{Size: op.ValueLen, Content: []string{"text", "random", "mixed", "zeros"}[int(op.Seed%4)], Seed: op.Seed + uint32(i)})
	return p
}

func c15cCells(opIdx int, op c15cOp) []wire.Cell {
	var out []wire.Cell
	for i := 0; i < op.Cells; i++ {
		out = append(out, wire.Cell{Row: []byte(fmt.Sprintf("row-%d", opIdx)), Family: []byte("f"), Qualifier: []byte(fmt.Sprintf("q%d", i)),
			Timestamp: uint64(1000 + i), Type: wire.TypePut, Value: c15cValue(op, i)})
	}
	return out
}

func c15cSame(got []*hrpc.Cell, want []wire.Cell) error {
	if len(got) != len(want) {
		return fmt.Errorf("%d cells, the server sent %d", len(got), len(want))
	}
	for i, w := range want {
		g := got[i]
		if !bytes.Equal(g.Row, w.Row) || !bytes.Equal(g.Family, w.Family) || !bytes.Equal(g.Qualifier, w.Qualifier) ||
			!bytes.Equal(g.Value, w.Value) || (*pb.Cell)(g).GetTimestamp() != w.Timestamp {
			return fmt.Errorf("cell %d is %q/%q:%q ts=%d with %d value bytes, the server sent %q/%q:%q ts=%d with %d value bytes (values equal: %v)",
				i, g.Row, g.Family, g.Qualifier, (*pb.Cell)(g).GetTimestamp(), len(g.Value), w.Row, w.Family, w.Qualifier, w.Timestamp, len(w.Value), bytes.Equal(g.Value, w.Value))
		}
	}
	return nil
}

func c15cRun(c c15cCase) Outcome {
	var o Outcome
	res := inBubble(theT, func() { o = c15cInBubble(c) })
	if o, stuck := stuckVerdict(res); stuck {
		return o
	}
	if res.Panic != "" {
		return viol("panic@"+topFrame(res.Stack), "%s\n%s", res.Panic, res.Stack)
	}
	if res.Deadlock != "" && o.Sig == "" {
		return viol("deadlock", "bubble deadlocked: %s\n%s", res.Deadlock, bubbleStacks(res.Stack))
	}
	return o
}

func c15cInBubble(c c15cCase) (out Outcome) {
	env, err := newRCEnv(1, 0, time.Hour, true, memconn.Options{YieldAfterWrite: c.Yields})
	if err != nil {
		return viol("harness", "dial: %v", err)
	}
	defer func() {
		env.rc.Close()
		synctest.Wait()
	}()
	srvErr := make(chan string, 1)
	go func() {
		conn := env.pair.Server
		if _, err := wire.ReadHello(conn); err != nil {
			return
		}
		for {
			req, err := wire.ReadRequest(conn)
			if err != nil {
				return
			}
			d, derr := decodeRequest(req, true, 0)
			if derr != nil {
				select {
				case srvErr <- fmt.Sprintf("the server cannot decode a request: %v", derr):
				default:
				}
				return
			}
			var idx int
			fmt.Sscanf(string(d.Rows[0]), "row-%d", &idx)
			if idx < 0 || idx >= len(c.Ops) {
				return
			}
			op := c.Ops[idx]
			switch d.Method {
			case "Get":
				var plain []byte
				for _, ce := range c15cCells(idx, op) {
					plain = wire.AppendCell(plain, ce)
				}
				ends := []int{len(plain)}
				if op.Blocks > 1 && len(plain) > op.Blocks {
					ends = nil
					for b := 1; b <= op.Blocks; b++ {
						ends = append(ends, len(plain)*b/op.Blocks)
					}
				}
				var cb []byte
				if len(plain) > 0 {
					cb = wire.WriteBlocks(plain, ends, func(rem int) int {
						if op.Chunk > 0 && op.Chunk < rem {
							return op.Chunk
						}
						if rem > wire.SnappyChunk {
							return wire.SnappyChunk
						}
						return rem
					})
				}
				conn.Write(wire.BuildResponse(d.CallID, &pb.GetResponse{Result: &pb.Result{AssociatedCellCount: proto.Int32(int32(op.Cells))}}, cb, nil))
			case "Mutate":
				// what the client compressed must be this put's cells
				want := c15cCells(idx, op)
				bad := len(d.Cells) != len(want)
				for i := 0; !bad && i < len(want); i++ {
					bad = !bytes.Equal(d.Cells[i].Row, want[i].Row) || !bytes.Equal(d.Cells[i].Qualifier, want[i].Qualifier) || !bytes.Equal(d.Cells[i].Value, want[i].Value)
				}
				if bad {
					select {
					case srvErr <- fmt.Sprintf("put %d: the cellblock the server decompressed holds %d cells that are not the %d cells of the put", idx, len(d.Cells), len(want)):
					default:
					}
				}
				conn.Write(wire.BuildResponse(d.CallID, &pb.MutateResponse{Processed: proto.Bool(true)}, nil, nil))
			}
		}
	}()
	type kept struct {
		idx int
		res *hrpc.Result
	}
	var keep []kept
	var keepMu sync.Mutex
	gets, puts := 0, 0
	calls := make([]hrpc.Call, len(c.Ops))
	for i, op := range c.Ops {
		row := []byte(fmt.Sprintf("row-%d", i))
		if op.Kind == "get" {
			calls[i], _ = hrpc.NewGet(context.Background(), []byte("t"), row, hrpc.SkipBatch())
			gets++
		} else {
			vals := map[string]map[string][]byte{"f": {}}
			for k, ce := range c15cCells(i, op) {
				vals["f"][fmt.Sprintf("q%d", k)] = ce.Value
			}
			calls[i], _ = hrpc.NewPut(context.Background(), []byte("t"), row, vals, hrpc.SkipBatch(), hrpc.Timestamp(time.UnixMilli(1000)))
			puts++
		}
		calls[i].SetRegion(env.reg)
	}
	// collect takes the result of call i (already answered) and checks it
	collect := func(i int) *Outcome {
		op, call := c.Ops[i], calls[i]
		var r hrpc.RPCResult
		select {
		case r = <-call.ResultChan():
		default:
			select {
			case m := <-srvErr:
				return violp("client-stream-wrong-data", "%s", m)
			default:
			}
			return violp("no-answer", "call %d (%s) got no result", i, op.Kind)
		}
		if r.Error != nil {
			select {
			case m := <-srvErr:
				return violp("client-stream-wrong-data", "%s", m)
			default:
			}
			return violp("sound-stream-rejected", "call %d (%s, %d cells of %d bytes, %d blocks, chunk %d) failed: %v", i, op.Kind, op.Cells, op.ValueLen, op.Blocks, op.Chunk, r.Error)
		}
		if op.Kind == "get" {
			res := hrpc.ToLocalResult(r.Msg.(*pb.GetResponse).Result)
			if err := c15cSame(res.Cells, c15cCells(i, op)); err != nil {
				return violp("roundtrip-wrong-data", "get %d: %v", i, err)
			}
			keepMu.Lock()
			keep = append(keep, kept{i, res})
			keepMu.Unlock()
		}
		return nil
	}
	if c.Concurrent {
		var wg sync.WaitGroup
		start := make(chan struct{})
		for i := range calls {
			wg.Add(1)
			go func(i int) {
				defer wg.Done()
				<-start
				env.rc.QueueRPC(calls[i])
			}(i)
		}
		close(start)
		wg.Wait()
		synctest.Wait()
		for i := range calls {
			if o := collect(i); o != nil {
				return *o
			}
		}
	} else {
		for i := range calls {
			env.rc.QueueRPC(calls[i])
			synctest.Wait()
			if o := collect(i); o != nil {
				return *o
			}
		}
	}
	select {
	case m := <-srvErr:
		return viol("client-stream-wrong-data", "%s", m)
	default:
	}
	// everything handed out earlier is still what the server sent
	for _, k := range keep {
		if err := c15cSame(k.res.Cells, c15cCells(k.idx, c.Ops[k.idx])); err != nil {
			return viol("result-changed-later", "the result of get %d was correct when it was returned and has changed after %d further calls on the connection: %v", k.idx, len(c.Ops)-1-k.idx, err)
		}
	}
	out.NonTrivial = gets >= 2 || gets >= 1 && puts >= 1
	if puts > 0 && gets > 0 {
		out.Labels = append(out.Labels, "gets_and_puts_interleaved")
	}
	if c.Concurrent {
		out.Labels = append(out.Labels, "concurrent_senders")
	}
	return out
}

// put cells are written in map order by the client; sort-insensitive compare is done by
// giving every put exactly one cell (see the generator).
func c15cGen(t *rapid.T) c15cCase {
	var c c15cCase
	n := rapid.IntRange(2, 12).Draw(t, "nops")
	for i := 0; i < n; i++ {
		op := c15cOp{Kind: rapid.SampledFrom([]string{"get", "get", "put"}).Draw(t, "kind"), Seed: rapid.Uint32().Draw(t, "seed")}
		op.ValueLen = rapid.SampledFrom([]int{0, 1, 10, 100, 100, 1000, 5000, 70000, 250000}).Draw(t, "vlen")
		if op.Kind == "get" {
			op.Cells = rapid.IntRange(0, 4).Draw(t, "cells")
			op.Blocks = rapid.IntRange(1, 3).Draw(t, "blocks")
			op.Chunk = rapid.SampledFrom([]int{0, 0, 100, 4096, 65536}).Draw(t, "chunk")
		} else {
			op.Cells = 1
		}
		c.Ops = append(c.Ops, op)
	}
	if rapid.Bool().Draw(t, "concurrent") {
		c.Concurrent = true
		c.Yields = rapid.SampledFrom([]int{0, 1, 3}).Draw(t, "yields")
		// (more puts: it is the senders that compress)
		for i := range c.Ops {
			if c.Ops[i].Kind == "get" && rapid.Bool().Draw(t, "toput") {
				c.Ops[i].Kind, c.Ops[i].Cells, c.Ops[i].Blocks, c.Ops[i].Chunk = "put", 1, 0, 0
			}
		}
	}
	return c
}

func TestC15_ClientRoundTrip(t *testing.T) {
	theT = t
	rec := evid.New("C15", "TestC15_ClientRoundTrip",
		"rapid, virtual time: 2..12 calls (one after the other, or - half of the cases - issued by as many goroutines at once over a connection that yields after writes) on ONE real region client with the snappy codec over an in-memory connection; the "+
			"server side is the independent codec: gets are answered with 0..4 cells (values 0..250000 bytes, zero/text/random/"+
			"mixed) as a Hadoop block stream cut into 1..3 blocks and arbitrary chunks, puts are decompressed and compared with "+
			"the put's cells. Oracle: every get returns exactly the cells the server sent; every put's cellblock decompresses to "+
			"its own cells; and AT THE END every result handed out earlier still equals what the server sent (results must not "+
			"alias buffers that later compress/decompress calls reuse). Non-trivial = >= 2 gets, or a get and a put; distinct by case hash")
	Drive(t, rec, true, c15cGen, c15cRun)
}
