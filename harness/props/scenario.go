package props

import (
	"bytes"
	"context"
	"encoding/binary"
	"fmt"
	"google.golang.org/protobuf/proto"
	"runtime"
	"sort"
	"strings"
	"sync"
	"sync/atomic"
	"testing/synctest"
	"time"

	"github.com/tsuna/gohbase"
	"github.com/tsuna/gohbase/hrpc"
	"github.com/tsuna/gohbase/pb"
	"pgregory.net/rapid"

	"verifharness/evid"
	"verifharness/gen"
	"verifharness/sim"
)

// layoutSpec is a cluster layout: one table with split points, regions
// spread round-robin over NServers servers.
type layoutSpec struct {
	Table    string   `json:"table"`
	Bounds   []evid.B `json:"bounds"`
	NServers int      `json:"nservers"`
	MD5      bool     `json:"md5,omitempty"`
	// Siblings are further (prefix-related) tables present in the cluster.
	Siblings []string `json:"siblings,omitempty"`
	// AddrStyle: how regionserver locations are written in hbase:meta: 0 host name, 1 IPv4,
	// 2 bracketed IPv6, 3 un-bracketed IPv6 (what HBase 1.x writes), 4 mixed-case FQDN with a
	// trailing dot. The client has to use the string as it stands (the custom dialer resolves it).
	AddrStyle int `json:"addr_style,omitempty"`
}

func serverAddr(i int) string { return fmt.Sprintf("rs%d:16020", i+1) }

func styledAddr(style, i int) string {
	switch style {
	case 1:
		return fmt.Sprintf("10.0.0.%d:16020", i+1)
	case 2:
		return fmt.Sprintf("[2001:db8::%d]:16020", i+1)
	case 3:
		return fmt.Sprintf("2001:db8::%d:16020", i+1)
	case 4:
		return fmt.Sprintf("RS-%d.Example.COM.:16020", i+1)
	}
	return serverAddr(i)
}

func (l layoutSpec) addrs() []string {
	var out []string
	for i := 0; i < l.NServers; i++ {
		out = append(out, styledAddr(l.AddrStyle, i))
	}
	return out
}

func (l layoutSpec) bounds() [][]byte {
	var out [][]byte
	for _, b := range l.Bounds {
		out = append(out, []byte(b))
	}
	return out
}

// build creates the simulated cluster for the layout.
func (l layoutSpec) build() *sim.Cluster {
	c := sim.New(l.addrs()...)
	c.AddTable(l.Table, l.bounds(), l.addrs(), 1000, l.MD5)
	for i, s := range l.Siblings {
		if s != l.Table {
			c.AddTable(s, nil, l.addrs()[i%l.NServers:], uint64(2000+10*i), false)
		}
	}
	return c
}

func genLayout(t *rapid.T, maxRegions, maxServers int) layoutSpec {
	l := layoutSpec{Table: rapid.SampledFrom([]string{"t", "t", "t-", "ns:t", "tt"}).Draw(t, "table")}
	for _, b := range gen.Boundaries(t, maxRegions-1, 4) {
		l.Bounds = append(l.Bounds, b)
	}
	l.NServers = rapid.IntRange(1, maxServers).Draw(t, "nservers")
	l.MD5 = rapid.Bool().Draw(t, "md5")
	l.AddrStyle = rapid.SampledFrom([]int{0, 0, 0, 1, 2, 3, 4}).Draw(t, "addrstyle")
	if rapid.IntRange(0, 2).Draw(t, "siblings") == 0 {
		l.Siblings = []string{"t", "t-", "t.", "tt", "s"}
	}
	return l
}

// genKeyFor draws a key, biased towards the boundaries of the layout.
func genKeyFor(t *rapid.T, l layoutSpec) []byte {
	if len(l.Bounds) > 0 && rapid.IntRange(0, 2).Draw(t, "nearb") > 0 {
		return gen.Near(t, l.Bounds[rapid.IntRange(0, len(l.Bounds)-1).Draw(t, "b")])
	}
	return gen.Key(6).Draw(t, "key")
}

// opSpec is one marked call.
type opSpec struct {
	Kind   string `json:"kind"` // get | put | del | app | inc | cas
	Key    evid.B `json:"key"`
	Marker string `json:"marker"`
	// SkipBatch: the call asks not to be batched (it travels as its own request, not inside a multi)
	SkipBatch bool `json:"skip_batch,omitempty"`
}

func genOp(t *rapid.T, l layoutSpec, kinds []string, n *int) opSpec {
	*n++
	return opSpec{Kind: rapid.SampledFrom(kinds).Draw(t, "opkind"), Key: genKeyFor(t, l), Marker: fmt.Sprintf("mk%d", *n)}
}

// buildCall creates the hrpc call for an op through the public constructors.
// slowGet / slowMutate are calls for which building the response object takes a while: the region
// client's reader calls NewResponse for one call after the other while it hands out the results of
// a multi-response, so the results of one response reach their callers d apart (a loaded process,
// a large response). Nothing else in the client calls NewResponse.
type slowGet struct {
	*hrpc.Get
	d time.Duration
}

func (s *slowGet) NewResponse() proto.Message { time.Sleep(s.d); return s.Get.NewResponse() }

type slowMutate struct {
	*hrpc.Mutate
	d time.Duration
}

func (s *slowMutate) NewResponse() proto.Message { time.Sleep(s.d); return s.Mutate.NewResponse() }

// schedGet / schedMutate own two scheduling points of a call's result channel: the moment the region
// client is about to deliver a result to it (deliver) and the first moment its owner is about to collect
// from it (collect). Who is asking is told from the call stack (the region client lives in package
// .../gohbase/region). Virtual delays there model a reader or a collector goroutine that is descheduled
// for a while - nothing a correct client may depend on.
type schedPoints struct {
	collect, deliver time.Duration
	collected        atomic.Bool
}

func (p *schedPoints) at() {
	pcs := make([]uintptr, 12)
	n := runtime.Callers(3, pcs)
	frames := runtime.CallersFrames(pcs[:n])
	fromRegion := false
	for {
		f, more := frames.Next()
		if strings.Contains(f.Function, "tsuna/gohbase/region.") {
			fromRegion = true
		}
		if !more {
			break
		}
	}
	if fromRegion {
		if p.deliver > 0 {
			time.Sleep(p.deliver)
		}
		return
	}
	if p.collect > 0 && p.collected.CompareAndSwap(false, true) {
		time.Sleep(p.collect)
	}
}

type schedGet struct {
	*hrpc.Get
	p *schedPoints
}

func (s *schedGet) ResultChan() chan hrpc.RPCResult { s.p.at(); return s.Get.ResultChan() }

type schedMutate struct {
	*hrpc.Mutate
	p *schedPoints
}

func (s *schedMutate) ResultChan() chan hrpc.RPCResult { s.p.at(); return s.Mutate.ResultChan() }

func wrapSched(call hrpc.Call, collect, deliver time.Duration) hrpc.Call {
	p := &schedPoints{collect: collect, deliver: deliver}
	switch c := call.(type) {
	case *hrpc.Get:
		return &schedGet{c, p}
	case *hrpc.Mutate:
		return &schedMutate{c, p}
	}
	return call
}

func wrapSlow(call hrpc.Call, d time.Duration) hrpc.Call {
	switch c := call.(type) {
	case *hrpc.Get:
		return &slowGet{c, d}
	case *hrpc.Mutate:
		return &slowMutate{c, d}
	}
	return call
}

// sharedTable returns the table name as a slice with spare capacity that every call of the
// process shares (applications keep table names in reused buffers: buf[:n]); the bytes beyond its
// length belong to the caller, so nothing may ever be written there.
var tableSlices sync.Map

func sharedTable(table string) []byte {
	if v, ok := tableSlices.Load(table); ok {
		return v.([]byte)
	}
	b := make([]byte, len(table), len(table)+160)
	copy(b, table)
	v, _ := tableSlices.LoadOrStore(table, b)
	return v.([]byte)
}

func buildCall(ctx context.Context, table string, op opSpec, opts ...func(hrpc.Call) error) (hrpc.Call, error) {
	tb := sharedTable(table)
	if op.Key == nil {
		// a nil row is not a request (the protobuf row field is required); the empty row
		// is the smallest key
		op.Key = evid.B{}
	}
	if op.SkipBatch {
		opts = append(opts[:len(opts):len(opts)], hrpc.SkipBatch())
	}
	switch op.Kind {
	case "badget":
		// a Get without a row: the constructor accepts it, it cannot be serialised (the protobuf row
		// field is required). That is this call's failure - nobody else's.
		return hrpc.NewGet(ctx, tb, nil, append([]func(hrpc.Call) error{hrpc.Families(markerFam(op.Marker))}, opts...)...)
	case "get":
		return hrpc.NewGet(ctx, tb, op.Key, append([]func(hrpc.Call) error{hrpc.Families(markerFam(op.Marker))}, opts...)...)
	case "put", "cas":
		return hrpc.NewPut(ctx, tb, op.Key, markerVals(op.Marker), opts...)
	case "del":
		return hrpc.NewDel(ctx, tb, op.Key, markerVals(op.Marker), opts...)
	case "app":
		return hrpc.NewApp(ctx, tb, op.Key, markerVals(op.Marker), opts...)
	case "inc":
		return hrpc.NewIncSingle(ctx, tb, op.Key, "f", op.Marker, 1, opts...)
	}
	return nil, fmt.Errorf("unknown op kind %q", op.Kind)
}

// checkOpResult compares the response message of a successful call with
// what the simulated server produced for (row, marker).
func checkOpResult(op opSpec, msg any) error {
	switch op.Kind {
	case "get":
		r, ok := msg.(*pb.GetResponse)
		if !ok {
			return fmt.Errorf("response is %T, not GetResponse", msg)
		}
		lr := hrpc.ToLocalResult(r.Result)
		if e := checkEcho(lr, op.Key, op.Marker); e != nil {
			return e
		}
		retain(lr, op.Key, op.Marker)
		return nil
	case "app":
		r, ok := msg.(*pb.MutateResponse)
		if !ok {
			return fmt.Errorf("response is %T, not MutateResponse", msg)
		}
		lr := hrpc.ToLocalResult(r.Result)
		if e := checkEcho(lr, op.Key, op.Marker); e != nil {
			return e
		}
		retain(lr, op.Key, op.Marker)
		return nil
	case "inc":
		r, ok := msg.(*pb.MutateResponse)
		if !ok {
			return fmt.Errorf("response is %T, not MutateResponse", msg)
		}
		cells := r.GetResult().GetCell()
		if len(cells) != 1 || len(cells[0].Value) != 8 {
			return fmt.Errorf("increment returned %d cells", len(cells))
		}
		if !bytes.Equal(cells[0].Row, op.Key) || string(cells[0].Qualifier) != op.Marker {
			return fmt.Errorf("increment result is for row %q marker %q, not mine (%q, %s)", cells[0].Row, cells[0].Qualifier, op.Key, op.Marker)
		}
		if got := int64(binary.BigEndian.Uint64(cells[0].Value)); got != sim.EchoInc(op.Key, op.Marker) {
			return fmt.Errorf("increment returned %d, the server produced %d", got, sim.EchoInc(op.Key, op.Marker))
		}
		return nil
	default:
		r, ok := msg.(*pb.MutateResponse)
		if !ok {
			return fmt.Errorf("response is %T, not MutateResponse", msg)
		}
		if n := len(r.GetResult().GetCell()); n != 0 {
			return fmt.Errorf("put/delete returned %d cells", n)
		}
		return nil
	}
}

// doOp issues a single call through the client's typed API and checks it.
// Results handed to callers are retained for the rest of the case and verified once more at its
// end: what a caller was given stays what it is, whatever traffic follows on the same client
// (responses decoded in place, pooled or reused buffers).
type retainedResult struct {
	res    *hrpc.Result
	key    []byte
	marker string
}

var retainedMu sync.Mutex
var retained []retainedResult

var poison = bytes.Repeat([]byte{0xAA}, 64)

// useResult does with a result what callers do with results: it appends to the slices it was given
// (a suffix to a row to build another key, one more cell to the cell list). Whatever spare capacity
// those slices have is memory the caller may legitimately write to - so it must not be memory that
// another result (or another field of this one) lives in.
func useResult(r *hrpc.Result) {
	if r == nil {
		return
	}
	for _, c := range r.Cells {
		for _, f := range [][]byte{c.Row, c.Family, c.Qualifier, c.Value} {
			if n := cap(f) - len(f); n > 0 {
				_ = append(f, poison[:min(n, len(poison))]...)
			}
		}
	}
	if cap(r.Cells) > len(r.Cells) {
		_ = append(r.Cells, &hrpc.Cell{Row: []byte("appended by the caller")})
	}
}

func retain(r *hrpc.Result, key []byte, marker string) {
	useResult(r)
	retainedMu.Lock()
	retained = append(retained, retainedResult{r, key, marker})
	retainedMu.Unlock()
}

func resetRetained() {
	retainedMu.Lock()
	retained = nil
	retainedMu.Unlock()
}

// recheckRetained verifies every retained result again; n is how many were checked.
func recheckRetained() (n int, err error) {
	retainedMu.Lock()
	defer retainedMu.Unlock()
	for _, r := range retained {
		if e := checkEcho(r.res, r.key, r.marker); e != nil {
			return len(retained), fmt.Errorf("a result that was correct when its call returned has changed since: %v", e)
		}
	}
	return len(retained), nil
}

func doOp(cl gohbase.Client, ctx context.Context, table string, op opSpec) (err error, checkErr error) {
	call, cerr := buildCall(ctx, table, op)
	if cerr != nil {
		return cerr, nil
	}
	switch op.Kind {
	case "badget":
		_, e := cl.Get(call.(*hrpc.Get))
		return e, nil
	case "get":
		r, e := cl.Get(call.(*hrpc.Get))
		if e != nil {
			return e, nil
		}
		if ce := checkEcho(r, op.Key, op.Marker); ce != nil {
			return nil, ce
		}
		retain(r, op.Key, op.Marker)
		return nil, nil
	case "put":
		_, e := cl.Put(call.(*hrpc.Mutate))
		return e, nil
	case "del":
		_, e := cl.Delete(call.(*hrpc.Mutate))
		return e, nil
	case "app":
		r, e := cl.Append(call.(*hrpc.Mutate))
		if e != nil {
			return e, nil
		}
		if ce := checkEcho(r, op.Key, op.Marker); ce != nil {
			return nil, ce
		}
		retain(r, op.Key, op.Marker)
		return nil, nil
	case "cas":
		ok, e := cl.CheckAndPut(call.(*hrpc.Mutate), "f", op.Marker, []byte("expected"))
		if e != nil {
			return e, nil
		}
		if want := sim.H(op.Key, []byte(op.Marker), []byte("cas"))&1 == 1; ok != want {
			return nil, fmt.Errorf("check-and-put returned %v, the server produced %v for row %q marker %s", ok, want, op.Key, op.Marker)
		}
		return nil, nil
	case "inc":
		v, e := cl.Increment(call.(*hrpc.Mutate))
		if e != nil {
			return e, nil
		}
		if v != sim.EchoInc(op.Key, op.Marker) {
			return nil, fmt.Errorf("increment returned %d, the server produced %d for row %q marker %s", v, sim.EchoInc(op.Key, op.Marker), op.Key, op.Marker)
		}
		return nil, nil
	}
	return fmt.Errorf("unknown op"), nil
}

// errMarkers returns the markers mentioned in an error text.
func errMarkers(err error) []string {
	if err == nil {
		return nil
	}
	var out []string
	s := err.Error()
	for {
		i := strings.Index(s, "marker=mk")
		if i < 0 {
			break
		}
		j := i + len("marker=")
		k := j + 2
		for k < len(s) && s[k] >= '0' && s[k] <= '9' {
			k++
		}
		out = append(out, s[j:k])
		s = s[k:]
	}
	sort.Strings(out)
	return out
}

// runGuard bounds a scenario in virtual time: it returns a channel closed
// when f finished, and reports whether the horizon passed first.
func waitOrHorizon(done <-chan struct{}, horizon time.Duration) bool {
	select {
	case <-done:
		return true
	case <-time.After(horizon):
		return false
	}
}

// drainClient gives a closed client's background goroutines (establishers in
// a back-off sleep, asynchronous scanner closes) virtual time to finish. The
// bubble clock stops when the root returns, so this must happen before.
func drainClient() {
	time.Sleep(5 * time.Minute)
	synctest.Wait()
}

// exitLeak says whether a bubble "deadlock" is merely goroutines left behind
// when the scenario returned (the business of C19), not a hang in mid-scenario.
func exitLeak(deadlock string) bool {
	return strings.Contains(deadlock, "main bubble goroutine has exited")
}

var allExcClasses = []string{sim.NSRE, sim.RegionMoved, sim.CallQueueBig, sim.RegionOpening, sim.Throttling, sim.RetryImm,
	sim.TooBusy, sim.PleaseHold, sim.RSAborted, sim.RSStopped, sim.MasterStopped, sim.NotRunningYet}
