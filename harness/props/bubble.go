package props

import (
	"fmt"
	"runtime"
	"strings"
	"testing"
	"testing/synctest"
	"time"
)

// bubbleResult says how a bubble ended.
type bubbleResult struct {
	// Deadlock is non-empty when synctest reported that every goroutine of the
	// bubble is durably blocked (a hang) or that blocked goroutines were left
	// behind when the root returned (a leak).
	Deadlock string
	// Panic is a panic raised by f itself in the root goroutine.
	Panic string
	Stack string
	// Spin: a client goroutine was still running (never blocking) after a generous amount of
	// real time. Frozen: the bubble made no progress for another reason (infrastructure).
	Spin     string
	Livelock bool
	Frozen   string
}

// bubbleDebug, when set by a scenario, describes what the simulated cluster has seen lately; the
// watchdog appends it to a spin verdict (it must not block: the bubble is still running).
var bubbleDebug func() string

func debugTail() string {
	f := bubbleDebug
	if f == nil {
		return ""
	}
	ch := make(chan string, 1)
	go func() { ch <- f() }()
	select {
	case s := <-ch:
		return "\nserver side, most recent first:\n" + s
	case <-time.After(2 * time.Second):
		return ""
	}
}

// inBubble runs f inside a fresh synctest bubble (virtual time) and turns
// synctest's deadlock panic into a value. f must not touch *rapid.T.
func inBubble(t *testing.T, f func()) (res bubbleResult) {
	// Real-time watchdog (we are outside the bubble here): a goroutine of the client that
	// spins without ever blocking keeps the bubble from becoming idle, so neither
	// synctest.Wait nor the fake clock would ever get us out.
	done := make(chan bubbleResult, 1)
	go func() { done <- inBubbleUnguarded(t, f) }()
	limit := 40 * time.Second
	select {
	case r := <-done:
		return r
	case <-time.After(limit):
	}
	// Sample the goroutines of the bubble a number of times: one that spins shows up running in
	// (nearly) every sample; a live-lock (client and server goroutines handing work to each other
	// without the clock ever advancing, e.g. a retry loop without back-off) shows client frames
	// running in many samples, in varying functions.
	var spinning, mutexed []string
	frames := map[string]int{}
	samplesWithClient := 0
	const samples = 40
	buf := make([]byte, 4<<20)
	for i := 0; i < samples; i++ {
		select {
		case r := <-done:
			return r // it finished after all (a very slow case, not a stuck one)
		default:
		}
		dump := string(buf[:runtime.Stack(buf, true)])
		hit := false
		for _, g := range strings.Split(dump, "\n\n") {
			if !strings.Contains(g, "synctest bubble") {
				continue
			}
			head := g
			if i := strings.Index(g, "\n"); i > 0 {
				head = g[:i]
			}
			switch {
			case (strings.Contains(head, "[running") || strings.Contains(head, "[runnable")) && strings.Contains(g, "github.com/tsuna/gohbase"):
				spinning = append(spinning, g)
				frames[topFrame(g)]++
				hit = true
			case strings.Contains(head, "sync.Mutex.Lock") || strings.Contains(head, "sync.RWMutex"):
				mutexed = append(mutexed, g)
			}
		}
		if hit {
			samplesWithClient++
		}
		time.Sleep(25 * time.Millisecond)
	}
	switch {
	case samplesWithClient >= samples/8:
		g := spinning[0]
		if len(g) > 2500 {
			g = g[:2500]
		}
		best, bestN := "", 0
		for f, n := range frames {
			if n > bestN || n == bestN && f < best {
				best, bestN = f, n
			}
		}
		if len(frames) == 1 {
			return bubbleResult{Spin: fmt.Sprintf("after %v of real time a goroutine of the client is still running without blocking (hot loop in %s):\n%s", limit, best, g)}
		}
		return bubbleResult{Spin: fmt.Sprintf("after %v of real time the client is still busy (a retry loop that never ends: no back-off at all, or one that nothing - "+
			"success, the caller's context, Close - ever terminates; client frames seen running in %d of %d samples: %v):\n%s%s", limit, samplesWithClient, samples, frames, g, debugTail()), Livelock: true}
	case len(mutexed) > 0:
		return bubbleResult{Frozen: "the bubble's clock is frozen by a goroutine parked on a mutex (harness limitation):\n" + mutexed[0]}
	}
	return bubbleResult{Frozen: "the bubble did not finish within " + limit.String() + " of real time"}
}

// spinning decides, after a real-time budget ran out, whether a call is really stuck in a loop:
// it samples all goroutine stacks n times and reports true when a goroutine having frame (a
// substring of a function name) on its stack was running or runnable - never blocked - in at least
// 3/4 of the samples. A loaded machine makes calls slow, not spinning; only this verdict may turn
// a timeout into a violation.
func spinning(frame string, n int) (bool, string) {
	buf := make([]byte, 4<<20)
	hits, last := 0, ""
	for i := 0; i < n; i++ {
		dump := string(buf[:runtime.Stack(buf, true)])
		for _, g := range strings.Split(dump, "\n\n") {
			if !strings.Contains(g, frame) {
				continue
			}
			head := g
			if j := strings.Index(g, "\n"); j > 0 {
				head = g[:j]
			}
			if strings.Contains(head, "[running") || strings.Contains(head, "[runnable") {
				hits++
				last = g
				break
			}
		}
		time.Sleep(50 * time.Millisecond)
	}
	if len(last) > 2500 {
		last = last[:2500]
	}
	return hits*4 >= n*3, last
}

func inBubbleUnguarded(t *testing.T, f func()) (res bubbleResult) {
	defer func() {
		if p := recover(); p != nil {
			msg := fmt.Sprint(p)
			if strings.Contains(msg, "deadlock") || strings.Contains(msg, "blocked goroutines remain") {
				res.Deadlock = msg
				buf := make([]byte, 1<<20)
				res.Stack = string(buf[:runtime.Stack(buf, true)])
			} else {
				res.Panic = msg
				buf := make([]byte, 1<<16)
				res.Stack = string(buf[:runtime.Stack(buf, false)])
			}
		}
	}()
	synctest.Test(t, func(*testing.T) {
		defer func() {
			if p := recover(); p != nil {
				buf := make([]byte, 1<<16)
				res.Panic = fmt.Sprint(p)
				res.Stack = string(buf[:runtime.Stack(buf, false)])
			}
		}()
		f()
	})
	return res
}

// gohbaseGoroutines returns the stacks of goroutines that have a frame in
// the gohbase module (excluding hook files and the harness itself).
func gohbaseGoroutines() []string {
	// (only goroutines of the caller's own bubble: one that an earlier case left behind is that case's finding)
	mine := ""
	self := make([]byte, 256)
	if h := string(self[:runtime.Stack(self, false)]); strings.Contains(h, "synctest bubble ") {
		h = h[strings.Index(h, "synctest bubble "):]
		if i := strings.IndexAny(h, "]:,\n"); i > 0 {
			mine = h[:i]
		}
	}
	buf := make([]byte, 1<<20)
	n := runtime.Stack(buf, true)
	var out []string
	for _, g := range strings.Split(string(buf[:n]), "\n\n") {
		if mine != "" {
			head := g
			if i := strings.Index(g, "\n"); i > 0 {
				head = g[:i]
			}
			if !strings.Contains(head, mine+"]") && !strings.Contains(head, mine+",") {
				continue
			}
		}
		if strings.Contains(g, "github.com/tsuna/gohbase") {
			// skip the goroutine that is running this very function via a hook call
			if strings.Contains(g, "gohbaseGoroutines") {
				continue
			}
			out = append(out, g)
		}
	}
	return out
}

// bubbleStacks keeps the goroutines of a full dump that are blocked inside a
// synctest bubble ("(durable)" / "synctest" markers) or mention gohbase / the
// harness, to explain a deadlock.
func bubbleStacks(dump string) string {
	var out []string
	for _, g := range strings.Split(dump, "\n\n") {
		if strings.Contains(g, "synctest") || strings.Contains(g, "gohbase") || strings.Contains(g, "verifharness/sim") || strings.Contains(g, "verifharness/memconn") {
			if strings.Contains(g, "bubbleStacks") || strings.Contains(g, "testing.tRunner") && !strings.Contains(g, "gohbase") {
				continue
			}
			if len(g) > 1500 {
				g = g[:1500]
			}
			out = append(out, g)
		}
	}
	if len(out) > 12 {
		out = out[:12]
	}
	return strings.Join(out, "\n\n")
}

// stuckVerdict turns a bubble that did not finish in real time into an outcome: a
// spinning client goroutine is a violation (hot loop), anything else is infrastructure.
func stuckVerdict(res bubbleResult) (Outcome, bool) {
	if res.Spin != "" {
		if res.Livelock {
			return viol("client-spin@livelock", "%s", res.Spin), true
		}
		return viol("client-spin@"+topFrame(res.Spin), "%s", res.Spin), true
	}
	if res.Frozen != "" {
		return viol("bubble-frozen", "%s", res.Frozen), true
	}
	return Outcome{}, false
}
