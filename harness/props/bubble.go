package props

import (
	"fmt"
	"runtime"
	"strings"
	"testing"
	"testing/synctest"
)

// bubbleResult says how a bubble ended.
type bubbleResult struct {
	// Deadlock is non-empty when synctest reported that every goroutine of the
	// bubble is durably blocked (a hang) or that blocked goroutines were left
	// behind when the root returned (a leak).
	Deadlock string
	// Panic is a panic raised by f itself in the root goroutine.
	Panic string
	Stack string
}

// inBubble runs f inside a fresh synctest bubble (virtual time) and turns
// synctest's deadlock panic into a value. f must not touch *rapid.T.
func inBubble(t *testing.T, f func()) (res bubbleResult) {
	defer func() {
		if p := recover(); p != nil {
			msg := fmt.Sprint(p)
			if strings.Contains(msg, "deadlock") || strings.Contains(msg, "blocked goroutines remain") {
				res.Deadlock = msg
				buf := make([]byte, 1<<20)
				res.Stack = string(buf[:runtime.Stack(buf, true)])
			} else {
				res.Panic = msg
				buf := make([]byte, 1<<16)
				res.Stack = string(buf[:runtime.Stack(buf, false)])
			}
		}
	}()
	synctest.Test(t, func(*testing.T) {
		defer func() {
			if p := recover(); p != nil {
				buf := make([]byte, 1<<16)
				res.Panic = fmt.Sprint(p)
				res.Stack = string(buf[:runtime.Stack(buf, false)])
			}
		}()
		f()
	})
	return res
}

// gohbaseGoroutines returns the stacks of goroutines that have a frame in
// the gohbase module (excluding hook files and the harness itself).
func gohbaseGoroutines() []string {
	buf := make([]byte, 1<<20)
	n := runtime.Stack(buf, true)
	var out []string
	for _, g := range strings.Split(string(buf[:n]), "\n\n") {
		if strings.Contains(g, "github.com/tsuna/gohbase") {
			// skip the goroutine that is running this very function via a hook call
			if strings.Contains(g, "gohbaseGoroutines") {
				continue
			}
			out = append(out, g)
		}
	}
	return out
}

// bubbleStacks keeps the goroutines of a full dump that are blocked inside a
// synctest bubble ("(durable)" / "synctest" markers) or mention gohbase / the
// harness, to explain a deadlock.
func bubbleStacks(dump string) string {
	var out []string
	for _, g := range strings.Split(dump, "\n\n") {
		if strings.Contains(g, "synctest") || strings.Contains(g, "gohbase") || strings.Contains(g, "verifharness/sim") || strings.Contains(g, "verifharness/memconn") {
			if strings.Contains(g, "bubbleStacks") || strings.Contains(g, "testing.tRunner") && !strings.Contains(g, "gohbase") {
				continue
			}
			if len(g) > 1500 {
				g = g[:1500]
			}
			out = append(out, g)
		}
	}
	if len(out) > 12 {
		out = out[:12]
	}
	return strings.Join(out, "\n\n")
}
