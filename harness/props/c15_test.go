package props

import (
	"bytes"
	"testing"
	"time"

	"github.com/tsuna/gohbase/compression/snappy"
	"github.com/tsuna/gohbase/region"
	"pgregory.net/rapid"

	"verifharness/evid"
	"verifharness/wire"
)

type c15Case struct {
	Size    int    `json:"size"`
	Content string `json:"content"` // zeros | text | random | mixed
	Seed    uint32 `json:"seed"`
	Cuts    []int  `json:"cuts"` // cut positions (mod size+1) splitting the payload into buffers
	// Server direction: the independent writer produces the stream
	Server     bool  `json:"server"`
	BlockCuts  []int `json:"block_cuts,omitempty"`
	ChunkSizes []int `json:"chunk_sizes,omitempty"` // tape of plain chunk sizes, cycled
	// Damage applied to the stream before the client reads it
	Damage    string `json:"damage,omitempty"` // "" | truncate | subst | insert | delete
	DamagePos int    `json:"damage_pos,omitempty"`
	DamageVal byte   `json:"damage_val,omitempty"`
}

func c15Payload(c c15Case) []byte {
	out := make([]byte, c.Size)
	x := c.Seed*2654435761 + 12345
	next := func() byte {
		x = x*1664525 + 1013904223
		return byte(x >> 24)
	}
	switch c.Content {
	case "zeros":
	case "text":
		pat := []byte("row-key-0001:cf:qualifier=value;")
		for i := range out {
			out[i] = pat[int((uint64(i)+uint64(c.Seed))%uint64(len(pat)))]
		}
	case "random":
		for i := range out {
			out[i] = next()
		}
	default: // mixed: alternating runs
		i := 0
		for i < len(out) {
			run := 1 + int(next())*8
			rnd := next()&1 == 0
			for j := 0; j < run && i < len(out); j++ {
				if rnd {
					out[i] = next()
				} else {
					out[i] = 'm'
				}
				i++
			}
		}
	}
	return out
}

func c15Buffers(c c15Case, p []byte) [][]byte {
	cuts := map[int]bool{}
	for _, k := range c.Cuts {
		if len(p) > 0 {
			cuts[((k%(len(p)+1))+len(p)+1)%(len(p)+1)] = true
		} else {
			cuts[0] = true
		}
	}
	var bufs [][]byte
	start := 0
	for i := 0; i <= len(p); i++ {
		if cuts[i] {
			bufs = append(bufs, p[start:i])
			start = i
		}
	}
	bufs = append(bufs, p[start:])
	// duplicate cuts at the same position produce empty buffers
	for _, k := range c.Cuts {
		if k < 0 {
			bufs = append([][]byte{{}}, bufs...)
		}
	}
	return bufs
}

func c15Run(c c15Case) (out Outcome) {
	stage := "start"
	defer func() {
		if p := recover(); p != nil {
			out = viol("panic@"+stage, "panic in %s: %v", stage, p)
		}
	}()
	codec := snappy.New()
	payload := c15Payload(c)
	var stream []byte
	if c.Server {
		stage = "independent-writer"
		ends := []int{}
		seen := map[int]bool{}
		for _, k := range c.BlockCuts {
			if len(payload) > 0 {
				e := 1 + k%len(payload)
				if !seen[e] {
					seen[e] = true
					ends = append(ends, e)
				}
			}
		}
		if !seen[len(payload)] {
			ends = append(ends, len(payload))
		}
		sortInts(ends)
		i := 0
		stream = wire.WriteBlocks(payload, ends, func(rem int) int {
			if len(c.ChunkSizes) == 0 {
				if rem > wire.SnappyChunk {
					return wire.SnappyChunk
				}
				return rem
			}
			// (the chunk size is the server's choice - Hadoop's default is one byte above the
			// client's own, and it grows with io.compression.codec.snappy.buffersize)
			n := c.ChunkSizes[i%len(c.ChunkSizes)]
			i++
			return n
		})
		out.Labels = append(out.Labels, "server_stream")
		if len(ends) > 1 {
			out.Labels = append(out.Labels, "multi_block")
		}
	} else {
		stage = "client-compress"
		bufs := c15Buffers(c, payload)
		// (under a real-time watchdog: a compressor that never returns keeps allocating)
		done := make(chan []byte, 1)
		go func() { done <- region.VerifCompressCellblocks(codec, bufs, uint32(len(payload))) }()
		stuck := false
		select {
		case stream = <-done:
		case <-time.After(10 * time.Second):
			if spin, _ := spinning("region.VerifCompressCellblocks", 20); spin {
				stuck = true
			} else {
				// slow (a loaded machine), not stuck
				select {
				case stream = <-done:
				case <-time.After(5 * time.Minute):
					out.Labels = append(out.Labels, "inconclusive_compress_slow")
					return out
				}
			}
		}
		if stuck {
			lens := []int{}
			for _, b := range bufs {
				lens = append(lens, len(b))
			}
			return viol("client-spin@compressCellblocks", "compressing %d bytes given as buffers of lengths %v had not returned after 10 s of real time and keeps running", len(payload), lens)
		}
		out.Labels = append(out.Labels, "client_stream")
		if len(bufs) > 1 {
			out.Labels = append(out.Labels, "multi_buffer")
			out.NonTrivial = true
		}
		// (2) the independent reader accepts it, returns the payload, structure conforms
		stage = "independent-reader"
		plain, st, err := wire.ReadBlocks(stream)
		if err != nil {
			return viol("client-stream-rejected", "independent reader rejects the client's stream (payload %d bytes): %v", len(payload), err)
		}
		if !bytes.Equal(plain, payload) {
			return viol("client-stream-wrong-data", "independent reader decodes the client's stream to different bytes (payload %d, got %d)", len(payload), len(plain))
		}
		// (the bound is Hadoop's, derived from the 256 KiB buffers of its SnappyDecompressor - not whatever the
		// codec under test believes its chunk length to be)
		if st.MaxChunkPlain > wire.SnappyChunk {
			return viol("chunk-too-large", "client wrote a chunk of %d plain bytes, Hadoop's snappy block stream takes at most %d", st.MaxChunkPlain, wire.SnappyChunk)
		}
		if len(payload) > 0 && st.Blocks != 1 {
			return viol("block-structure", "client wrote %d blocks for one payload", st.Blocks)
		}
		want := (len(payload) + wire.SnappyChunk - 1) / wire.SnappyChunk
		if st.Chunks != want {
			return viol("chunk-structure", "client wrote %d chunks for %d bytes, expected %d full-size chunks", st.Chunks, len(payload), want)
		}
	}
	if len(payload) > wire.SnappyChunk {
		out.NonTrivial = true
		out.Labels = append(out.Labels, "multi_chunk")
	}

	if c.Damage == "" {
		// (1)/(3) the client decompresses a sound stream to the payload
		stage = "client-decompress"
		got, err := region.VerifDecompressCellblocks(codec, stream)
		if err != nil {
			return viol("sound-stream-rejected", "client rejects a conforming stream (server=%v, payload %d bytes): %v", c.Server, len(payload), err)
		}
		if !bytes.Equal(got, payload) {
			return viol("roundtrip-wrong-data", "client decompressed to different bytes (server=%v, payload %d, got %d)", c.Server, len(payload), len(got))
		}
		return out
	}

	// (4) differential on damaged streams
	stage = "damage"
	damaged := append([]byte(nil), stream...)
	pos := 0
	if len(damaged) > 0 {
		pos = ((c.DamagePos % len(damaged)) + len(damaged)) % len(damaged)
	}
	switch c.Damage {
	case "truncate":
		damaged = damaged[:pos]
	case "subst":
		if len(damaged) > 0 {
			if damaged[pos] == c.DamageVal {
				damaged[pos] ^= 0x01
			} else {
				damaged[pos] = c.DamageVal
			}
		}
	case "insert":
		damaged = append(damaged[:pos], append([]byte{c.DamageVal}, damaged[pos:]...)...)
	case "delete":
		if len(damaged) > 0 {
			damaged = append(damaged[:pos], damaged[pos+1:]...)
		}
	}
	out.Labels = append(out.Labels, "damage_"+c.Damage)
	stage = "independent-reader-damaged"
	refPlain, refSt, refErr := wire.ReadBlocks(damaged)
	// skip streams that declare an absurd block length: they only cost memory
	if refSt.MaxDeclaredBlock > 64<<20 {
		out.Labels = append(out.Labels, "declares_oversized_block")
	}
	stage = "client-decompress-damaged"
	a0 := totalAlloc()
	got, err := region.VerifDecompressCellblocks(codec, damaged)
	if d := totalAlloc() - a0; d > allocBudget(len(damaged)) {
		return viol("alloc-bomb@decompress", "decompressing a %s-damaged stream of %d bytes allocated %d MiB: a length declared inside the data is trusted before it is checked against the data", c.Damage, len(damaged), d>>20)
	}
	switch {
	case refErr != nil && err == nil:
		return viol("damaged-stream-accepted", "client returned %d bytes for a %s-damaged stream (pos %d) that the independent reader rejects: %v", len(got), c.Damage, pos, refErr)
	case refErr != nil:
		out.NonTrivial = true
		out.Labels = append(out.Labels, "damage_rejected_by_both")
	case err == nil && !bytes.Equal(got, refPlain):
		return viol("damaged-stream-wrong-data", "client and independent reader decode a %s-damaged stream (pos %d) to different bytes", c.Damage, pos)
	case err != nil:
		// the reference accepts (the damage produced another conforming stream) but the
		// client refuses: allowed by "error, never wrong data"
		out.Labels = append(out.Labels, "client_stricter")
	default:
		out.Labels = append(out.Labels, "damage_still_conforming")
	}
	return out
}

func sortInts(a []int) {
	for i := 1; i < len(a); i++ {
		for j := i; j > 0 && a[j] < a[j-1]; j-- {
			a[j], a[j-1] = a[j-1], a[j]
		}
	}
}

func c15Gen(t *rapid.T) c15Case {
	var c c15Case
	chunk := wire.SnappyChunk
	sizes := []int{0, 1, 2, 100, chunk - 1, chunk, chunk + 1, 2*chunk - 1, 2 * chunk, 2*chunk + 1}
	switch rapid.IntRange(0, 9).Draw(t, "sizekind") {
	case 0, 1, 2:
		c.Size = rapid.SampledFrom(sizes).Draw(t, "size")
	case 3:
		c.Size = rapid.IntRange(0, 5*chunk).Draw(t, "size")
	default:
		c.Size = rapid.IntRange(0, 3000).Draw(t, "size")
	}
	c.Content = rapid.SampledFrom([]string{"zeros", "text", "random", "mixed"}).Draw(t, "content")
	c.Seed = rapid.Uint32().Draw(t, "seed")
	c.Server = rapid.Bool().Draw(t, "server")
	if c.Server {
		nb := rapid.IntRange(0, 3).Draw(t, "nblocks")
		for i := 0; i < nb; i++ {
			c.BlockCuts = append(c.BlockCuts, rapid.IntRange(0, 1<<30).Draw(t, "bcut"))
		}
		nc := rapid.IntRange(0, 4).Draw(t, "nchunktape")
		for i := 0; i < nc; i++ {
			c.ChunkSizes = append(c.ChunkSizes, rapid.SampledFrom([]int{1, 2, 7, 100, 4096, 65536, chunk - 1, chunk, chunk + 1, 2 * chunk, 873782}).Draw(t, "chunk"))
		}
		// one-byte chunks on a large payload would be slow without adding anything
		if c.Size > 20000 {
			for i, n := range c.ChunkSizes {
				if n < 100 {
					c.ChunkSizes[i] = 4096
				}
			}
		}
	} else {
		nc := rapid.IntRange(0, 7).Draw(t, "ncuts")
		for i := 0; i < nc; i++ {
			if rapid.IntRange(0, 5).Draw(t, "emptybuf") == 0 {
				c.Cuts = append(c.Cuts, -1)
			} else {
				c.Cuts = append(c.Cuts, rapid.IntRange(0, 1<<30).Draw(t, "cut"))
			}
		}
	}
	if rapid.IntRange(0, 1).Draw(t, "dmg") == 0 {
		c.Damage = rapid.SampledFrom([]string{"truncate", "subst", "subst", "insert", "delete"}).Draw(t, "damage")
		if rapid.Bool().Draw(t, "structural") {
			// near the front: block length, first chunk length, snappy header
			c.DamagePos = rapid.IntRange(0, 12).Draw(t, "dpos")
		} else {
			c.DamagePos = rapid.IntRange(0, 1<<30).Draw(t, "dpos")
		}
		c.DamageVal = rapid.SampledFrom([]byte{0, 1, 0x7f, 0x80, 0xff, 'x'}).Draw(t, "dval")
	}
	return c
}

func TestC15_Compression(t *testing.T) {
	rec := evid.New("C15", "TestC15_Compression",
		"rapid: payloads of 0..5 chunks (chunk = 218421 bytes; sizes at chunk boundaries +-1 and random), "+
			"zero/text/random/mixed content, given to the client's compressor as 1..8 buffers (incl. empty) or "+
			"written by an independent Hadoop block-stream writer with 1..4 blocks and arbitrary chunking; half of "+
			"the cases damage the stream (truncate / substitute / insert / delete a byte, at structural offsets "+
			"or anywhere). Oracles: round trip, independent reader accepts and structure conforms, client reads "+
			"every conforming server stream, and on damage: reference rejects => client errors; client returns "+
			"bytes => same bytes as the reference. Non-trivial = payload > 1 chunk, > 1 buffer, or damage rejected "+
			"by the reference; distinct by case hash")
	Drive(t, rec, false, c15Gen, c15Run)
}

func FuzzC15Decompress(f *testing.F) {
	codec := snappy.New()
	f.Add(wire.WriteBlocks([]byte("hello hello hello hello"), []int{23}, func(r int) int { return r }))
	f.Add(wire.WriteBlocks(bytes.Repeat([]byte("ab"), 500), []int{400, 1000}, func(r int) int { return 77 }))
	f.Add([]byte{0, 0, 0, 0})
	f.Add([]byte{0, 0, 0, 1, 0, 0, 0, 2, 1, 0})
	f.Add([]byte{0xff, 0xff, 0xff, 0xff, 0, 0, 0, 0})
	f.Fuzz(func(t *testing.T, b []byte) {
		ref, st, refErr := wire.ReadBlocks(b)
		_ = st
		a0 := totalAlloc()
		got, err := region.VerifDecompressCellblocks(codec, b)
		if d := totalAlloc() - a0; d > allocBudget(len(b)) {
			t.Fatalf("VERIFSIG=alloc-bomb@decompress %d bytes of input allocated %d MiB", len(b), d>>20)
		}
		if refErr != nil && err == nil {
			t.Fatalf("VERIFSIG=damaged-stream-accepted client accepts %q, reference: %v", b, refErr)
		}
		if refErr == nil && err == nil && !bytes.Equal(ref, got) {
			t.Fatalf("VERIFSIG=damaged-stream-wrong-data differ on %q", b)
		}
	})
}
