package props

import (
	"bytes"
	"context"
	"fmt"
	"sort"
	"sync"
	"testing"
	"testing/synctest"
	"time"

	"github.com/tsuna/gohbase/hrpc"
	"pgregory.net/rapid"

	"verifharness/evid"
	"verifharness/memconn"
)

type c05bOp struct {
	Kind      string `json:"kind"` // get | put | scan
	SkipBatch bool   `json:"skip_batch,omitempty"`
	Key       evid.B `json:"key"`
	Marker    string `json:"marker"`
	ValueLen  int    `json:"value_len,omitempty"`
	// GiveUp: the caller's context ends right after the call was queued (before its batch is
	// flushed): it may or may not go out, but it must not leave anything of itself in another frame
	GiveUp bool `json:"give_up,omitempty"`
}

type c05bCase struct {
	Senders   [][]c05bOp `json:"senders"`
	QueueSize int        `json:"queue_size"`
	FlushMS   int        `json:"flush_ms"`
	Snappy    bool       `json:"snappy"`
	Yields    int        `json:"yields"`
}

func c05bRun(c c05bCase) Outcome {
	var o Outcome
	res := inBubble(theT, func() { o = c05bRunInBubble(c) })
	if o, stuck := stuckVerdict(res); stuck {
		return o
	}
	if res.Deadlock != "" {
		return viol("deadlock", "bubble deadlocked: %s", res.Deadlock)
	}
	if res.Panic != "" {
		return viol("panic@"+topFrame(res.Stack), "%s\n%s", res.Panic, res.Stack)
	}
	return o
}

func c05bBuild(op c05bOp) (hrpc.Call, error) {
	return c05bBuildCtx(context.Background(), op)
}

func c05bBuildCtx(ctx context.Context, op c05bOp) (hrpc.Call, error) {
	var opts []func(hrpc.Call) error
	if op.SkipBatch && op.Kind != "scan" {
		opts = append(opts, hrpc.SkipBatch())
	}
	switch op.Kind {
	case "get":
		opts = append(opts, hrpc.Families(markerFam(op.Marker)))
		return hrpc.NewGet(ctx, []byte("t"), op.Key, opts...)
	case "put":
		vals := map[string]map[string][]byte{"f": {op.Marker: bytes.Repeat([]byte{'v'}, op.ValueLen)}}
		return hrpc.NewPut(ctx, []byte("t"), op.Key, vals, opts...)
	default:
		return hrpc.NewScanRange(ctx, []byte("t"), op.Key, nil, hrpc.Attribute("marker", []byte(op.Marker)))
	}
}

func c05bRunInBubble(c c05bCase) (out Outcome) {
	env, err := newRCEnv(c.QueueSize, time.Duration(c.FlushMS)*time.Millisecond, time.Hour, c.Snappy,
		memconn.Options{YieldAfterWrite: c.Yields})
	if err != nil {
		return viol("harness", "dial failed: %v", err)
	}
	var wg sync.WaitGroup
	var cancelMu sync.Mutex
	var cancels []context.CancelFunc
	defer func() {
		for _, cancel := range cancels {
			cancel()
		}
	}()
	want := map[string]c05bOp{}
	multiWrite := 0
	for _, ops := range c.Senders {
		for _, op := range ops {
			want[op.Marker] = op
			if op.Kind == "put" {
				multiWrite++
			}
		}
	}
	for _, ops := range c.Senders {
		wg.Add(1)
		go func(ops []c05bOp) {
			defer wg.Done()
			for _, op := range ops {
				ctx, cancel := context.WithCancel(context.Background())
				cancelMu.Lock()
				cancels = append(cancels, cancel)
				cancelMu.Unlock()
				call, err := c05bBuildCtx(ctx, op)
				if err != nil {
					panic(err)
				}
				call.SetRegion(env.reg)
				env.rc.QueueRPC(call)
				if op.GiveUp {
					cancel()
				}
			}
		}(ops)
	}
	wg.Wait()
	// let the batching goroutine flush
	time.Sleep(time.Duration(c.FlushMS)*time.Millisecond + time.Millisecond)
	synctest.Wait()
	stream, _ := env.pair.Written()
	env.rc.Close()
	synctest.Wait()

	hello, reqs, derr := decodeStream(stream, c.Snappy)
	if derr != nil {
		return viol("stream-corrupt", "the byte stream of %d senders does not decode as HBase RPC: %v (decoded %d frames of %d calls)", len(c.Senders), derr, len(reqs), len(want))
	}
	if hello.Header.GetServiceName() != "ClientService" {
		return viol("hello", "service name %q", hello.Header.GetServiceName())
	}
	seen := map[string]int{}
	ids := map[uint32]bool{}
	for _, r := range reqs {
		if ids[r.CallID] {
			return viol("call-id-reused", "call id %d appears twice on the connection", r.CallID)
		}
		ids[r.CallID] = true
		for i, mk := range r.Markers {
			seen[mk]++
			op, ok := want[mk]
			if !ok {
				return viol("unknown-call-on-wire", "frame carries marker %q that nobody sent", mk)
			}
			if !bytes.Equal(r.Rows[i], op.Key) {
				return viol("wire-row-mismatch", "call %s was built for row %q, the wire says %q", mk, op.Key, r.Rows[i])
			}
		}
		// the cells a frame carries are those of its own calls: row of the call, marker qualifier, value as built
		for _, ce := range r.Cells {
			op, ok := want[string(ce.Qualifier)]
			if !ok || op.Kind != "put" {
				return viol("foreign-cell-on-wire", "frame %d (call id %d, %s) carries a cell %q/%q that no put of this run built", len(ids), r.CallID, r.Method, ce.Row, ce.Qualifier)
			}
			if !bytes.Equal(ce.Row, op.Key) || len(ce.Value) != op.ValueLen || bytes.Count(ce.Value, []byte{'v'}) != op.ValueLen {
				return viol("cell-content-mismatch", "call %s was built with row %q and a value of %d x 'v'; its cell on the wire has row %q and %d value bytes",
					op.Marker, op.Key, op.ValueLen, ce.Row, len(ce.Value))
			}
			found := false
			for _, mk := range r.Markers {
				found = found || mk == op.Marker
			}
			if !found {
				return viol("cell-in-wrong-frame", "the cell of call %s travels in the frame of calls %v", op.Marker, r.Markers)
			}
		}
	}
	var missing []string
	for mk, op := range want {
		if op.GiveUp && seen[mk] == 0 {
			continue
		}
		if seen[mk] != 1 {
			missing = append(missing, fmt.Sprintf("%s x%d", mk, seen[mk]))
		}
	}
	sort.Strings(missing)
	if len(missing) > 0 {
		return viol("calls-missing-or-duplicated", "calls not on the wire exactly once: %v", missing)
	}
	if len(c.Senders) >= 2 && multiWrite > 0 {
		out.NonTrivial = true
		out.Labels = append(out.Labels, "concurrent_senders_with_cellblocks")
	}
	if c.Yields > 0 {
		out.Labels = append(out.Labels, "yielding_conn")
	}
	return out
}

func c05bGen(t *rapid.T) c05bCase {
	var c c05bCase
	c.QueueSize = rapid.SampledFrom([]int{1, 2, 5, 100}).Draw(t, "queue")
	c.FlushMS = rapid.SampledFrom([]int{0, 1, 20}).Draw(t, "flush")
	c.Snappy = rapid.Bool().Draw(t, "snappy")
	c.Yields = rapid.SampledFrom([]int{0, 1, 3}).Draw(t, "yields")
	ns := rapid.IntRange(1, 8).Draw(t, "nsenders")
	n := 0
	for i := 0; i < ns; i++ {
		var ops []c05bOp
		k := rapid.IntRange(1, 6).Draw(t, "nops")
		for j := 0; j < k; j++ {
			n++
			op := c05bOp{Kind: rapid.SampledFrom([]string{"put", "put", "get", "scan"}).Draw(t, "kind"),
				SkipBatch: rapid.Bool().Draw(t, "skipbatch"), Key: rapid.SliceOfN(rapid.Byte(), 0, 6).Draw(t, "key"),
				Marker: fmt.Sprintf("mk%d", n)}
			if op.Kind == "put" {
				op.ValueLen = rapid.SampledFrom([]int{0, 1, 10, 300, 5000, 5000, 70000, 300000}).Draw(t, "vlen")
			}
			op.GiveUp = op.Kind != "scan" && !op.SkipBatch && rapid.IntRange(0, 5).Draw(t, "giveup") == 0
			ops = append(ops, op)
		}
		c.Senders = append(c.Senders, ops)
	}
	return c
}

func TestC05_ConcurrentSenders(t *testing.T) {
	theT = t
	rec := evid.New("C05", "TestC05_ConcurrentSenders",
		"rapid, virtual time: 1..8 goroutines send 1..6 calls each (SkipBatch puts with cellblocks, batched "+
			"puts/gets, scans) on ONE region-client connection that is an in-memory net.Conn (one Write call is atomic, "+
			"nothing more, optional yield after each Write - what a proxy/TLS/wrapped conn gives); queue size, flush "+
			"interval and snappy drawn. Oracle: the whole byte stream parses with the independent codec into hello + "+
			"well-formed frames (length prefix, delimited header with unique call id, cell_block_meta = trailing bytes, "+
			"cell counts), every call appears exactly once with its row. Non-trivial = >= 2 senders and >= 1 call "+
			"emitted as a gather-write; distinct by case hash")
	Drive(t, rec, true, c05bGen, c05bRun)
}
