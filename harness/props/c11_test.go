package props

import (
	"bytes"
	"context"
	"encoding/binary"
	"errors"
	"fmt"
	"io"
	"runtime"
	"runtime/debug"
	"sync"
	"testing"
	"time"

	"github.com/tsuna/gohbase"
	"github.com/tsuna/gohbase/compression"
	"github.com/tsuna/gohbase/hrpc"
	"github.com/tsuna/gohbase/pb"
	"github.com/tsuna/gohbase/region"
	"google.golang.org/protobuf/encoding/protowire"
	"google.golang.org/protobuf/proto"
	"pgregory.net/rapid"

	"verifharness/evid"
	"verifharness/sim"
	"verifharness/wire"
)

type c11Mut struct {
	Field string `json:"field"`
	Index int    `json:"index,omitempty"`
	Value int64  `json:"value,omitempty"`
	Pos   int    `json:"pos,omitempty"`
}

type c11Case struct {
	// Target: cb-get | cb-mutate | cb-scan (DeserializeCellBlocks directly),
	// rx-get | rx-mutate | rx-scan | rx-multi (a response frame through the
	// connection reader), regioninfo, decompress
	Target string   `json:"target"`
	NCells []int    `json:"ncells"` // cells per result
	Snappy bool     `json:"snappy,omitempty"`
	Muts   []c11Mut `json:"muts,omitempty"`
	Raw    evid.B   `json:"raw,omitempty"` // regioninfo / decompress / raw-frame input
	UseRaw bool     `json:"use_raw,omitempty"`
	// Expired: indices of calls of a multi whose context had ended before the request
	// was built (the client leaves them out of the request)
	Expired []int `json:"expired,omitempty"`
	// Abandoned: indices of calls of a multi whose context ends while the request is in flight
	// (after it was written, before the response is read)
	Abandoned []int `json:"abandoned,omitempty"`
}

var hostile = []int64{0, 1, 2, 9, 10, 12, 13, 14, 255, 256, 65535, 65536, 0x7fffffff, 0x80000000, 0xffffffff, -1, -2}

// c11Cells builds n well-formed cells and remembers the offsets of their length fields.
type cellOffsets struct{ kv, key, val, row, fam int }

func c11Block(counts []int) (block []byte, offs []cellOffsets) {
	k := 0
	for _, n := range counts {
		for i := 0; i < n; i++ {
			c := wire.Cell{Row: []byte(fmt.Sprintf("row%d", k)), Family: []byte("f"), Qualifier: []byte(fmt.Sprintf("q%d", i)),
				Timestamp: uint64(k), Type: wire.TypePut, Value: []byte(fmt.Sprintf("value-%d-%d", k, i))}
			o := len(block)
			offs = append(offs, cellOffsets{kv: o, key: o + 4, val: o + 8, row: o + 12, fam: o + 14 + len(c.Row)})
			block = wire.AppendCell(block, c)
			k++
		}
	}
	return
}

// c11CellblockOf parses a response frame the way the connection reader does (size, delimited header,
// delimited message, rest) and returns the bytes that follow the message, or nil.
func c11CellblockOf(frame []byte) []byte {
	if len(frame) < 4 {
		return nil
	}
	b := frame[4:]
	if n := uint64(binary.BigEndian.Uint32(frame)); n < uint64(len(b)) {
		b = b[:n]
	}
	hl, k := protowire.ConsumeVarint(b)
	if k < 0 || uint64(len(b)-k) < hl {
		return nil
	}
	h := &pb.ResponseHeader{}
	if err := (proto.UnmarshalOptions{AllowPartial: true}).Unmarshal(b[k:k+int(hl)], h); err != nil {
		return nil
	}
	b = b[k+int(hl):]
	if h.Exception == nil {
		ml, k := protowire.ConsumeVarint(b)
		if k < 0 || uint64(len(b)-k) < ml {
			return nil
		}
		b = b[k+int(ml):]
	}
	return b
}

func putU32(b []byte, off int, v int64) {
	if off >= 0 && off+4 <= len(b) {
		binary.BigEndian.PutUint32(b[off:], uint32(v))
	}
}

func exactCap(b []byte) []byte {
	// cap == len, so that any slicing beyond the received bytes panics instead of
	// silently reading the spare capacity
	out := make([]byte, len(b))
	copy(out, b)
	return out[:len(out):len(out)]
}

func c11Run(c c11Case) (out Outcome) {
	var stage string
	var abandon []context.CancelFunc
	defer func() {
		if p := recover(); p != nil {
			st := string(debug.Stack())
			out = viol("panic@"+topFrame(st), "panic in %s: %v\n%s", stage, p, truncStr(st, 2500))
		}
	}()
	switch c.Target {
	case "regioninfo":
		stage = "ParseRegionInfo"
		res := &hrpc.Result{Cells: []*hrpc.Cell{
			{Row: []byte("t,,1"), Family: []byte("info"), Qualifier: []byte("regioninfo"), Value: exactCap(c.Raw)},
			{Row: []byte("t,,1"), Family: []byte("info"), Qualifier: []byte("server"), Value: []byte("rs1:16020")},
		}}
		_, _, err := region.ParseRegionInfo(res)
		out.NonTrivial = len(c.Raw) > 0
		if err == nil {
			out.Labels = append(out.Labels, "regioninfo_accepted")
		}
		return out
	case "decompress":
		stage = "decompressCellblocks"
		if _, st, _ := wire.ReadBlocks(c.Raw); st.MaxDeclaredBlock > 2<<20 {
			out.Labels = append(out.Labels, "declares_oversized_block")
		}
		a0 := totalAlloc()
		region.VerifDecompressCellblocks(compression.New("snappy"), exactCap(c.Raw))
		if d := totalAlloc() - a0; d > allocBudget(len(c.Raw)) {
			return viol("alloc-bomb@decompress", "decompressing a stream of %d bytes allocated %d MiB: a length declared inside the data is trusted before it is checked against the data", len(c.Raw), d>>20)
		}
		out.NonTrivial = len(c.Raw) >= 8
		return out
	}

	counts := c.NCells
	if len(counts) == 0 {
		counts = []int{1}
	}
	block, offs := c11Block(counts)
	total := len(offs)
	// cellblock-level structured mutations
	for _, m := range c.Muts {
		if total == 0 {
			break
		}
		o := offs[((m.Index%total)+total)%total]
		switch m.Field {
		case "kvlen":
			putU32(block, o.kv, m.Value)
		case "keylen":
			putU32(block, o.key, m.Value)
		case "vallen":
			putU32(block, o.val, m.Value)
		case "rowlen":
			if o.row+2 <= len(block) {
				binary.BigEndian.PutUint16(block[o.row:], uint16(m.Value))
			}
		case "famlen":
			if o.fam < len(block) {
				block[o.fam] = byte(m.Value)
			}
		case "kvwrap":
			// move m.Value from the key length to the value length (or back): the two fields
			// still add up to the key-value length modulo 2^32, but not as integers
			if o.val+4 <= len(block) {
				k := binary.BigEndian.Uint32(block[o.key:])
				v := binary.BigEndian.Uint32(block[o.val:])
				d := uint32(m.Value)
				if m.Index%2 == 0 {
					k, v = k-d, v+d
				} else {
					k, v = k+d, v-d
				}
				binary.BigEndian.PutUint32(block[o.key:], k)
				binary.BigEndian.PutUint32(block[o.val:], v)
			}
		case "cbflip":
			if len(block) > 0 {
				block[((m.Pos%len(block))+len(block))%len(block)] = byte(m.Value)
			}
		case "cbtrunc":
			if len(block) > 0 {
				block = block[:((m.Pos%len(block))+len(block))%len(block)]
			}
		case "cbcut":
			// cut 0..5 bytes into a cell: where a length prefix is expected there are fewer than 4 bytes
			if len(offs) > 0 {
				at := offs[((m.Index%len(offs))+len(offs))%len(offs)].kv + m.Pos%6
				if at < len(block) {
					block = block[:at]
				}
			}
		case "cbextra":
			// 1..3 stray bytes behind the last cell
			block = append(block, []byte{0, 0, 1}[:1+m.Pos%3]...)
		}
	}
	ctx := context.Background()
	reg := region.NewInfo(1, nil, []byte("t"), []byte("t,,1"), nil, nil)
	mkGet := func() hrpc.Call {
		g, _ := hrpc.NewGet(ctx, []byte("t"), []byte("r"))
		g.SetRegion(reg)
		return g
	}
	mkPut := func() hrpc.Call {
		p, _ := hrpc.NewApp(ctx, []byte("t"), []byte("r"), map[string]map[string][]byte{"f": {"q": []byte("v")}})
		p.SetRegion(reg)
		return p
	}
	i32 := func(v int64) *int32 { x := int32(v); return &x }

	// direct decoder targets
	if c.Target == "cb-get" || c.Target == "cb-mutate" || c.Target == "cb-scan" {
		stage = "DeserializeCellBlocks(" + c.Target + ")"
		in := exactCap(block)
		switch c.Target {
		case "cb-get":
			resp := &pb.GetResponse{Result: &pb.Result{AssociatedCellCount: i32(int64(counts[0]))}}
			c11ApplyCount(c.Muts, func(v int64) { resp.Result.AssociatedCellCount = i32(v) })
			mkGet().(*hrpc.Get).DeserializeCellBlocks(resp, in)
		case "cb-mutate":
			resp := &pb.MutateResponse{Result: &pb.Result{AssociatedCellCount: i32(int64(counts[0]))}}
			c11ApplyCount(c.Muts, func(v int64) { resp.Result.AssociatedCellCount = i32(v) })
			mkPut().(*hrpc.Mutate).DeserializeCellBlocks(resp, in)
		case "cb-scan":
			resp := c11ScanResp(counts, c.Muts)
			s, _ := hrpc.NewScan(ctx, []byte("t"))
			s.DeserializeCellBlocks(resp, in)
		}
		out.NonTrivial = true
		out.Labels = append(out.Labels, "target_"+c.Target)
		return out
	}

	// frames through the connection reader
	stage = "receive(" + c.Target + ")"
	var calls []hrpc.Call
	var msg proto.Message
	asMulti := false
	switch c.Target {
	case "rx-get":
		calls = []hrpc.Call{mkGet()}
		r := &pb.GetResponse{Result: &pb.Result{AssociatedCellCount: i32(int64(counts[0]))}}
		c11ApplyCount(c.Muts, func(v int64) { r.Result.AssociatedCellCount = i32(v) })
		msg = r
	case "rx-mutate":
		calls = []hrpc.Call{mkPut()}
		r := &pb.MutateResponse{Result: &pb.Result{AssociatedCellCount: i32(int64(counts[0]))}}
		c11ApplyCount(c.Muts, func(v int64) { r.Result.AssociatedCellCount = i32(v) })
		msg = r
	case "rx-scan":
		s, _ := hrpc.NewScan(ctx, []byte("t"))
		s.SetRegion(reg)
		calls = []hrpc.Call{s}
		msg = c11ScanResp(counts, c.Muts)
	default: // rx-multi
		asMulti = true
		reg2 := region.NewInfo(2, nil, []byte("t"), []byte("t,m,2"), []byte("m"), nil)
		mr := &pb.MultiResponse{}
		rars := []*pb.RegionActionResult{{}, {}}
		expired := map[int]bool{}
		for _, e := range c.Expired {
			expired[e] = true
		}
		abandoned := map[int]bool{}
		for _, e := range c.Abandoned {
			abandoned[e] = true
		}
		for i, n := range counts {
			var call hrpc.Call
			cctx := ctx
			if expired[i] {
				dead, cancel := context.WithCancel(ctx)
				cancel()
				cctx = dead
			} else if abandoned[i] {
				actx, cancel := context.WithCancel(ctx)
				abandon = append(abandon, cancel)
				cctx = actx
			}
			if i%2 == 0 {
				g, _ := hrpc.NewGet(cctx, []byte("t"), []byte("r"))
				g.SetRegion(reg)
				call = g
			} else {
				p, _ := hrpc.NewApp(cctx, []byte("t"), []byte("r"), map[string]map[string][]byte{"f": {"q": []byte("v")}})
				p.SetRegion(reg)
				call = p
			}
			if i%3 == 2 {
				call.SetRegion(reg2)
			}
			calls = append(calls, call)
			idx := uint32(i + 1)
			roe := &pb.ResultOrException{Index: &idx, Result: &pb.Result{AssociatedCellCount: i32(int64(n))}}
			if i%3 == 2 {
				rars[1].ResultOrException = append(rars[1].ResultOrException, roe)
			} else {
				rars[0].ResultOrException = append(rars[0].ResultOrException, roe)
			}
		}
		mr.RegionActionResult = rars
		c11MutateMulti(mr, c.Muts)
		msg = mr
	}
	cb := block
	var codec compression.Codec
	if c.Snappy {
		codec = compression.New("snappy")
		if len(cb) > 0 {
			cb = wire.WriteBlocks(cb, []int{len(cb)}, func(rem int) int { return rem })
			for _, m := range c.Muts {
				switch m.Field {
				case "blocklen":
					putU32(cb, 0, m.Value)
				case "chunklen":
					putU32(cb, 4, m.Value)
				}
			}
		}
	}
	if c.Snappy {
		// a declared block length above 2 MiB only costs memory and time (resource
		// exhaustion is outside the statement): counted and skipped
		if _, st, _ := wire.ReadBlocks(cb); st.MaxDeclaredBlock > 2<<20 {
			out.Labels = append(out.Labels, "declares_oversized_block")
		}
	}
	callID := uint32(7)
	h := &pb.ResponseHeader{CallId: &callID}
	if len(cb) > 0 {
		l := uint32(len(cb))
		h.CellBlockMeta = &pb.CellBlockMeta{Length: &l}
	}
	dropMsg := false
	for _, m := range c.Muts {
		switch m.Field {
		case "cbmeta":
			l := uint32(m.Value)
			h.CellBlockMeta = &pb.CellBlockMeta{Length: &l}
		case "callid":
			if m.Value == -1 {
				h.CallId = nil
			} else {
				x := uint32(m.Value)
				h.CallId = &x
			}
		case "exc":
			h.Exception = &pb.ExceptionResponse{}
			if m.Value&1 == 1 {
				h.Exception.ExceptionClassName = proto.String(sim_NSRE)
			}
			if m.Value&2 == 2 {
				h.Exception.StackTrace = proto.String("trace")
			}
		case "nomsg":
			dropMsg = true
		}
	}
	if dropMsg {
		msg = nil
	}
	frame := wire.BuildRawResponse(h, msg, cb)
	for _, m := range c.Muts {
		switch m.Field {
		case "flip":
			if len(frame) > 4 {
				frame[4+((m.Pos%(len(frame)-4))+(len(frame)-4))%(len(frame)-4)] = byte(m.Value)
			}
		case "trunc":
			if len(frame) > 0 {
				frame = frame[:((m.Pos%len(frame))+len(frame))%len(frame)]
			}
		case "sizefield":
			v := uint32(m.Value)
			if v > 1<<20 && v < 1<<31 {
				// the statement bounds frames at 1 MiB. (2^31 and more is not a size at all - HBase's frame
				// length is a signed 32-bit integer - and stays as it is: it has to be refused, not reserved)
				v = 1 << 20
			}
			putU32(frame, 0, int64(v))
		}
	}
	if c.Snappy {
		// the frame-level mutations (byte flips, truncation) may have produced another block length: same
		// exclusion as above, on the bytes the reader will actually hand to the decompressor
		if tail := c11CellblockOf(frame); len(tail) > 0 {
			if _, st, _ := wire.ReadBlocks(tail); st.MaxDeclaredBlock > 2<<20 {
				out.Labels = append(out.Labels, "declares_oversized_block")
			}
		}
	}
	if c.UseRaw {
		codec = nil
		frame = append([]byte(nil), c.Raw...)
		if len(frame) >= 4 && binary.BigEndian.Uint32(frame) > 1<<20 && binary.BigEndian.Uint32(frame) < 1<<31 {
			binary.BigEndian.PutUint32(frame, 1<<20)
		}
	}
	// drain result channels the way waiting callers would
	var mu sync.Mutex
	got := make([]int, len(calls))
	stop := make(chan struct{})
	var wg sync.WaitGroup
	for i, call := range calls {
		wg.Add(1)
		go func(i int, call hrpc.Call) {
			defer wg.Done()
			for {
				select {
				case <-call.ResultChan():
					mu.Lock()
					got[i]++
					mu.Unlock()
				case <-stop:
					return
				}
			}
		}(i, call)
	}
	doneCh := make(chan region.VerifReceiveResult, 1)
	alloc0 := totalAlloc()
	go func() {
		doneCh <- region.VerifReceiveAfter(calls, asMulti, codec, 7, frame, func() {
			for _, cancel := range abandon {
				cancel()
			}
		})
	}()
	var res region.VerifReceiveResult
	select {
	case res = <-doneCh:
	case <-time.After(20 * time.Second):
		// slow (a loaded machine) or stuck? only a goroutine that keeps running is a finding
		if spin, stack := spinning("region.VerifReceiveAfter", 40); spin {
			close(stop)
			return viol("receive-does-not-terminate", "receive did not return within 20s on a %d byte frame and keeps running:\n%s", len(frame), stack)
		}
		select {
		case res = <-doneCh:
		case <-time.After(5 * time.Minute):
			close(stop)
			out.Labels = append(out.Labels, "inconclusive_receive_slow")
			return out
		}
	}
	if d := totalAlloc() - alloc0; d > allocBudget(len(frame)) {
		close(stop)
		return viol("alloc-bomb@receive", "receiving a frame of %d bytes (snappy=%v) allocated %d MiB: a length declared inside the data is trusted before it is checked against the data", len(frame), codec != nil, d>>20)
	}
	// give drainers a moment to pick up buffered results
	for i := 0; i < 100; i++ {
		pending := false
		for _, call := range calls {
			if len(call.ResultChan()) > 0 {
				pending = true
			}
		}
		if !pending {
			break
		}
		time.Sleep(100 * time.Microsecond)
	}
	close(stop)
	wg.Wait()
	if res.Panic != nil {
		return viol("panic@"+topFrame(res.Stack), "panic in receive (%s): %v\n%s", c.Target, res.Panic, truncStr(res.Stack, 2500))
	}
	depth := "header"
	_, isServerErr := res.Err.(region.ServerError)
	if !isServerErr {
		depth = "dispatched"
		// the frame was accepted as the response to our call: every addressed call must
		// have been told something
		if res.Leftover == 0 {
			skip := map[int]bool{}
			if asMulti {
				for _, e := range c.Expired {
					skip[e] = true
				}
				for _, e := range c.Abandoned {
					skip[e] = true
				}
			}
			for i := range calls {
				if got[i] == 0 && !skip[i] {
					return viol("call-left-without-result", "%s: the frame was consumed as the response to call id 7 (receive returned %v) but call %d of %d got neither a result nor an error", c.Target, res.Err, i, len(calls))
				}
			}
		}
	}
	out.NonTrivial = depth == "dispatched"
	out.Labels = append(out.Labels, "target_"+c.Target, "depth_"+depth)
	if res.Err == nil {
		out.Labels = append(out.Labels, "accepted")
	}
	return out
}

const sim_NSRE = "org.apache.hadoop.hbase.NotServingRegionException"

func truncStr(s string, n int) string {
	if len(s) > n {
		return s[:n]
	}
	return s
}

func c11ApplyCount(muts []c11Mut, set func(int64)) {
	for _, m := range muts {
		if m.Field == "assoc" {
			set(m.Value)
		}
	}
}

func c11ScanResp(counts []int, muts []c11Mut) *pb.ScanResponse {
	resp := &pb.ScanResponse{}
	for i, n := range counts {
		resp.CellsPerResult = append(resp.CellsPerResult, uint32(n))
		resp.PartialFlagPerResult = append(resp.PartialFlagPerResult, i%2 == 1)
	}
	for _, m := range muts {
		switch m.Field {
		case "cpr":
			if len(resp.CellsPerResult) > 0 {
				resp.CellsPerResult[((m.Index%len(resp.CellsPerResult))+len(resp.CellsPerResult))%len(resp.CellsPerResult)] = uint32(m.Value)
			}
		case "cpr-add":
			resp.CellsPerResult = append(resp.CellsPerResult, uint32(m.Value))
		case "cpr-del":
			if len(resp.CellsPerResult) > 0 {
				resp.CellsPerResult = resp.CellsPerResult[1:]
			}
		case "pfr-add":
			resp.PartialFlagPerResult = append(resp.PartialFlagPerResult, true)
		case "pfr-del":
			if len(resp.PartialFlagPerResult) > 0 {
				resp.PartialFlagPerResult = resp.PartialFlagPerResult[1:]
			}
		}
	}
	return resp
}

func c11MutateMulti(mr *pb.MultiResponse, muts []c11Mut) {
	var roes []*pb.ResultOrException
	for _, rar := range mr.RegionActionResult {
		roes = append(roes, rar.ResultOrException...)
	}
	pick := func(i int) *pb.ResultOrException {
		if len(roes) == 0 {
			return nil
		}
		return roes[((i%len(roes))+len(roes))%len(roes)]
	}
	for _, m := range muts {
		switch m.Field {
		case "mindex":
			if r := pick(m.Index); r != nil {
				v := uint32(m.Value)
				r.Index = &v
			}
		case "mnoindex":
			if r := pick(m.Index); r != nil {
				r.Index = nil
			}
		case "mneither":
			if r := pick(m.Index); r != nil {
				r.Result = nil
			}
		case "mboth":
			if r := pick(m.Index); r != nil {
				r.Exception = &pb.NameBytesPair{Name: proto.String("x.Y"), Value: []byte("z")}
			}
		case "mexc":
			if r := pick(m.Index); r != nil {
				r.Result = nil
				r.Exception = &pb.NameBytesPair{Value: []byte("no name")}
				if m.Value&1 == 1 {
					r.Exception.Name = proto.String("x.Y")
				}
			}
		case "massoc":
			if r := pick(m.Index); r != nil && r.Result != nil {
				v := int32(m.Value)
				r.Result.AssociatedCellCount = &v
			}
		case "mregions":
			extra := &pb.RegionActionResult{}
			if m.Value&1 == 1 {
				extra.Exception = &pb.NameBytesPair{Name: proto.String(sim_NSRE), Value: []byte("x")}
			}
			if m.Value&2 == 2 {
				extra.Exception = &pb.NameBytesPair{Value: []byte("no name")}
			}
			if m.Value&4 == 4 {
				idx := uint32(1)
				extra.ResultOrException = append(extra.ResultOrException, &pb.ResultOrException{Index: &idx, Result: &pb.Result{}})
			}
			mr.RegionActionResult = append(mr.RegionActionResult, extra)
		case "mregionexc":
			if len(mr.RegionActionResult) > 0 {
				rar := mr.RegionActionResult[((m.Index%len(mr.RegionActionResult))+len(mr.RegionActionResult))%len(mr.RegionActionResult)]
				rar.Exception = &pb.NameBytesPair{Value: []byte("region exception")}
				if m.Value&1 == 1 {
					rar.Exception.Name = proto.String(sim_NSRE)
				}
				if m.Value&2 == 2 {
					rar.ResultOrException = nil
				}
			}
		case "mdup":
			if len(mr.RegionActionResult) > 0 && len(roes) > 0 {
				mr.RegionActionResult[0].ResultOrException = append(mr.RegionActionResult[0].ResultOrException, pick(m.Index))
			}
		case "mdrop":
			for _, rar := range mr.RegionActionResult {
				if len(rar.ResultOrException) > 0 {
					rar.ResultOrException = rar.ResultOrException[1:]
					break
				}
			}
		}
	}
}

var c11CellFields = []string{"kvlen", "keylen", "vallen", "rowlen", "famlen", "cbflip", "cbtrunc", "cbcut", "cbcut", "cbextra", "kvwrap", "kvwrap"}
var c11FrameFields = []string{"cbmeta", "callid", "exc", "nomsg", "flip", "trunc", "sizefield", "blocklen", "chunklen", "assoc"}
var c11ScanFields = []string{"cpr", "cpr-add", "cpr-del", "pfr-add", "pfr-del"}
var c11MultiFields = []string{"mindex", "mnoindex", "mneither", "mboth", "mexc", "massoc", "mregions", "mregionexc", "mdup", "mdrop"}

func c11Gen(t *rapid.T) c11Case {
	var c c11Case
	c.Target = rapid.SampledFrom([]string{"cb-get", "cb-mutate", "cb-scan", "rx-get", "rx-mutate", "rx-scan", "rx-scan", "rx-multi", "rx-multi", "rx-multi", "regioninfo", "decompress"}).Draw(t, "target")
	switch c.Target {
	case "regioninfo":
		ri := &pb.RegionInfo{RegionId: proto.Uint64(5), TableName: &pb.TableName{Namespace: []byte("default"), Qualifier: []byte("t")}}
		b, _ := proto.Marshal(ri)
		valid := append([]byte("PBUF"), b...)
		switch rapid.IntRange(0, 4).Draw(t, "rikind") {
		case 0:
			c.Raw = valid[:rapid.IntRange(0, len(valid)).Draw(t, "cut")]
		case 1:
			c.Raw = evid.B(rapid.SliceOfN(rapid.Byte(), 0, 12).Draw(t, "raw"))
			if len(c.Raw) > 0 && rapid.Bool().Draw(t, "p") {
				c.Raw[0] = 'P'
			}
		case 2:
			// PBUF + a RegionInfo without table name
			b2, _ := proto.Marshal(&pb.RegionInfo{RegionId: proto.Uint64(5)})
			c.Raw = append([]byte("PBUF"), b2...)
		default:
			v := append([]byte(nil), valid...)
			v[rapid.IntRange(0, len(v)-1).Draw(t, "pos")] = rapid.Byte().Draw(t, "b")
			c.Raw = v
		}
		return c
	case "decompress":
		base := wire.WriteBlocks([]byte("hello hello hello hello hello"), []int{10, 29}, func(r int) int { return 7 })
		v := append([]byte(nil), base...)
		n := rapid.IntRange(0, 3).Draw(t, "nmut")
		for i := 0; i < n; i++ {
			pos := rapid.IntRange(0, len(v)-1).Draw(t, "pos")
			if rapid.Bool().Draw(t, "len4") && pos+4 <= len(v) {
				binary.BigEndian.PutUint32(v[pos:], uint32(rapid.SampledFrom(hostile).Draw(t, "hv")))
			} else {
				v[pos] = rapid.Byte().Draw(t, "b")
			}
		}
		if rapid.IntRange(0, 3).Draw(t, "cut") == 0 {
			v = v[:rapid.IntRange(0, len(v)).Draw(t, "cutat")]
		}
		c.Raw = v
		return c
	}
	nres := 1
	if c.Target == "cb-scan" || c.Target == "rx-scan" || c.Target == "rx-multi" {
		nres = rapid.IntRange(0, 5).Draw(t, "nres")
	}
	for i := 0; i < nres; i++ {
		c.NCells = append(c.NCells, rapid.IntRange(0, 3).Draw(t, "ncells"))
	}
	c.Snappy = (c.Target[:2] == "rx") && rapid.IntRange(0, 3).Draw(t, "snappy") == 0
	if c.Target == "rx-multi" && nres > 0 && rapid.IntRange(0, 2).Draw(t, "expired") == 0 {
		ne := rapid.IntRange(1, 2).Draw(t, "nexpired")
		for i := 0; i < ne; i++ {
			c.Expired = append(c.Expired, rapid.IntRange(0, nres-1).Draw(t, "expiredidx"))
		}
	}
	if c.Target == "rx-multi" && nres > 0 && rapid.IntRange(0, 2).Draw(t, "abandoned") == 0 {
		na := rapid.IntRange(1, 2).Draw(t, "nabandoned")
		for i := 0; i < na; i++ {
			c.Abandoned = append(c.Abandoned, rapid.IntRange(0, nres-1).Draw(t, "abandonedidx"))
		}
	}
	if c.Target[:2] == "rx" && rapid.IntRange(0, 19).Draw(t, "raw") == 0 {
		c.UseRaw = true
		c.Raw = evid.B(rapid.SliceOfN(rapid.Byte(), 0, 40).Draw(t, "rawframe"))
		return c
	}
	fields := append([]string(nil), c11CellFields...)
	fields = append(fields, "assoc")
	if c.Target[:2] == "rx" {
		fields = append(fields, c11FrameFields...)
	}
	if c.Target == "cb-scan" || c.Target == "rx-scan" {
		fields = append(fields, c11ScanFields...)
		fields = append(fields, c11ScanFields...)
	}
	if c.Target == "rx-multi" {
		fields = append(fields, c11MultiFields...)
		fields = append(fields, c11MultiFields...)
	}
	nm := rapid.IntRange(0, 3).Draw(t, "nmuts")
	for i := 0; i < nm; i++ {
		m := c11Mut{Field: rapid.SampledFrom(fields).Draw(t, "field"), Index: rapid.IntRange(0, 8).Draw(t, "index"),
			Pos: rapid.IntRange(0, 4096).Draw(t, "pos")}
		if rapid.IntRange(0, 3).Draw(t, "hostile") > 0 {
			m.Value = rapid.SampledFrom(hostile).Draw(t, "hv")
		} else {
			m.Value = int64(rapid.IntRange(0, 300).Draw(t, "v"))
		}
		switch m.Field {
		case "mexc", "mregionexc", "exc":
			// the value is a set of flags here (which optional parts of the exception are present)
			m.Value = int64(rapid.IntRange(0, 3).Draw(t, "flags"))
		}
		c.Muts = append(c.Muts, m)
	}
	return c
}

func TestC11_Malformed(t *testing.T) {
	rec := evid.New("C11", "TestC11_Malformed",
		"rapid, structure-aware: a VALID response (get / mutate / scan / multi over two regions; 0..5 results with "+
			"0..3 cells; cellblocks plain or snappy) is built with the independent encoder and then damaged by 0..3 drawn "+
			"mutations: any KeyValue length field (total, key, value, row, family) or count (associated_cell_count, "+
			"cells_per_result vs partial_flag_per_result, cell_block_meta.length, block/chunk lengths) set to hostile "+
			"constants (0, 1, 0x7fffffff, 0xffffffff, -1 ...), multi result index / missing / duplicate / extra region "+
			"results, exceptions without class name or stack trace, absent call id or message, byte flips, truncation, "+
			"wrong frame size (declared sizes between 1 MiB and 2^31 are brought down to the 1 MiB of the statement; 2^31 and more - not a size in HBase's framing - is left as it is); plus raw byte frames, region-info cell values and compressed streams. Targets: the "+
			"DeserializeCellBlocks methods, one step of the connection reader (hook VerifReceive) with the call(s) "+
			"registered as outstanding, region.ParseRegionInfo, the block decompressor. Buffers have cap == len so that "+
			"any read outside the received data panics. Oracle: no panic, terminates, and a frame consumed as the "+
			"response to a call leaves none of the addressed calls without result or error. Non-trivial = the input got "+
			"past the frame header into call-specific decoding; distinct by case hash")
	Drive(t, rec, true, c11Gen, c11Run)
}

// FuzzC11Receive feeds raw frames to the connection reader with a get, a scan
// and a multi outstanding.
func FuzzC11Receive(f *testing.F) {
	block, _ := c11Block([]int{2})
	id := uint32(7)
	l := uint32(len(block))
	n := int32(2)
	f.Add(byte(0), wire.BuildRawResponse(&pb.ResponseHeader{CallId: &id, CellBlockMeta: &pb.CellBlockMeta{Length: &l}},
		&pb.GetResponse{Result: &pb.Result{AssociatedCellCount: &n}}, block))
	f.Add(byte(1), wire.BuildRawResponse(&pb.ResponseHeader{CallId: &id, CellBlockMeta: &pb.CellBlockMeta{Length: &l}},
		&pb.ScanResponse{CellsPerResult: []uint32{2}, PartialFlagPerResult: []bool{false}}, block))
	one := uint32(1)
	f.Add(byte(2), wire.BuildRawResponse(&pb.ResponseHeader{CallId: &id, CellBlockMeta: &pb.CellBlockMeta{Length: &l}},
		&pb.MultiResponse{RegionActionResult: []*pb.RegionActionResult{{ResultOrException: []*pb.ResultOrException{{Index: &one, Result: &pb.Result{AssociatedCellCount: &n}}}}}}, block))
	f.Add(byte(0), wire.BuildRawResponse(&pb.ResponseHeader{CallId: &id, Exception: &pb.ExceptionResponse{}}, nil, nil))
	f.Fuzz(func(t *testing.T, kind byte, frame []byte) {
		if len(frame) >= 4 && binary.BigEndian.Uint32(frame) > 1<<20 && binary.BigEndian.Uint32(frame) < 1<<31 {
			binary.BigEndian.PutUint32(frame, 1<<20)
		}
		target := []string{"rx-get", "rx-scan", "rx-multi", "rx-mutate"}[int(kind)%4]
		c := c11Case{Target: target, NCells: []int{2, 1, 0}, UseRaw: true, Raw: frame}
		if out := c11Run(c); out.Sig != "" {
			t.Fatalf("VERIFSIG=%s %s", out.Sig, out.Msg)
		}
	})
}

// FuzzC11CellBlock feeds raw cellblocks to the three decoders.
func FuzzC11CellBlock(f *testing.F) {
	block, _ := c11Block([]int{2})
	f.Add(byte(0), int32(2), block)
	f.Add(byte(1), int32(-1), block)
	f.Add(byte(2), int32(0x7fffffff), []byte{0, 0, 0, 1, 0})
	f.Add(byte(0), int32(1), []byte{0, 0, 0, 9, 0, 0, 0, 0, 0, 0, 0, 0, 0})
	f.Fuzz(func(t *testing.T, kind byte, count int32, b []byte) {
		defer func() {
			if p := recover(); p != nil {
				t.Fatalf("VERIFSIG=panic@%s %v", topFrame(string(debug.Stack())), p)
			}
		}()
		if count > 1<<20 || count < -1 {
			count = count % (1 << 20)
		}
		in := exactCap(b)
		ctx := context.Background()
		switch kind % 3 {
		case 0:
			g, _ := hrpc.NewGet(ctx, []byte("t"), []byte("r"))
			g.DeserializeCellBlocks(&pb.GetResponse{Result: &pb.Result{AssociatedCellCount: &count}}, in)
		case 1:
			m, _ := hrpc.NewPut(ctx, []byte("t"), []byte("r"), nil)
			m.DeserializeCellBlocks(&pb.MutateResponse{Result: &pb.Result{AssociatedCellCount: &count}}, in)
		case 2:
			s, _ := hrpc.NewScan(ctx, []byte("t"))
			s.DeserializeCellBlocks(&pb.ScanResponse{CellsPerResult: []uint32{uint32(count), 1}, PartialFlagPerResult: []bool{true, false}}, in)
		}
	})
}

// ---- client-level decoders: what the callers' own goroutines do with bytes from the servers

type c11cCase struct {
	// Kind: "increment" (the value of the returned cell has IncLen bytes) | "scan" (a C06 scan whose
	// server also sends zero-cell partial results ahead of a row's first fragment)
	Kind   string   `json:"kind"`
	IncLen int      `json:"inc_len,omitempty"`
	Batch  bool     `json:"batch,omitempty"`
	Scan   scanCase `json:"scan,omitempty"`
	// Kind "metacorrupt": a region that is in use has to be looked up again (it answers NotServingRegion
	// once) and the next len(Infos) hbase:meta answers carry these bytes as its info:regioninfo value
	Infos []evid.B `json:"infos,omitempty"`
	// Kind "metarow": as metacorrupt, but what is malformed is the row key (the region's name) and/or the
	// info:server value of the next len(Rows) hbase:meta answers; Cold: the cache is empty (the malformed row
	// is what the caller's own first lookup reads), otherwise it is read by a re-establisher
	Rows []c11MetaRow `json:"rows,omitempty"`
	Cold bool         `json:"cold,omitempty"`
	// CacheRegions: the malformed answers are (also) what a whole-table lookup (Client.CacheRegions) reads
	CacheRegions bool `json:"cache_regions,omitempty"`
	// TableLens (kind metacorrupt): additional info:regioninfo values that are well-formed region infos of the
	// right range naming a table of that many bytes ('x' repeated; 1 = the wrong table "x")
	TableLens []int `json:"table_lens,omitempty"`
	// Ranges (kind metacorrupt): additional info:regioninfo values that are well-formed region infos of table t
	// whose start/stop key (and id) need not be those of the row they are served in - the region's name says
	// one start key, its info another
	Ranges []c11Range `json:"ranges,omitempty"`
	// Final: what the caller does after the malformed answers: "" = a get, "scan" / "rscan" = a whole-table
	// scan (forward / reversed from "z") which has to end - rows or an error - after a bounded number of rows
	Final string `json:"final,omitempty"`
	// Key2: a further get, for this row, after the final operation (a row whose search key may be the very name
	// a malformed row got into the cache under)
	Key2 evid.B `json:"key2,omitempty"`
	// Key2Early: that get is issued 1 ms after the final operation has started, while the cache still holds
	// what the malformed answers put there (a region that does not exist is found out by its probe, and replaced)
	Key2Early bool `json:"key2_early,omitempty"`
}

type c11Range struct {
	Start evid.B `json:"start"`
	Stop  evid.B `json:"stop"`
	ID    uint64 `json:"id"`
}

type c11MetaRow struct {
	HasKey    bool   `json:"has_key,omitempty"`
	RowKey    evid.B `json:"row_key,omitempty"`
	HasServer bool   `json:"has_server,omitempty"`
	Server    evid.B `json:"server,omitempty"`
	// HasStop: the stop key in the rows' region infos is replaced (shorter, longer, below the start key)
	HasStop bool   `json:"has_stop,omitempty"`
	Stop    evid.B `json:"stop,omitempty"`
}

func c11cRun(c c11cCase) (out Outcome) {
	if c.Kind == "scan" {
		o := scanRun(c.Scan)
		if o.Sig != "" {
			o.Sig = "client-decoder:" + o.Sig
		}
		o.NonTrivial = true
		if c.Scan.Spec.EmptyFirst {
			o.Labels = append(o.Labels, "scan_with_leading_empty_partials")
		}
		if c.Scan.Spec.UnaskedMetrics {
			o.Labels = append(o.Labels, "scan_with_unasked_metrics")
		}
		return o
	}
	var o Outcome
	run := c11cIncInBubble
	if c.Kind == "metacorrupt" || c.Kind == "metarow" {
		run = c11cMetaInBubble
	}
	res := inBubble(theT, func() { o = run(c) })
	if so, stuck := stuckVerdict(res); stuck {
		return so
	}
	if res.Panic != "" {
		what := fmt.Sprintf("an increment answered with a %d-byte value", c.IncLen)
		if c.Kind != "increment" {
			what = fmt.Sprintf("hbase:meta serving %d malformed row(s) (kind %s, cold cache: %v)", len(c.Infos)+len(c.Rows), c.Kind, c.Cold)
		}
		return viol("panic@"+topFrame(res.Stack), "%s: %s\n%s", what, res.Panic, res.Stack)
	}
	return o
}

func c11cIncInBubble(c c11cCase) (out Outcome) {
	l := layoutSpec{Table: "t", NServers: 1}
	cl := l.build()
	cl.IncValue = bytes.Repeat([]byte{0x01}, c.IncLen)
	client := newSimClient(cl)
	defer func() {
		client.Close()
		drainClient()
		cl.Stop()
	}()
	var v int64
	var err error
	func() {
		defer func() {
			if p := recover(); p != nil {
				buf := make([]byte, 1<<14)
				out = viol("panic@"+topFrame(string(buf[:runtime.Stack(buf, false)])), "Increment answered with a %d-byte counter value panicked in the caller's goroutine: %v", c.IncLen, p)
			}
		}()
		call, _ := hrpc.NewIncSingle(context.Background(), []byte("t"), []byte("row"), "f", "mkinc", 1)
		v, err = client.Increment(call)
	}()
	if out.Sig != "" {
		return out
	}
	if c.IncLen == 8 {
		if err != nil || v != 0x0101010101010101 {
			return viol("increment-wrong", "a well-formed increment answer returned (%d, %v)", v, err)
		}
	} else if err == nil {
		return viol("malformed-accepted", "an increment answered with a %d-byte value returned %d without an error", c.IncLen, v)
	}
	out.NonTrivial = c.IncLen != 8
	out.Labels = append(out.Labels, "increment_value_len")
	return out
}

func c11cMetaInBubble(c c11cCase) (out Outcome) {
	// (two regions: a whole-table lookup reads rows of regions the cache does not know yet)
	l := layoutSpec{Table: "t", NServers: 2, Bounds: []evid.B{evid.B("m")}}
	cl := l.build()
	var scanRows []sim.ScanRow
	for _, k := range []string{"a", "b", "c", "d", "n", "o", "row", "s"} {
		scanRows = append(scanRows, sim.ScanRow{Key: []byte(k), Cells: 1})
	}
	cl.ScanHandler = sim.NewScanServer(scanRows, nil).Handle
	client := newSimClient(cl)
	bubbleDebug = func() string { return cl.RecentExecs(40) }
	defer func() {
		client.Close()
		drainClient()
		cl.Stop()
	}()
	if !c.Cold {
		if err, cerr := doOp(client, context.Background(), "t", opSpec{Kind: "get", Key: evid.B("row"), Marker: "mkfirst"}); err != nil || cerr != nil {
			return viol("harness", "first get: %v %v", err, cerr)
		}
	}
	cl.Lock()
	for _, r := range cl.Regions {
		if r.Table == "t" && !c.Cold {
			r.Transient = append(r.Transient, sim.Exc{Class: sim.NSRE})
		}
	}
	for _, b := range c.Infos {
		cl.MetaCorrupt = append(cl.MetaCorrupt, append([]byte{}, b...))
	}
	for _, n := range c.TableLens {
		ri := &pb.RegionInfo{RegionId: proto.Uint64(1000), TableName: &pb.TableName{Namespace: []byte("default"), Qualifier: bytes.Repeat([]byte{'x'}, n)},
			Offline: proto.Bool(false), Split: proto.Bool(false)}
		b, _ := proto.Marshal(ri)
		cl.MetaCorrupt = append(cl.MetaCorrupt, append([]byte("PBUF"), b...))
	}
	for _, rg := range c.Ranges {
		ri := &pb.RegionInfo{RegionId: proto.Uint64(rg.ID), TableName: &pb.TableName{Namespace: []byte("default"), Qualifier: []byte("t")},
			StartKey: rg.Start, EndKey: rg.Stop, Offline: proto.Bool(false), Split: proto.Bool(false)}
		b, _ := proto.Marshal(ri)
		cl.MetaCorrupt = append(cl.MetaCorrupt, append([]byte("PBUF"), b...))
	}
	for _, r := range c.Rows {
		var e sim.MetaRowEdit
		if r.HasKey {
			e.RowKey = append([]byte{}, r.RowKey...)
		}
		if r.HasServer {
			e.Server = append([]byte{}, r.Server...)
		}
		if r.HasStop {
			e.Stop = append([]byte{}, r.Stop...)
		}
		cl.MetaRowEdit = append(cl.MetaRowEdit, e)
	}
	cl.Unlock()
	ctx, cancel := context.WithTimeout(context.Background(), 10*time.Minute)
	defer cancel()
	if c.CacheRegions {
		// (it has no context: it ends with the regions, with TableNotFound, or when the client is closed)
		crDone := make(chan error, 1)
		go func() { crDone <- client.CacheRegions([]byte("t")) }()
		select {
		case <-crDone:
		case <-time.After(10 * time.Minute):
			return viol("lookup-never-recovers", "CacheRegions was still running 10 virtual minutes after hbase:meta started serving sane rows again")
		}
		out.Labels = append(out.Labels, "via_CacheRegions")
	}
	// (a panic of a background goroutine of the client ends the process: the driver turns that into a
	// finding from the journal)
	var early chan Outcome
	if len(c.Key2) > 0 && c.Key2Early {
		early = make(chan Outcome, 1)
		go func() {
			var eo Outcome
			defer func() {
				if p := recover(); p != nil {
					buf := make([]byte, 1<<14)
					eo = viol("panic@"+topFrame(string(buf[:runtime.Stack(buf, false)])), "a get for row %q issued while hbase:meta's malformed answers were being digested panicked in the caller's goroutine: %v", c.Key2, p)
				}
				early <- eo
			}()
			time.Sleep(time.Millisecond)
			ctx2, cancel2 := context.WithTimeout(context.Background(), 10*time.Minute)
			defer cancel2()
			err2, cerr2 := doOp(client, ctx2, "t", opSpec{Kind: "get", Key: c.Key2, Marker: "mkearly"})
			if cerr2 != nil {
				eo = viol("foreign-response", "%v", cerr2)
			} else if errors.Is(err2, context.DeadlineExceeded) {
				eo = viol("lookup-never-recovers", "a concurrent get for row %q was still failing 10 virtual minutes later: %v", c.Key2, err2)
			}
		}()
		defer func() {
			if eo := <-early; eo.Sig != "" && out.Sig == "" {
				out = eo
			}
		}()
	}
	var err, cerr error
	if c.Final == "" {
		err, cerr = doOp(client, ctx, "t", opSpec{Kind: "get", Key: evid.B("row"), Marker: "mksecond"})
	} else {
		var sopts []func(hrpc.Call) error
		start, stop := "", ""
		if c.Final == "rscan" {
			sopts = append(sopts, hrpc.Reversed())
			start = "z"
		}
		scan, _ := hrpc.NewScanRangeStr(ctx, "t", start, stop, sopts...)
		sc := client.Scan(scan)
		n := 0
		for {
			_, err = sc.Next()
			if err != nil {
				break
			}
			if n++; n > 100 {
				sc.Close()
				return viol("scan-never-ends", "a %s of a table of 8 rows had returned %d rows and no end after hbase:meta served %d region infos that contradict their rows' keys (and sane ones afterwards)", c.Final, n, len(c.Ranges))
			}
		}
		if err == io.EOF {
			err = nil
		}
		out.Labels = append(out.Labels, "final_"+c.Final)
	}
	if cerr != nil {
		return viol("foreign-response", "%v", cerr)
	}
	if err != nil {
		// an error to the caller is acceptable (C11: result or error); hanging until the deadline is not
		if errors.Is(err, context.DeadlineExceeded) {
			return viol("lookup-never-recovers", "hbase:meta served %d malformed rows and sane ones afterwards; the request was still failing 10 virtual minutes later: %v\n%s\n%s", len(c.Infos)+len(c.Rows)+len(c.Ranges), err, cl.RecentExecs(20), func() string { b, _ := gohbase.DebugState(client); return string(b) }())
		}
		out.Labels = append(out.Labels, "error_to_caller")
	}
	if len(c.Key2) > 0 && !c.Key2Early {
		ctx2, cancel2 := context.WithTimeout(context.Background(), 10*time.Minute)
		err2, cerr2 := doOp(client, ctx2, "t", opSpec{Kind: "get", Key: c.Key2, Marker: "mkthird"})
		cancel2()
		if cerr2 != nil {
			return viol("foreign-response", "%v", cerr2)
		}
		if errors.Is(err2, context.DeadlineExceeded) {
			return viol("lookup-never-recovers", "a further get for row %q was still failing 10 virtual minutes later: %v", c.Key2, err2)
		}
		out.Labels = append(out.Labels, "second_get")
	}
	out.NonTrivial = true
	switch {
	case c.Kind == "metarow" && c.Cold:
		out.Labels = append(out.Labels, "malformed_meta_row_on_first_lookup")
	case c.Kind == "metarow":
		out.Labels = append(out.Labels, "malformed_meta_row_during_reestablishment")
	default:
		out.Labels = append(out.Labels, "malformed_regioninfo_during_reestablishment")
	}
	return out
}

func TestC11_ClientDecoders(t *testing.T) {
	theT = t
	rec := evid.New("C11", "TestC11_ClientDecoders",
		"rapid: decoding that happens in the CALLER's goroutine. (a) whole client against the simulated cluster: an Increment whose "+
			"answer carries a counter cell of 0..12 bytes (8 is well-formed) - error, never a panic; (b) the real scanner against the "+
			"model server of C06 which additionally sends zero-cell partial results ahead of a row's first fragment (structurally valid, "+
			"inconsistent with the data) and/or scan metrics nobody asked for - the C06 oracle still holds and nothing panics; (c) a region in use has to be re-established and "+
			"hbase:meta serves 1..3 malformed info:regioninfo values (empty, 1..3 bytes, wrong magic, garbage protobuf, or well-formed ones naming another table / a table name of up to 70000 bytes / "+
			"start and stop keys and an id that contradict the key of the row they are served in) before sane ones, read by a request's lookup or by CacheRegions, followed by a get or a forward / reversed whole-table scan - "+
			"no goroutine of the client panics and the request recovers or fails, it does not hang, spin, or return rows without end; (d) the same with hbase:meta rows whose row key (the "+
			"region's name: empty, without its separators, equal to a lookup's search key, raw bytes) and/or info:server value is malformed while "+
			"info:regioninfo is sound, or whose region info is sound but for its stop key (shorter or longer than the start key + 17 bytes of the region probe, below the start key, raw bytes), read by a re-establisher or by the caller's own first lookup. Non-trivial = every case except the "+
			"well-formed increment; distinct by case hash")
	Drive(t, rec, true, func(t *rapid.T) c11cCase {
		switch rapid.IntRange(0, 7).Draw(t, "what") {
		case 6, 7:
			c := c11cCase{Kind: "metarow", Cold: rapid.Bool().Draw(t, "cold"), CacheRegions: rapid.IntRange(0, 2).Draw(t, "cacheregions") == 0}
			if rapid.IntRange(0, 5).Draw(t, "composite") == 0 {
				// a whole-table lookup reads region infos that are sound but for a stop key that puts the end of
				// the second region before its start; later answers give that region's range another name
				c.Cold, c.CacheRegions = true, true
				stop := evid.B(bytes.Repeat([]byte{rapid.SampledFrom([]byte{0, 'a', 'l'}).Draw(t, "cstopbyte")}, rapid.SampledFrom([]int{1, 2, 18, 40}).Draw(t, "cstoplen")))
				if rapid.IntRange(0, 3).Draw(t, "cstopm") == 0 {
					stop = evid.B("m")
				}
				c.Rows = append(c.Rows, c11MetaRow{HasStop: true, Stop: stop})
				if rapid.Bool().Draw(t, "cnoserver") {
					c.Rows = append(c.Rows, c11MetaRow{HasServer: true})
				}
				name := append(evid.B("t,m,"), rapid.SliceOfN(rapid.SampledFrom([]byte{'0', '1', '9', '.', 'x'}), 0, 4).Draw(t, "cname")...)
				r := c11MetaRow{HasKey: true, RowKey: name}
				if rapid.Bool().Draw(t, "cbadserver") {
					r.HasServer, r.Server = true, evid.B("\x01:")
				}
				c.Rows = append(c.Rows, r)
				c.Key2 = evid.B(rapid.SampledFrom([]string{"", "m,", "n"}).Draw(t, "ckey2"))
				return c
			}
			n := rapid.IntRange(1, 3).Draw(t, "nrows")
			for i := 0; i < n; i++ {
				var r c11MetaRow
				what := rapid.IntRange(0, 4).Draw(t, "edit")
				if what == 4 {
					// a sound row but for the stop key of its region info
					r.HasStop = true
					switch rapid.IntRange(0, 4).Draw(t, "stopshape") {
					case 0:
						r.Stop = evid.B{}
					case 1:
						r.Stop = evid.B(bytes.Repeat([]byte{'a'}, rapid.SampledFrom([]int{1, 17, 18, 19, 30, 300}).Draw(t, "stoplen")))
					case 2:
						r.Stop = evid.B(bytes.Repeat([]byte{0}, rapid.SampledFrom([]int{1, 16, 17, 18, 19, 40}).Draw(t, "stopzeros")))
					case 3:
						r.Stop = append(evid.B("m"), bytes.Repeat([]byte{0}, rapid.SampledFrom([]int{0, 1, 16, 17, 18, 40}).Draw(t, "stopmzeros"))...)
					default:
						r.Stop = evid.B(rapid.SliceOfN(rapid.Byte(), 0, 40).Draw(t, "rawstop"))
					}
					c.Rows = append(c.Rows, r)
					continue
				}
				if what != 1 {
					r.HasKey = true
					switch rapid.IntRange(0, 9).Draw(t, "keyshape") {
					case 8:
						// the region's own table and start key, then something that ends like a search key
						r.RowKey = evid.B(rapid.SampledFrom([]string{"t,m,,:", "t,,,:", "t,m,0,:", "t,m,m,:"}).Draw(t, "skname"))
					case 9:
						r.RowKey = append(evid.B(rapid.SampledFrom([]string{"t,m,", "t,,"}).Draw(t, "ownprefix")), rapid.SliceOfN(rapid.SampledFrom([]byte{',', ',', ':', ':', '1', 0, 0xff}), 0, 5).Draw(t, "owntail")...)
					case 0:
						r.RowKey = evid.B{}
					case 1:
						r.RowKey = evid.B("t")
					case 2:
						r.RowKey = evid.B("t,")
					case 3:
						r.RowKey = evid.B("t,row")
					case 4:
						// the very key lookups search with
						r.RowKey = evid.B("t,row,:")
					case 5:
						r.RowKey = evid.B("t,,:")
					case 6:
						r.RowKey = evid.B(rapid.SliceOfN(rapid.Byte(), 0, 12).Draw(t, "rawkey"))
					default:
						r.RowKey = append(evid.B("t"), rapid.SliceOfN(rapid.SampledFrom([]byte{',', ',', ':', 'r', '0', 0, 0xff}), 0, 6).Draw(t, "tail")...)
					}
				}
				if what != 0 {
					r.HasServer = true
					switch rapid.IntRange(0, 4).Draw(t, "srvshape") {
					case 0:
						r.Server = evid.B{}
					case 1:
						r.Server = evid.B("rs2")
					case 2:
						r.Server = evid.B("\xff\xfe:16020")
					case 3:
						r.Server = evid.B(":")
					default:
						r.Server = evid.B(rapid.SliceOfN(rapid.Byte(), 0, 12).Draw(t, "rawsrv"))
					}
				}
				c.Rows = append(c.Rows, r)
			}
			c.Key2 = evid.B(rapid.SampledFrom([]string{"", "m,", "m,", ",", "m,0", "m,m", "a"}).Draw(t, "key2"))
			c.Key2Early = len(c.Key2) > 0 && rapid.IntRange(0, 3).Draw(t, "key2early") > 0
			return c
		case 0:
			return c11cCase{Kind: "increment", IncLen: rapid.IntRange(0, 12).Draw(t, "len")}
		case 1:
			c := c11cCase{Kind: "metacorrupt", CacheRegions: rapid.Bool().Draw(t, "cacheregions")}
			if rapid.Bool().Draw(t, "tablelens") {
				c.Cold = rapid.Bool().Draw(t, "cold")
				k := rapid.IntRange(1, 2).Draw(t, "ntablelens")
				for i := 0; i < k; i++ {
					c.TableLens = append(c.TableLens, rapid.SampledFrom([]int{1, 1, 100, 32764, 32765, 32766, 40000, 70000}).Draw(t, "tablelen"))
				}
				if rapid.Bool().Draw(t, "only") {
					return c
				}
			}
			if rapid.Bool().Draw(t, "ranges") {
				c.Cold = rapid.Bool().Draw(t, "cold2")
				c.Final = rapid.SampledFrom([]string{"", "scan", "rscan", "rscan"}).Draw(t, "final")
				k := rapid.IntRange(1, 3).Draw(t, "nranges")
				keys := []string{"", "", "a", "m", "m", "row", "z"}
				for i := 0; i < k; i++ {
					c.Ranges = append(c.Ranges, c11Range{Start: evid.B(rapid.SampledFrom(keys).Draw(t, "rstart")),
						Stop: evid.B(rapid.SampledFrom(keys).Draw(t, "rstop")), ID: rapid.SampledFrom([]uint64{1, 1000, 1001, 2000}).Draw(t, "rid")})
				}
				if rapid.Bool().Draw(t, "only2") {
					return c
				}
			}
			n := rapid.IntRange(1, 3).Draw(t, "ninfos")
			for i := 0; i < n; i++ {
				switch rapid.IntRange(0, 4).Draw(t, "shape") {
				case 0:
					c.Infos = append(c.Infos, evid.B{})
				case 1:
					c.Infos = append(c.Infos, evid.B(rapid.SliceOfN(rapid.Byte(), 1, 3).Draw(t, "short")))
				case 2:
					c.Infos = append(c.Infos, evid.B("XBUF\x08\x01"))
				case 3:
					c.Infos = append(c.Infos, append(evid.B("PBUF"), rapid.SliceOfN(rapid.Byte(), 0, 12).Draw(t, "garbage")...))
				default:
					c.Infos = append(c.Infos, evid.B(rapid.SliceOfN(rapid.Byte(), 4, 30).Draw(t, "raw")))
				}
			}
			return c
		}
		sc := scanCase{Spec: scanSpecGen(t), End: scanEnding{Kind: "exhaust"}}
		sc.Spec.EmptyFirst = rapid.Bool().Draw(t, "emptyfirst")
		sc.Spec.UnaskedMetrics = !sc.Spec.EmptyFirst || rapid.Bool().Draw(t, "metrics")
		sc.Spec.Twice = false
		return c11cCase{Kind: "scan", Scan: sc}
	}, c11cRun)
}
