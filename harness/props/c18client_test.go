package props

import (
	"context"
	"testing"
	"testing/synctest"
	"time"

	"github.com/tsuna/gohbase"
	"pgregory.net/rapid"

	"verifharness/evid"
	"verifharness/sim"
)

// c18kCase: the read timeout as the application configures it on the top-level client, next to
// the other time-outs it can set.
type c18kCase struct {
	ReadMS   int    `json:"read_ms"`
	LookupMS int    `json:"lookup_ms"`
	Queue    int    `json:"queue"`
	FlushMS  int    `json:"flush_ms"`
	Kind     string `json:"kind"` // get | put
	// Silent: how many times in a row the regionserver swallows the request without answering
	Silent int `json:"silent"`
	// IdleX: after the request finally succeeded the connection idles IdleX times the longer of the two time-outs
	IdleX int `json:"idle_x"`
}

func c18kRun(c c18kCase) Outcome {
	var o Outcome
	res := inBubble(theT, func() { o = c18kInBubble(c) })
	if o, stuck := stuckVerdict(res); stuck {
		return o
	}
	if res.Panic != "" {
		return viol("panic@"+topFrame(res.Stack), "%s\n%s", res.Panic, res.Stack)
	}
	if res.Deadlock != "" && o.Sig == "" && !exitLeak(res.Deadlock) {
		return viol("deadlock", "bubble deadlocked: %s\n%s", res.Deadlock, bubbleStacks(res.Stack))
	}
	return o
}

func c18kInBubble(c c18kCase) (out Outcome) {
	cl := sim.New("rs1:16020", "rs2:16020")
	cl.AddTable("t", nil, []string{"rs2:16020"}, 1000, false)
	read := time.Duration(c.ReadMS) * time.Millisecond
	lookup := time.Duration(c.LookupMS) * time.Millisecond
	client := newSimClient(cl, gohbase.RpcQueueSize(c.Queue), gohbase.FlushInterval(time.Duration(c.FlushMS)*time.Millisecond),
		gohbase.RegionReadTimeout(read), gohbase.RegionLookupTimeout(lookup))
	defer func() {
		client.Close()
		drainClient()
		cl.Stop()
	}()
	ctx := context.Background()
	if err, cerr := doOp(client, ctx, "t", opSpec{Kind: "get", Key: evid.B("warm"), Marker: "mk1"}); err != nil || cerr != nil {
		return viol("harness", "warm-up get: %v %v", err, cerr)
	}
	for k := 0; k < c.Silent; k++ {
		cl.Script["mk2"] = append(cl.Script["mk2"], sim.Outcome{Kind: "drop"})
	}
	cl.Script["mk2"] = append(cl.Script["mk2"], sim.Outcome{Kind: "ok"})
	t0 := time.Now()
	err, cerr := doOp(client, ctx, "t", opSpec{Kind: c.Kind, Key: evid.B("row"), Marker: "mk2"})
	if err != nil {
		return viol("request-failed", "the request whose server went silent %d time(s) failed instead of being failed over: %v", c.Silent, err)
	}
	if cerr != nil {
		return viol("foreign-response", "%v", cerr)
	}
	elapsed := time.Since(t0)
	execs, _, problems := cl.Snapshot()
	if len(problems) > 0 {
		return viol("wire-problem", "%v", problems)
	}
	closes := cl.ClientCloseTimes()
	silentSeen := 0
	for _, e := range execs {
		if e.Marker != "mk2" || e.Result != "drop" {
			continue
		}
		silentSeen++
		// the request was written on conn e.Conn at e.T and never answered: the client has to give the
		// connection up within the configured read timeout of that (last) request
		closedAt, closed := closes[e.Conn]
		if !closed {
			return viol("silent-server-undetected", "request mk2 reached the server on connection %d at %v and was never answered; the request went on %v later although the connection was never given up (read timeout %v, lookup timeout %v)",
				e.Conn, e.T, elapsed, read, lookup)
		}
		if d := closedAt - e.T; d > read+time.Millisecond {
			return viol("silent-server-detected-late", "request mk2 reached the server on connection %d at %v and was never answered; the client gave the connection up %v later, the configured read timeout is %v (lookup timeout %v)",
				e.Conn, e.T, d, read, lookup)
		}
	}
	if silentSeen != c.Silent {
		return viol("harness", "scripted %d silent attempts, saw %d", c.Silent, silentSeen)
	}
	// idle: nothing outstanding, however long - the connection stays and serves the next request
	longer := read
	if lookup > longer {
		longer = lookup
	}
	_, dials0, _ := cl.Snapshot()
	time.Sleep(time.Duration(c.IdleX) * longer)
	synctest.Wait()
	if err, cerr := doOp(client, ctx, "t", opSpec{Kind: "get", Key: evid.B("row"), Marker: "mk3"}); err != nil || cerr != nil {
		return viol("idle-connection-broken", "a request after %v of idleness failed: %v %v", time.Duration(c.IdleX)*longer, err, cerr)
	}
	_, dials1, _ := cl.Snapshot()
	if len(dials1) != len(dials0) {
		return viol("idle-connection-closed", "after %v without outstanding requests (read timeout %v, lookup timeout %v) the client dialled again: %d -> %d dials", time.Duration(c.IdleX)*longer, read, lookup, len(dials0), len(dials1))
	}
	out.NonTrivial = c.Silent > 0 || c.IdleX > 1
	if c.Silent > 0 {
		out.Labels = append(out.Labels, "silent_server")
	}
	if read < lookup {
		out.Labels = append(out.Labels, "read_lt_lookup")
	} else if read > lookup {
		out.Labels = append(out.Labels, "read_gt_lookup")
	} else {
		out.Labels = append(out.Labels, "read_eq_lookup")
	}
	return out
}

func TestC18_ClientTimeouts(t *testing.T) {
	theT = t
	rec := evid.New("C18", "TestC18_ClientTimeouts",
		"rapid, virtual time: the WHOLE client against the simulated cluster with RegionReadTimeout and RegionLookupTimeout drawn "+
			"independently (10 ms .. 2 min each), queue size and flush interval drawn: after a warm-up, a get/put is swallowed by its "+
			"regionserver 0..3 times in a row (no answer, connection left open) and served afterwards; then the connection idles 1..50 "+
			"times the longer time-out and serves another request. Oracle at the servers: each silent connection is given up by the "+
			"client within the configured READ timeout of the unanswered request (whatever the other time-outs are), the request is "+
			"failed over and succeeds, and the idle connection is neither closed nor re-dialled. Non-trivial = a silent server or an "+
			"idle period of more than one time-out; distinct by case hash")
	ms := []int{10, 100, 300, 1000, 5000, 30000, 120000}
	Drive(t, rec, true, func(t *rapid.T) c18kCase {
		return c18kCase{
			ReadMS:   rapid.SampledFrom(ms).Draw(t, "read"),
			LookupMS: rapid.SampledFrom(ms).Draw(t, "lookup"),
			Queue:    rapid.SampledFrom([]int{1, 2, 100}).Draw(t, "queue"),
			FlushMS:  rapid.SampledFrom([]int{0, 1, 20}).Draw(t, "flush"),
			Kind:     rapid.SampledFrom([]string{"get", "put"}).Draw(t, "kind"),
			Silent:   rapid.IntRange(0, 3).Draw(t, "silent"),
			IdleX:    rapid.SampledFrom([]int{1, 2, 5, 50}).Draw(t, "idle"),
		}
	}, c18kRun)
}
