package props

import (
	"context"
	"errors"
	"io"
	"strings"
	"testing"
	"testing/synctest"
	"time"

	"github.com/tsuna/gohbase"
	"github.com/tsuna/gohbase/hrpc"
	"pgregory.net/rapid"

	"verifharness/evid"
	"verifharness/sim"
)

// scanWireCase is a scan through the whole client against simulated servers.
type scanWireCase struct {
	Spec       scanSpec   `json:"spec"`
	End        scanEnding `json:"end"`
	NServers   int        `json:"nservers"`
	CellBlocks bool       `json:"cellblocks"`
	Snappy     bool       `json:"snappy"`
	// Silent: the servers stop answering scan requests after this many (0 = never);
	// with End.Kind == "cancel" the context is then cancelled while Next is blocked.
	SilentAfter int `json:"silent_after,omitempty"`
	// Abandoned > 0: before the scan under test, that many other scans on the same client read one row
	// and are closed early; the servers release their scanners but never answer the close requests
	Abandoned int `json:"abandoned,omitempty"`
}

func scanWireRun(c scanWireCase) Outcome {
	var o Outcome
	res := inBubble(theT, func() { o = scanWireInBubble(c) })
	if res.Frozen != "" && strings.Contains(res.Frozen, "(*scanner).Close") {
		// (a goroutine parked on a mutex freezes the bubble's clock: after 40 s of real time Close is still
		// waiting for a lock somebody holds across a wait - nothing in the harness takes locks of the scanner)
		return viol("client-stuck@scanner-close", "Close is parked on a lock of the scanner (renewal interval %d ms, renewals unanswered: %v):\n%s", c.End.RenewMS, c.End.RenewSilent, res.Frozen)
	}
	if o, stuck := stuckVerdict(res); stuck {
		return o
	}
	if res.Panic != "" {
		return viol("panic@"+topFrame(res.Stack), "%s\n%s", res.Panic, res.Stack)
	}
	if res.Deadlock != "" && o.Sig == "" {
		if exitLeak(res.Deadlock) {
			o.Labels = append(o.Labels, "goroutines_left_at_exit")
			return o
		}
		return viol("scan-hang", "bubble deadlocked: %s\n%s", res.Deadlock, bubbleStacks(res.Stack))
	}
	return o
}

func scanWireInBubble(c scanWireCase) (out Outcome) {
	spec := c.Spec
	l := layoutSpec{Table: "t", Bounds: spec.Bounds, NServers: c.NServers}
	cl := l.build()
	cl.UseCellBlocks = c.CellBlocks
	var rows []sim.ScanRow
	for _, r := range spec.Rows {
		rows = append(rows, sim.ScanRow{Key: r.Key, Cells: r.Cells})
	}
	ss := sim.NewScanServer(rows, spec.Tape)
	ss.SilentAfter = c.SilentAfter
	ss.HoldRenews = c.End.RenewSilent
	if c.End.Kind == "error" {
		ss.FailOn = c.End.FailOn
	}
	cl.ScanHandler = ss.Handle
	opts := []gohbase.Option{gohbase.RegionReadTimeout(time.Hour)}
	if c.Snappy {
		opts = append(opts, gohbase.CompressionCodec("snappy"))
	}
	client := newSimClient(cl, opts...)
	defer func() {
		client.Close()
		drainClient()
		cl.Stop()
	}()
	if c.Abandoned > 0 && len(spec.Rows) > 1 {
		ss.HoldCloses = true
		// (the faults scripted for the scan under test count ITS requests)
		fo, sa := ss.FailOn, ss.SilentAfter
		ss.FailOn, ss.SilentAfter = 0, 0
		for i := 0; i < c.Abandoned; i++ {
			call0, err := hrpc.NewScanRange(context.Background(), []byte("t"), nil, nil, hrpc.NumberOfRows(1))
			if err != nil {
				return viol("harness", "NewScanRange: %v", err)
			}
			sc0 := client.Scan(call0)
			if _, err := sc0.Next(); err != nil {
				return viol("unexpected-error", "abandoned scan %d: first Next: %v", i, err)
			}
			sc0.Close()
		}
		synctest.Wait()
		used := ss.RequestCount()
		if fo > 0 {
			fo += used
		}
		if sa > 0 {
			sa += used
		}
		ss.SetFaults(fo, sa)
		out.Labels = append(out.Labels, "scans_closed_early_with_unanswered_closes")
	}
	ctx, cancel := context.WithCancel(context.Background())
	defer cancel()
	var extra []func(hrpc.Call) error
	if c.End.RenewMS > 0 {
		extra = append(extra, hrpc.RenewInterval(time.Duration(c.End.RenewMS)*time.Millisecond))
	}
	if spec.Twice && c.End.Kind == "exhaust" {
		// a first, complete run of the same scan on the same client (same cached regions)
		call0, err := newScanCall(context.Background(), spec)
		if err != nil {
			return viol("harness", "NewScanRange: %v", err)
		}
		sc0 := client.Scan(call0)
		for i := 0; i < len(spec.Rows)*8+20; i++ {
			if _, err := sc0.Next(); err != nil {
				break
			}
		}
		sc0.Close()
		synctest.Wait()
	}
	call, err := newScanCall(ctx, spec, extra...)
	if err != nil {
		return viol("harness", "NewScanRange: %v", err)
	}
	sc := client.Scan(call)
	want := spec.expected()
	var acc rowAcc
	type step struct {
		res *hrpc.Result
		err error
	}
	// Next in a goroutine so that a blocked Next can be observed
	next := func() (step, bool) {
		ch := make(chan step, 1)
		go func() {
			r, e := sc.Next()
			ch <- step{r, e}
		}()
		synctest.Wait()
		select {
		case st := <-ch:
			return st, true
		default:
		}
		// blocked (silent server): only legitimate when the servers went silent
		if c.SilentAfter == 0 {
			time.Sleep(time.Minute)
			synctest.Wait()
			select {
			case st := <-ch:
				return st, true
			default:
			}
			go func() { <-ch }()
			return step{}, false
		}
		// cancel (or close) while blocked
		t0 := time.Now()
		cancel()
		synctest.Wait()
		select {
		case st := <-ch:
			if d := time.Since(t0); d > 100*time.Millisecond {
				return step{nil, errors.New("late")}, true
			}
			return st, true
		default:
			time.Sleep(100 * time.Millisecond)
			synctest.Wait()
			select {
			case st := <-ch:
				return st, true
			default:
			}
		}
		go func() { <-ch }()
		return step{}, false
	}
	maxCalls := len(want)*8 + 20
	sawErr := false
	var firstErr error
	partialWithErr := false
	ended := false
	calls := 0
	for calls < maxCalls {
		if (c.End.Kind == "close" || c.End.Kind == "cancel") && calls == c.End.After && c.SilentAfter == 0 {
			break
		}
		st, ok := next()
		calls++
		if !ok {
			stack := firstGohbaseStack(gohbaseGoroutines(), "Next")
			if c.SilentAfter > 0 {
				return viol("cancel-ignored@scan/open-scanner", "Next was blocked on a silent server with a region scanner open; 100 virtual ms after its context was cancelled it had still not returned; blocked at:\n%s", stack)
			}
			return viol("scan-hang", "Next did not return within a virtual minute; blocked at:\n%s", stack)
		}
		if st.err == io.EOF {
			ended = true
			break
		}
		if st.err != nil {
			sawErr, firstErr, ended = true, st.err, true
			if st.res != nil && len(st.res.Cells) > 0 {
				partialWithErr = true
				acc.add(st.res, false)
			}
			break
		}
		if st.res == nil {
			return viol("nil-result", "Next returned (nil, nil)")
		}
		acc.add(st.res, spec.Partials)
		if c.End.SleepMS > 0 {
			time.Sleep(time.Duration(c.End.SleepMS) * time.Millisecond)
		}
	}
	if c.End.Kind == "close" && c.End.RenewSilent && c.End.RenewMS > 0 && !ended {
		// wait until a renewal is on its way (it will never be answered)
		time.Sleep(time.Duration(c.End.RenewMS)*time.Millisecond + time.Millisecond)
		synctest.Wait()
		if ss.RenewCount() > 0 {
			out.Labels = append(out.Labels, "close_while_renewal_in_flight")
		}
	}
	closeAt := time.Now()
	switch c.End.Kind {
	case "close":
		if !ended {
			if err := sc.Close(); err != nil {
				return viol("close-error", "Close returned %v", err)
			}
			if c.End.CloseTwice {
				sc.Close()
			}
			if d := time.Since(closeAt); d != 0 {
				return viol("close-blocked", "Close took %v of virtual time", d)
			}
		}
	case "cancel":
		if !ended {
			cancel()
		}
	}
	if c.End.RenewMS > 0 && c.End.IdleAfterEnd {
		synctest.Wait()
		time.Sleep(3 * time.Duration(c.End.RenewMS) * time.Millisecond)
		synctest.Wait()
	}
	eofs := 0
	for i := 0; i < maxCalls && eofs < 2; i++ {
		t0 := time.Now()
		st, ok := next()
		if !ok {
			return viol("cancel-ignored@scan/open-scanner", "Next after the end of the scan is blocked; at:\n%s", firstGohbaseStack(gohbaseGoroutines(), "Next"))
		}
		if c.End.Kind == "cancel" && time.Since(t0) > 100*time.Millisecond {
			return viol("cancel-ignored@scan/open-scanner", "Next took %v of virtual time to report the cancellation", time.Since(t0))
		}
		switch {
		case st.err == io.EOF:
			eofs++
		case st.err != nil:
			if sawErr {
				return viol("error-reported-twice", "Next returned %v after already reporting %v", st.err, firstErr)
			}
			sawErr, firstErr = true, st.err
			if st.res != nil && len(st.res.Cells) > 0 {
				partialWithErr = true
				acc.add(st.res, false)
			}
		default:
			if sawErr || eofs > 0 {
				return viol("result-after-end", "Next returned a result after the scan had ended")
			}
			acc.add(st.res, spec.Partials)
		}
	}
	if eofs < 2 {
		return viol("no-eof", "scanner did not settle on io.EOF")
	}
	// let asynchronous closes drain (the servers answer close requests even when silent)
	synctest.Wait()
	time.Sleep(time.Second)
	synctest.Wait()
	_, _, problems := cl.Snapshot()
	if len(problems) > 0 {
		return viol("wire-problem", "servers saw malformed or misrouted traffic: %v", problems)
	}
	if len(ss.Problems) > 0 {
		return viol("protocol:"+firstWord(ss.Problems[0]), "the scan broke the protocol: %v", ss.Problems)
	}
	switch c.End.Kind {
	case "exhaust", "close":
		if sawErr && c.SilentAfter == 0 {
			return viol("unexpected-error", "scan failed with %v", firstErr)
		}
	case "error":
		if sawErr && !strings.Contains(firstErr.Error(), "marker-scan-fail") {
			return viol("unexpected-error", "scan failed with %v, injected a DoNotRetryIOException", firstErr)
		}
	case "cancel":
		if sawErr && !errors.Is(firstErr, context.Canceled) {
			return viol("unexpected-error", "scan failed with %v after cancellation", firstErr)
		}
	}
	exact := !sawErr && ended
	if sig, msg := comparePrefix(acc.rows, want, exact, partialWithErr || (spec.Partials && !exact) || (c.End.Kind == "close" && !exact)); sig != "" {
		return viol(sig, "%s (start=%q stop=%q reversed=%v bounds=%q)", msg, spec.Start, spec.Stop, spec.Reversed, spec.Bounds)
	}
	if open := ss.OpenScanners(); len(open) > 0 && c.SilentAfter == 0 && !(spec.Twice && c.End.Kind == "exhaust") {
		return viol("scanner-leak", "region scanners %v are still open at the servers after the scan ended (%s)", open, c.End.Kind)
	}
	n := ss.NumScanners()
	out.NonTrivial = n >= 2 || ss.Fragmented || ss.Heartbeats > 0 || ss.CloseReqs > 0 || c.SilentAfter > 0
	if n >= 2 {
		out.Labels = append(out.Labels, "multi_region")
	}
	if ss.Fragmented {
		out.Labels = append(out.Labels, "fragmented")
	}
	if ss.CloseReqs > 0 {
		out.Labels = append(out.Labels, "explicit_close_sent")
	}
	if c.SilentAfter > 0 {
		out.Labels = append(out.Labels, "cancel_while_blocked")
	}
	out.Labels = append(out.Labels, "end_"+c.End.Kind)
	return out
}

func scanWireGen(t *rapid.T, endings []string) scanWireCase {
	var c scanWireCase
	c.Spec = scanSpecGen(t)
	c.Spec.EmptyFragments = false
	c.NServers = rapid.IntRange(1, 3).Draw(t, "nservers")
	c.CellBlocks = rapid.Bool().Draw(t, "cellblocks")
	c.Snappy = rapid.IntRange(0, 2).Draw(t, "snappy") == 0
	c.End.Kind = rapid.SampledFrom(endings).Draw(t, "ending")
	c.End.After = rapid.IntRange(0, 5).Draw(t, "after")
	c.End.FailOn = rapid.IntRange(1, 6).Draw(t, "failon")
	c.End.CloseTwice = rapid.Bool().Draw(t, "twice")
	if c.End.Kind == "cancel" && rapid.IntRange(0, 2).Draw(t, "blocked") == 0 {
		c.SilentAfter = rapid.IntRange(1, 4).Draw(t, "silentafter")
	} else if len(endings) > 1 && rapid.IntRange(0, 5).Draw(t, "abandoned") == 0 {
		c.Abandoned = rapid.IntRange(1, 14).Draw(t, "nabandoned")
	} else if rapid.IntRange(0, 4).Draw(t, "renew") == 0 {
		c.End.RenewMS = rapid.SampledFrom([]int{5, 50, 1000}).Draw(t, "renewms")
		c.End.SleepMS = rapid.SampledFrom([]int{0, 1, 7, 120, 3000}).Draw(t, "sleepms")
		c.End.IdleAfterEnd = rapid.Bool().Draw(t, "idle")
		c.End.RenewSilent = c.End.Kind == "close" && rapid.Bool().Draw(t, "renewsilent")
	}
	return c
}

func TestC06_ScanWire(t *testing.T) {
	theT = t
	rec := evid.New("C06", "TestC06_ScanWire",
		"rapid, virtual time: the C06 scan generator (tables, layouts of 1..6 regions, ranges, directions, chunking "+
			"tape) run through the WHOLE client against simulated regionservers on 1..3 servers: region lookups through "+
			"hbase:meta, scan requests routed and validated at the servers, results as cellblocks (cells_per_result / "+
			"partial_flag_per_result) or protobuf cells, snappy on/off. Oracle: rows in range, in order, whole, once, then "+
			"io.EOF; no misrouted scan request. Non-trivial = >= 2 region scanners, fragmented rows or heartbeats; "+
			"distinct by case hash")
	Drive(t, rec, true, func(t *rapid.T) scanWireCase { return scanWireGen(t, []string{"exhaust"}) }, scanWireRun)
}

func TestC14_ScanWire(t *testing.T) {
	theT = t
	rec := evid.New("C14", "TestC14_ScanWire",
		"rapid, virtual time: C06 scans through the whole client ended by Close after n Next calls, by an application "+
			"exception on request j, by cancellation between two Next calls, or by cancellation WHILE Next is blocked on "+
			"servers that went silent with a region scanner open. Oracle: error once then io.EOF, Close and a cancelled "+
			"Next return within 100 virtual ms, results are a prefix of the model, and after the asynchronous closes "+
			"drained no region scanner is open at the servers. Non-trivial = an explicit close request was observed or "+
			"the cancellation hit a blocked Next; distinct by case hash")
	Drive(t, rec, true, func(t *rapid.T) scanWireCase {
		return scanWireGen(t, []string{"close", "close", "error", "cancel", "cancel", "cancel"})
	}, scanWireRun)
}

// TestC13_ScanOpenScanner is the scanner entry point of C13 in the one wait
// state the generic C13 check cannot reach: a region scanner is open at the
// server when the scan's context ends, while the servers are silent.
func TestC13_ScanOpenScanner(t *testing.T) {
	theT = t
	rec := evid.New("C13", "TestC13_ScanOpenScanner",
		"rapid, virtual time: scans through the whole client whose context is cancelled between two Next calls or while "+
			"Next is blocked, with a region scanner open at simulated servers that have gone completely silent (they do "+
			"not answer the close request either). Oracle: Next returns within 100 virtual ms with the context error, "+
			"then io.EOF. Non-trivial = the cancellation hit a blocked Next or an explicit close was attempted; "+
			"distinct by case hash")
	Drive(t, rec, true, func(t *rapid.T) scanWireCase {
		c := scanWireGen(t, []string{"cancel"})
		if c.SilentAfter == 0 {
			c.SilentAfter = rapid.IntRange(1, 4).Draw(t, "silentafter2")
		}
		return c
	}, scanWireRun)
}
