package props

import (
	"fmt"
	"testing"

	"pgregory.net/rapid"

	"verifharness/evid"
)

func c09Run(c c04Case) Outcome {
	var o Outcome
	res := inBubble(theT, func() { o = c04RunInBubble(c, true) })
	if o, stuck := stuckVerdict(res); stuck {
		return o
	}
	if res.Panic != "" {
		return viol("panic@"+topFrame(res.Stack), "%s\n%s", res.Panic, res.Stack)
	}
	if res.Deadlock != "" && o.Sig == "" {
		if exitLeak(res.Deadlock) {
			o.Labels = append(o.Labels, "goroutines_left_at_exit")
			return o
		}
		return viol("fault-deadlock", "bubble deadlocked: %s\n%s", res.Deadlock, bubbleStacks(res.Stack))
	}
	return o
}

// c09Gen turns concurrency up: many callers hitting the same few regions at the
// same virtual instants while faults that affect many regions at once are injected.
func c09Gen(t *rapid.T) c04Case {
	var c c04Case
	c.Layout = genLayout(t, 12, 4)
	c.Layout.Siblings = nil
	if c.Layout.NServers < 2 {
		c.Layout.NServers = 2
	}
	c.Queue = rapid.SampledFrom([]int{1, 2, 100}).Draw(t, "queue")
	c.FlushMS = rapid.SampledFrom([]int{0, 1, 20}).Draw(t, "flush")
	c.Tape = rapid.SliceOfN(rapid.Byte(), 0, 8).Draw(t, "tape")
	c.Log = rapid.SampledFrom([]string{"", "", "", "json", "text"}).Draw(t, "log")
	times := []int{0, 0, 1, 16, 17, 20, 21, 48, 50, 112, 300}
	ne := rapid.IntRange(2, 8).Draw(t, "nevents")
	for i := 0; i < ne; i++ {
		ev := c04Event{
			AtMS:   rapid.SampledFrom(times).Draw(t, "at"),
			Kind:   rapid.SampledFrom([]string{"reset", "reset", "transient", "transient", "split", "dialdown", "abort", "move", "metamove", "merge", "probekill", "probekill"}).Draw(t, "kind"),
			Region: rapid.IntRange(0, 11).Draw(t, "region"),
			Server: rapid.IntRange(0, 3).Draw(t, "server"),
		}
		switch ev.Kind {
		case "split":
			ev.Key = genKeyFor(t, c.Layout)
		case "transient":
			ev.Class = rapid.SampledFrom(c04TransientClasses).Draw(t, "class")
			ev.Count = rapid.IntRange(1, 6).Draw(t, "count")
		case "abort", "stop", "dialdown":
			ev.DownMS = rapid.SampledFrom([]int{1, 10, 40, 100, 1000}).Draw(t, "down")
		}
		c.Events = append(c.Events, ev)
	}
	n := 0
	if len(c.Layout.Bounds) > 0 && rapid.IntRange(0, 2).Draw(t, "mergeheld") == 0 {
		// a merge whose two parents are both being re-established when it happens: requests warm the cache
		// for both, then meet the closing regions while hbase:meta is silent
		j := rapid.IntRange(0, len(c.Layout.Bounds)-1).Draw(t, "mhregion")
		at := rapid.SampledFrom([]int{16, 20, 48}).Draw(t, "mhat")
		c.Events = append(c.Events, c04Event{AtMS: at, Kind: "mergeheld", Region: j, Server: rapid.IntRange(0, 3).Draw(t, "mhserver"),
			DownMS: rapid.SampledFrom([]int{1, 10, 40}).Draw(t, "mhhold")})
		keyA := evid.B{}
		if j > 0 {
			keyA = c.Layout.Bounds[j-1]
		}
		keyB := c.Layout.Bounds[j]
		for _, k := range []evid.B{keyA, keyB} {
			for _, when := range []int{0, at + 1, at + 1 + rapid.IntRange(0, 2).Draw(t, "mhlate")} {
				n++
				op := opSpec{Kind: rapid.SampledFrom([]string{"get", "put"}).Draw(t, "mhkind"), Key: k, Marker: fmt.Sprintf("mk%d", n)}
				c.Reqs = append(c.Reqs, c04Req{AtMS: when, Op: &op})
			}
		}
	}
	callers := rapid.IntRange(2, 32).Draw(t, "callers")
	per := rapid.IntRange(1, 4).Draw(t, "per")
	kinds := []string{"get", "get", "put", "inc"}
	// a handful of hot keys so that many callers wait on the same region
	var hot [][]byte
	for i := 0; i < 3; i++ {
		hot = append(hot, genKeyFor(t, c.Layout))
	}
	for g := 0; g < callers; g++ {
		for k := 0; k < per; k++ {
			op := genOp(t, c.Layout, kinds, &n)
			if rapid.IntRange(0, 2).Draw(t, "hot") > 0 {
				op.Key = hot[rapid.IntRange(0, len(hot)-1).Draw(t, "hotkey")]
			}
			rq := c04Req{AtMS: rapid.SampledFrom(times).Draw(t, "reqat")}
			if rapid.IntRange(0, 4).Draw(t, "batch") == 0 {
				rq.Batch = []opSpec{op, genOp(t, c.Layout, kinds, &n)}
			} else {
				rq.Op = &op
			}
			c.Reqs = append(c.Reqs, rq)
		}
	}
	return c
}

func TestC09_ConcurrentFailures(t *testing.T) {
	theT = t
	rec := evid.New("C09", "TestC09_ConcurrentFailures",
		"rapid, virtual time, built with the race detector in the thorough tier: 2..32 concurrent callers issuing "+
			"1..4 requests each (single and batched) on hot keys of 1..12 regions on 2..4 simulated servers, all at a "+
			"handful of virtual instants, while 2..8 faults strike at the same instants: connection resets shared by many "+
			"regions, bursts of NotServing / retryable answers, splits and merges while requests wait, dial refusals, "+
			"server aborts with reassignment, region moves, hbase:meta relocation, and (1 in 3) a merge of two neighbours that are "+
			"both being re-established, their lookups parked at a silent hbase:meta and answered at the same instant. Oracle: the process neither panics "+
			"nor deadlocks (and the race detector stays silent), every request completes correctly within 10 virtual "+
			"minutes after the last fault, and 3 virtual minutes later no cached region (or hbase:meta) is still marked "+
			"unavailable. Non-trivial = >= 1 request met a fault; distinct by case hash. Interleavings inside the client "+
			"are chosen by the Go scheduler: this is sampling, not schedule coverage")
	Drive(t, rec, true, c09Gen, c09Run)
}
