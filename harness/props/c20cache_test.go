package props

import (
	"context"
	"fmt"
	"sync"
	"sync/atomic"
	"testing"

	"github.com/tsuna/gohbase"
	"github.com/tsuna/gohbase/hrpc"
	"github.com/tsuna/gohbase/region"
	"pgregory.net/rapid"

	"verifharness/evid"
)

// stubRC is a region client that is nothing but an address and an identity.
type stubRC struct {
	addr string
	id   int64
}

func (s *stubRC) Dial(context.Context) error              { return nil }
func (s *stubRC) Close()                                  {}
func (s *stubRC) Addr() string                            { return s.addr }
func (s *stubRC) QueueRPC(hrpc.Call)                      {}
func (s *stubRC) QueueBatch(context.Context, []hrpc.Call) {}
func (s *stubRC) String() string                          { return fmt.Sprintf("stub-%d@%s", s.id, s.addr) }

// c20cCase: concurrent workers on ONE connection cache: each performs a drawn sequence of
// put(addr, region) / clientDown(a client it was handed earlier).
type c20cCase struct {
	Workers [][]c20cOp `json:"workers"`
	Rounds  int        `json:"rounds"`
}

type c20cOp struct {
	Kind   string `json:"kind"` // put | down
	Addr   int    `json:"addr"`
	Region int    `json:"region"`
}

func c20cRun(c c20cCase) (out Outcome) {
	addrs := []string{"rs1:16020", "rs2:16020"}
	var regs []hrpc.RegionInfo
	for i := 0; i < 8; i++ {
		regs = append(regs, region.NewInfo(uint64(i+1), nil, []byte("t"), []byte(fmt.Sprintf("t,%c,%d", 'a'+i, i+1)), []byte{byte('a' + i)}, []byte{byte('b' + i)}))
	}
	var created int64
	downs := int64(0)
	for round := 0; round < c.Rounds; round++ {
		cache := gohbase.VerifNewClientCache()
		var wg sync.WaitGroup
		start := make(chan struct{})
		var bad atomic.Value
		stopObs := make(chan struct{})
		obsDone := make(chan struct{})
		check := func() {
			snap := cache.Snapshot()
			per := map[string][]string{}
			for rc := range snap {
				per[rc.Addr()] = append(per[rc.Addr()], rc.String())
			}
			for a, cs := range per {
				if len(cs) > 1 {
					bad.CompareAndSwap(nil, fmt.Sprintf("the connection cache holds %d clients for address %s at the same time: %v", len(cs), a, cs))
				}
			}
		}
		go func() {
			defer close(obsDone)
			for {
				select {
				case <-stopObs:
					return
				default:
					check()
				}
			}
		}()
		for _, ops := range c.Workers {
			wg.Add(1)
			go func(ops []c20cOp) {
				defer wg.Done()
				var mine []hrpc.RegionClient
				<-start
				for _, op := range ops {
					switch op.Kind {
					case "put":
						addr := addrs[op.Addr%len(addrs)]
						rc := cache.Put(addr, regs[op.Region%len(regs)], func() hrpc.RegionClient {
							return &stubRC{addr: addr, id: atomic.AddInt64(&created, 1)}
						})
						if rc.Addr() != addr {
							bad.CompareAndSwap(nil, fmt.Sprintf("put(%s) returned a client for %s", addr, rc.Addr()))
						}
						mine = append(mine, rc)
					case "down":
						if len(mine) > 0 {
							rc := mine[op.Region%len(mine)]
							cache.Down(rc)
							atomic.AddInt64(&downs, 1)
						}
					}
				}
			}(ops)
		}
		close(start)
		wg.Wait()
		close(stopObs)
		<-obsDone
		check()
		if v := bad.Load(); v != nil {
			return viol("second-connection-in-cache", "round %d: %s", round, v.(string))
		}
	}
	out.NonTrivial = len(c.Workers) >= 3 && downs > 0
	if downs > 0 {
		out.Labels = append(out.Labels, "client_down_racing_put")
	}
	return out
}

func TestC20_ClientCacheConcurrent(t *testing.T) {
	rec := evid.New("C20", "TestC20_ClientCacheConcurrent",
		"rapid + real threads: 2..8 workers run drawn sequences of put(address, region) / clientDown(client handed out earlier) on ONE "+
			"stand-alone connection cache (2 addresses, 8 regions), every case repeated for several rounds while an observer takes atomic "+
			"snapshots. Oracle: no snapshot ever holds two clients for one address, put returns a client of the requested address. "+
			"Interleavings are the scheduler's (the race-detector unit covers unsynchronised access). Non-trivial = >= 3 workers and >= 1 "+
			"clientDown; distinct by case hash")
	Drive(t, rec, false, func(t *rapid.T) c20cCase {
		var c c20cCase
		c.Rounds = rapid.IntRange(20, 60).Draw(t, "rounds")
		nw := rapid.IntRange(2, 8).Draw(t, "workers")
		for w := 0; w < nw; w++ {
			var ops []c20cOp
			n := rapid.IntRange(1, 12).Draw(t, "nops")
			for i := 0; i < n; i++ {
				ops = append(ops, c20cOp{Kind: rapid.SampledFrom([]string{"put", "put", "down"}).Draw(t, "kind"),
					Addr: rapid.IntRange(0, 1).Draw(t, "addr"), Region: rapid.IntRange(0, 7).Draw(t, "region")})
			}
			c.Workers = append(c.Workers, ops)
		}
		return c
	}, c20cRun)
}
