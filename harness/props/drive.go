// Package props holds the property checks C01..C20 for tsuna/gohbase.
package props

import (
	"fmt"
	"os"
	"runtime"
	"strings"
	"testing"

	"pgregory.net/rapid"

	"verifharness/evid"
)

// Outcome is the verdict of one executed case.
type Outcome struct {
	Hash       uint64
	NonTrivial bool
	Labels     []string
	// Sig != "" means the oracle fired; Sig identifies the specific failure.
	Sig string
	Msg string
}

func viol(sig, format string, a ...any) Outcome {
	return Outcome{Sig: sig, Msg: fmt.Sprintf(format, a...)}
}

// Drive runs a property either on generated cases (rapid) or, when
// VERIF_REPLAY is set, once on the stored case, bypassing the library.
// journal makes every case hit the disk before it runs (for checks whose
// failures may kill the process).
func Drive[C any](t *testing.T, rec *evid.Recorder, journal bool,
	gen func(*rapid.T) C, run func(C) Outcome) {
	defer rec.Flush()
	if p := evid.ReplayPath(); p != "" {
		var c C
		rf, err := evid.LoadReplay(p, &c)
		if err != nil {
			t.Fatalf("cannot load replay %s: %v", p, err)
		}
		reps := 1
		if os.Getenv("VERIF_REPLAY_REPS") != "" {
			fmt.Sscan(os.Getenv("VERIF_REPLAY_REPS"), &reps)
		}
		for i := 0; i < reps; i++ {
			out := run(c)
			rec.Case(out.Hash, out.NonTrivial, out.Labels...)
			if out.Sig != "" {
				rec.Fail(out.Sig, out.Msg, c)
				t.Errorf("replay of %s (stored sig %s): %s: %s", p, rf.Sig, out.Sig, out.Msg)
				return
			}
		}
		return
	}
	rapid.Check(t, func(rt *rapid.T) {
		c := gen(rt)
		if journal {
			rec.Journal(c)
		}
		out := run(c)
		if out.Hash == 0 {
			out.Hash = evid.HashJSON(c)
		}
		rec.Case(out.Hash, out.NonTrivial, out.Labels...)
		if out.NonTrivial && rec.WantSample() {
			rec.Sample(c)
		}
		rec.MaybeFlush()
		if strings.HasPrefix(out.Sig, "client-spin") || strings.HasPrefix(out.Sig, "client-stuck") || strings.HasPrefix(out.Sig, "bubble-frozen") {
			// the stuck goroutines of that bubble are still around (and possibly burning a
			// core): record and leave the process; no shrinking
			if !strings.HasPrefix(out.Sig, "bubble-frozen") {
				rec.Fail(out.Sig, out.Msg, c)
			}
			rec.Flush()
			fmt.Fprintf(os.Stderr, "%s: %s\n", out.Sig, out.Msg)
			os.Exit(3)
		}
		if out.Sig != "" {
			if rec.Known(out.Sig) {
				rec.Exclude(out.Sig)
				return
			}
			rec.Fail(out.Sig, out.Msg, c)
			rt.Fatalf("%s: %s", out.Sig, out.Msg)
		}
	})
}

// topFrame extracts the first gohbase function from a panic stack, used as a
// line-independent signature.
func topFrame(stack string) string {
	for _, line := range strings.Split(stack, "\n") {
		line = strings.TrimSpace(line)
		if strings.HasPrefix(line, "github.com/tsuna/gohbase") &&
			!strings.Contains(line, "Verif") && !strings.Contains(line, "verif") {
			if i := strings.LastIndex(line, "("); i > 0 {
				line = line[:i]
			}
			line = strings.TrimPrefix(line, "github.com/tsuna/gohbase/")
			line = strings.TrimPrefix(line, "github.com/tsuna/gohbase.")
			return line
		}
	}
	return "unknown"
}

// totalAlloc is the number of bytes the process has allocated so far (monotonic).
func totalAlloc() uint64 {
	var ms runtime.MemStats
	runtime.ReadMemStats(&ms)
	return ms.TotalAlloc
}

// allocBudget is what decoding n bytes received from the network may allocate before it counts as an
// allocation bomb: lengths declared inside the data must be checked against the data before memory is
// reserved for them (the alternative is a process that a 24-byte frame can push out of memory).
func allocBudget(n int) uint64 { return 256<<20 + 128*uint64(n) }
