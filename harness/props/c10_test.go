package props

import (
	"bytes"
	"context"
	"fmt"
	"math"
	"sort"
	"testing"

	"github.com/tsuna/gohbase/hrpc"
	"github.com/tsuna/gohbase/pb"
	"github.com/tsuna/gohbase/region"
	"pgregory.net/rapid"

	"verifharness/evid"
	"verifharness/wire"
)

type c10Qual struct {
	Q evid.B `json:"q"`
	V evid.B `json:"v"`
	// NilV: value is a nil slice rather than an empty one
	NilV bool `json:"nilv,omitempty"`
}

type c10Fam struct {
	Name  evid.B    `json:"name"`
	Shape string    `json:"shape"` // nil | empty | vals
	Quals []c10Qual `json:"quals,omitempty"`
}

type c10Case struct {
	Kind       string   `json:"kind"` // put | app | inc | del
	Row        evid.B   `json:"row"`
	RowFill    int      `json:"row_fill,omitempty"` // if >0 the row is RowFill copies of Row[0] (keeps replay files small)
	NilValues  bool     `json:"nil_values,omitempty"`
	Fams       []c10Fam `json:"fams"`
	TS         uint64   `json:"ts"`
	HasTS      bool     `json:"has_ts"`
	OneVersion bool     `json:"one_version,omitempty"`
	BigValue   int      `json:"big_value,omitempty"` // if >0 the first value is that many bytes
	Trailing   evid.B   `json:"trailing,omitempty"`
}

func (c c10Case) row() []byte {
	if c.RowFill > 0 {
		f := byte('r')
		if len(c.Row) > 0 {
			f = c.Row[0]
		}
		return bytes.Repeat([]byte{f}, c.RowFill)
	}
	return []byte(c.Row)
}

func (c c10Case) values() map[string]map[string][]byte {
	if c.NilValues {
		return nil
	}
	vals := map[string]map[string][]byte{}
	first := true
	for _, f := range c.Fams {
		switch f.Shape {
		case "nil":
			vals[string(f.Name)] = nil
		case "empty":
			vals[string(f.Name)] = map[string][]byte{}
		default:
			inner := map[string][]byte{}
			for _, q := range f.Quals {
				v := []byte(q.V)
				if q.NilV {
					v = nil
				}
				if first && c.BigValue > 0 {
					v = bytes.Repeat([]byte{'V'}, c.BigValue)
					first = false
				}
				inner[string(q.Q)] = v
			}
			vals[string(f.Name)] = inner
		}
	}
	return vals
}

// flatCell is the comparable denotation of one cell.
type flatCell struct {
	Family, Qualifier, Value string
	TS                       uint64
	Type                     byte
}

func sortFlat(cs []flatCell) {
	sort.Slice(cs, func(i, j int) bool {
		a, b := cs[i], cs[j]
		if a.Family != b.Family {
			return a.Family < b.Family
		}
		if a.Qualifier != b.Qualifier {
			return a.Qualifier < b.Qualifier
		}
		if a.Value != b.Value {
			return a.Value < b.Value
		}
		if a.TS != b.TS {
			return a.TS < b.TS
		}
		return a.Type < b.Type
	})
}

func flatEqual(a, b []flatCell) bool {
	if len(a) != len(b) {
		return false
	}
	sortFlat(a)
	sortFlat(b)
	for i := range a {
		if a[i] != b[i] {
			return false
		}
	}
	return true
}

// deleteTypeToKV is the fixed correspondence between protobuf DeleteType and
// KeyValue type bytes (HBase: ProtobufUtil.fromDeleteType).
func deleteTypeToKV(dt pb.MutationProto_DeleteType) byte {
	switch dt {
	case pb.MutationProto_DELETE_ONE_VERSION:
		return wire.TypeDelete
	case pb.MutationProto_DELETE_MULTIPLE_VERSIONS:
		return wire.TypeDeleteColumn
	case pb.MutationProto_DELETE_FAMILY:
		return wire.TypeDeleteFamily
	case pb.MutationProto_DELETE_FAMILY_VERSION:
		return wire.TypeDeleteFamilyVersion
	}
	return 0
}

// c10Expected: the cells the specification implies.
func c10Expected(c c10Case) (cells []flatCell, ok bool) {
	ts := c.TS
	if !c.HasTS || ts == math.MaxUint64 {
		ts = math.MaxInt64
	}
	for fam, inner := range c.values() {
		if len(inner) == 0 {
			// no qualifiers: a delete names the whole family (the documented form is a nil map; an empty one
			// cannot mean "the whole row", which is what a delete without any cell is to the server);
			// any other mutation has nothing to write for this family
			if c.Kind != "del" {
				continue
			}
			typ := byte(wire.TypeDeleteFamily)
			if c.OneVersion {
				typ = wire.TypeDeleteFamilyVersion
			}
			cells = append(cells, flatCell{fam, "", "", ts, typ})
			continue
		}
		for q, v := range inner {
			typ := byte(wire.TypePut)
			if c.Kind == "del" {
				typ = wire.TypeDeleteColumn
				if c.OneVersion {
					typ = wire.TypeDelete
				}
			}
			cells = append(cells, flatCell{fam, q, string(v), ts, typ})
		}
	}
	return cells, true
}

var c10Region = region.NewInfo(1, nil, []byte("t"), []byte("t,,1"), nil, nil)

func c10Build(c c10Case) (*hrpc.Mutate, error) {
	var opts []func(hrpc.Call) error
	if c.HasTS {
		opts = append(opts, hrpc.TimestampUint64(c.TS))
	}
	if c.OneVersion {
		opts = append(opts, hrpc.DeleteOneVersion())
	}
	ctx := context.Background()
	var m *hrpc.Mutate
	var err error
	switch c.Kind {
	case "put":
		m, err = hrpc.NewPut(ctx, []byte("t"), c.row(), c.values(), opts...)
	case "app":
		m, err = hrpc.NewApp(ctx, []byte("t"), c.row(), c.values(), opts...)
	case "inc":
		m, err = hrpc.NewInc(ctx, []byte("t"), c.row(), c.values(), opts...)
	default:
		m, err = hrpc.NewDel(ctx, []byte("t"), c.row(), c.values(), opts...)
	}
	if err != nil {
		return nil, err
	}
	m.SetRegion(c10Region)
	return m, nil
}

func c10Run(c c10Case) (out Outcome) {
	stage := "build"
	defer func() {
		if p := recover(); p != nil {
			out = viol("panic@"+stage, "panic in %s: %v", stage, p)
		}
	}()
	m, err := c10Build(c)
	if err != nil {
		// the constructor rejected the combination (documented: DeleteOneVersion on a whole-row delete)
		out.Labels = append(out.Labels, "rejected_by_constructor")
		return out
	}
	row := c.row()
	out.Labels = append(out.Labels, "kind_"+c.Kind)

	stage = "SerializeCellBlocks"
	msg, cbs, size := m.SerializeCellBlocks(nil)
	var block []byte
	for _, b := range cbs {
		block = append(block, b...)
	}
	if int(size) != len(block) {
		return viol("size-mismatch", "declared cellblock size %d, wrote %d bytes", size, len(block))
	}
	mreq := msg.(*pb.MutateRequest)
	count := int(mreq.GetMutation().GetAssociatedCellCount())

	// (1) independent decoder
	stage = "independent-decode"
	cells, err := wire.DecodeAllCells(block)
	if err != nil {
		return viol("independent-decode-failed", "independent KeyValue decoder rejects the cellblock: %v", err)
	}
	if len(cells) != count {
		return viol("cell-count-mismatch", "associated_cell_count=%d but the cellblock holds %d cells", count, len(cells))
	}
	var fromBlock []flatCell
	for _, ce := range cells {
		if !bytes.Equal(ce.Row, row) {
			return viol("row-mismatch", "cell row %q != mutation row (len %d)", trunc(ce.Row), len(row))
		}
		fromBlock = append(fromBlock, flatCell{string(ce.Family), string(ce.Qualifier), string(ce.Value), ce.Timestamp, ce.Type})
	}
	if want, ok := c10Expected(c); ok {
		if !flatEqual(append([]flatCell(nil), fromBlock...), want) {
			return viol("cells-differ-from-spec", "cellblock cells %s differ from the specification %s", flatStr(fromBlock), flatStr(want))
		}
	} else {
		out.Labels = append(out.Labels, "ambiguous_shape")
	}
	if len(cells) > 0 {
		out.NonTrivial = true
	}

	// (2) the client's own decoder, with and without trailing data
	stage = "client-decode"
	for _, trailing := range [][]byte{nil, c.Trailing} {
		buf := append(append([]byte(nil), block...), trailing...)
		resp := &pb.MutateResponse{Result: &pb.Result{AssociatedCellCount: proto32(int32(count))}}
		n, err := m.DeserializeCellBlocks(resp, buf)
		if err != nil {
			return viol("client-decode-failed", "client decoder rejects its own cellblock: %v", err)
		}
		if int(n) != len(block) {
			return viol("client-decode-consumed", "client decoder consumed %d bytes of a %d byte block (+%d trailing)", n, len(block), len(trailing))
		}
		if len(resp.Result.Cell) != len(cells) {
			return viol("client-decode-count", "client decoder returned %d cells, independent decoder %d", len(resp.Result.Cell), len(cells))
		}
		for i, pc := range resp.Result.Cell {
			w := cells[i]
			if !bytes.Equal(pc.Row, w.Row) || !bytes.Equal(pc.Family, w.Family) || !bytes.Equal(pc.Qualifier, w.Qualifier) ||
				!bytes.Equal(pc.Value, w.Value) || pc.GetTimestamp() != w.Timestamp || byte(pc.GetCellType()) != w.Type {
				return viol("client-decode-differs", "cell %d: client decoder %v, independent decoder %+v", i, pc, flatCell{string(w.Family), string(w.Qualifier), trunc(w.Value), w.Timestamp, w.Type})
			}
		}
	}

	// (3) the protobuf form denotes the same set
	stage = "ToProto"
	preq := m.ToProto().(*pb.MutateRequest)
	if !bytes.Equal(preq.GetMutation().GetRow(), row) {
		return viol("proto-row-mismatch", "protobuf row differs from the mutation row")
	}
	var fromProto []flatCell
	mts := preq.GetMutation().Timestamp
	for _, cv := range preq.GetMutation().GetColumnValue() {
		for _, qv := range cv.GetQualifierValue() {
			ts := uint64(math.MaxInt64)
			if qv.Timestamp != nil {
				ts = qv.GetTimestamp()
			} else if mts != nil {
				ts = *mts
			}
			typ := byte(wire.TypePut)
			if c.Kind == "del" {
				if qv.DeleteType == nil {
					return viol("proto-delete-without-type", "delete qualifier value without delete_type")
				}
				typ = deleteTypeToKV(qv.GetDeleteType())
			} else if qv.DeleteType != nil {
				return viol("proto-put-with-delete-type", "non-delete mutation carries delete_type")
			}
			fromProto = append(fromProto, flatCell{string(cv.GetFamily()), string(qv.GetQualifier()), string(qv.GetValue()), ts, typ})
		}
	}
	if !flatEqual(fromProto, append([]flatCell(nil), fromBlock...)) {
		return viol("encodings-disagree", "protobuf form %s vs cellblock form %s", flatStr(fromProto), flatStr(fromBlock))
	}
	wantType := map[string]pb.MutationProto_MutationType{"put": pb.MutationProto_PUT, "app": pb.MutationProto_APPEND,
		"inc": pb.MutationProto_INCREMENT, "del": pb.MutationProto_DELETE}[c.Kind]
	if preq.GetMutation().GetMutateType() != wantType || mreq.GetMutation().GetMutateType() != wantType {
		return viol("mutate-type-wrong", "mutate type %v/%v, expected %v", preq.GetMutation().GetMutateType(), mreq.GetMutation().GetMutateType(), wantType)
	}
	return out
}

func proto32(v int32) *int32 { return &v }

func trunc(b []byte) string {
	if len(b) > 40 {
		return fmt.Sprintf("%q...(%d bytes)", b[:40], len(b))
	}
	return fmt.Sprintf("%q", b)
}

func flatStr(cs []flatCell) string {
	s := "["
	for i, c := range cs {
		if i > 6 {
			s += fmt.Sprintf(" ...%d more", len(cs)-i)
			break
		}
		s += fmt.Sprintf("{f=%s q=%s v=%s ts=%d type=%d}", trunc([]byte(c.Family)), trunc([]byte(c.Qualifier)), trunc([]byte(c.Value)), c.TS, c.Type)
	}
	return s + "]"
}

func c10Gen(t *rapid.T) c10Case {
	var c c10Case
	c.Kind = rapid.SampledFrom([]string{"put", "put", "app", "inc", "del", "del", "del"}).Draw(t, "kind")
	switch rapid.IntRange(0, 9).Draw(t, "rowkind") {
	case 0:
		c.Row = nil
	case 1:
		c.RowFill = rapid.SampledFrom([]int{255, 256, 257, 32767, 32768, 65535}).Draw(t, "rowfill")
		c.Row = evid.B{rapid.Byte().Draw(t, "fillb")}
	default:
		c.Row = evid.B(rapid.SliceOfN(rapid.Byte(), 0, 12).Draw(t, "row"))
	}
	c.HasTS = rapid.Bool().Draw(t, "hasts")
	if c.HasTS {
		switch rapid.IntRange(0, 5).Draw(t, "tskind") {
		case 0:
			c.TS = math.MaxUint64
		case 1:
			c.TS = math.MaxInt64
		case 2:
			c.TS = 0
		case 3:
			c.TS = uint64(math.MaxInt64) + 1
		default:
			c.TS = rapid.Uint64().Draw(t, "ts")
		}
	}
	if c.Kind == "del" {
		c.OneVersion = rapid.Bool().Draw(t, "onev")
	}
	if rapid.IntRange(0, 19).Draw(t, "nilvals") == 0 {
		c.NilValues = true
		return c
	}
	nf := rapid.IntRange(0, 4).Draw(t, "nfam")
	seenF := map[string]bool{}
	for i := 0; i < nf; i++ {
		var f c10Fam
		switch rapid.IntRange(0, 5).Draw(t, "famlen") {
		case 0:
			f.Name = nil
		case 1:
			f.Name = evid.B(bytes.Repeat([]byte{'F'}, 255))
		default:
			f.Name = evid.B(rapid.SliceOfN(rapid.Byte(), 1, 6).Draw(t, "fam"))
		}
		if seenF[string(f.Name)] {
			continue
		}
		seenF[string(f.Name)] = true
		f.Shape = rapid.SampledFrom([]string{"vals", "vals", "vals", "vals", "nil", "empty"}).Draw(t, "shape")
		if f.Shape == "vals" {
			nq := rapid.IntRange(1, 6).Draw(t, "nq")
			if rapid.IntRange(0, 15).Draw(t, "many") == 0 {
				nq = 20
			}
			seenQ := map[string]bool{}
			for j := 0; j < nq; j++ {
				q := c10Qual{
					Q: evid.B(rapid.SliceOfN(rapid.Byte(), 0, 5).Draw(t, "q")),
					V: evid.B(rapid.SliceOfN(rapid.Byte(), 0, 10).Draw(t, "v")),
				}
				if len(q.V) == 0 {
					q.NilV = rapid.Bool().Draw(t, "nilv")
				}
				if seenQ[string(q.Q)] {
					continue
				}
				seenQ[string(q.Q)] = true
				f.Quals = append(f.Quals, q)
			}
		}
		c.Fams = append(c.Fams, f)
	}
	if rapid.IntRange(0, 30).Draw(t, "big") == 0 {
		c.BigValue = rapid.SampledFrom([]int{65535, 65536, 70000, 218421, 300000, 1 << 20}).Draw(t, "bigv")
	}
	c.Trailing = evid.B(rapid.SliceOfN(rapid.Byte(), 0, 20).Draw(t, "trailing"))
	return c
}

func TestC10_Mutations(t *testing.T) {
	rec := evid.New("C10", "TestC10_Mutations",
		"rapid: mutation specifications (put/append/increment/delete with and without DeleteOneVersion, rows "+
			"of length 0..12 and 255/256/32767/32768/65535, families of length 0..6 and 255, nil/empty/non-empty "+
			"inner maps with up to 20 qualifiers, empty/nil/large values up to 1 MiB, timestamps over all 64 bits "+
			"incl. MaxUint64, MaxInt64, 0); oracles: independent KeyValue decoder, the client's own decoder (with "+
			"trailing data), declared size and cell count, and agreement of the protobuf form with the cellblock "+
			"form under the fixed DeleteType<->type-byte correspondence. Non-trivial = >=1 cell; distinct by "+
			"specification hash")
	Drive(t, rec, false, c10Gen, c10Run)
}

// FuzzC10 decodes the fuzz input into a specification with rapid's
// byte-stream driven generator and runs the same oracles.
func FuzzC10(f *testing.F) {
	f.Add([]byte{0})
	f.Add([]byte("\x01\x02\x03\x04\x05\x06\x07\x08\x09\x0a\x0b\x0c\x0d\x0e\x0f"))
	f.Fuzz(rapid.MakeFuzz(func(t *rapid.T) {
		c := c10Gen(t)
		if c.BigValue > 70000 {
			c.BigValue = 70000
		}
		if out := c10Run(c); out.Sig != "" {
			t.Fatalf("VERIFSIG=%s %s", out.Sig, out.Msg)
		}
	}))
}
