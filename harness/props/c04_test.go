package props

import (
	"bytes"
	"context"
	"fmt"
	"sort"
	"strings"
	"sync"
	"testing"
	"testing/synctest"
	"time"

	"github.com/tsuna/gohbase"
	"github.com/tsuna/gohbase/hrpc"
	"pgregory.net/rapid"

	"verifharness/evid"
	"verifharness/sim"
)

// c04Event is one cluster event at a virtual time offset.
type c04Event struct {
	AtMS   int    `json:"at_ms"`
	Kind   string `json:"kind"`             // move | split | merge | transient | abort | stop | reset | dialdown | metamove
	Region int    `json:"region,omitempty"` // index into the table's current regions (mod count)
	Server int    `json:"server,omitempty"` // target / affected server (mod count)
	Key    evid.B `json:"key,omitempty"`    // split point hint
	Class  string `json:"class,omitempty"`
	Count  int    `json:"count,omitempty"`
	DownMS int    `json:"down_ms,omitempty"`
}

type c04Req struct {
	AtMS  int      `json:"at_ms"`
	Op    *opSpec  `json:"op,omitempty"`
	Batch []opSpec `json:"batch,omitempty"`
	// GiveUpMS > 0: an impatient bystander - its context is cancelled that many virtual ms after it
	// was issued (typically before its multi-request is flushed); it travels with the other
	// requests and its own outcome does not matter
	GiveUpMS int `json:"give_up_ms,omitempty"`
}

type c04Case struct {
	Layout  layoutSpec        `json:"layout"`
	Events  []c04Event        `json:"events"`
	Reqs    []c04Req          `json:"reqs"`
	Queue   int               `json:"queue"`
	FlushMS int               `json:"flush_ms"`
	Fatal   map[string]string `json:"fatal,omitempty"` // marker -> application exception class (first attempt)
	Tape    evid.B            `json:"tape,omitempty"`
	// Log: the client's logger ("" discards unevaluated; json / text: Debug-level slog handlers that marshal every attribute)
	Log string `json:"log,omitempty"`
}

func c04Run(c c04Case) Outcome {
	var o Outcome
	res := inBubble(theT, func() { o = c04RunInBubble(c, false) })
	if o, stuck := stuckVerdict(res); stuck {
		return o
	}
	if res.Panic != "" {
		return viol("panic@"+topFrame(res.Stack), "%s\n%s", res.Panic, res.Stack)
	}
	if res.Deadlock != "" && o.Sig == "" {
		if exitLeak(res.Deadlock) {
			o.Labels = append(o.Labels, "goroutines_left_at_exit")
			return o
		}
		return viol("fault-deadlock", "bubble deadlocked: %s\n%s", res.Deadlock, bubbleStacks(res.Stack))
	}
	return o
}

// c04Apply applies one event to the cluster.
func c04Apply(cl *sim.Cluster, table string, addrs []string, ev c04Event, seq int) string {
	regs := cl.TableRegions(table)
	if len(regs) == 0 {
		return "noop"
	}
	r := regs[((ev.Region%len(regs))+len(regs))%len(regs)]
	addr := addrs[((ev.Server%len(addrs))+len(addrs))%len(addrs)]
	id := uint64(5000 + 10*seq)
	switch ev.Kind {
	case "move":
		cl.Move(r, addr)
	case "split":
		at := []byte(ev.Key)
		if len(at) == 0 || !r.Contains(at) || bytes.Equal(at, r.Start) {
			// derive a split point inside the region
			at = append(append([]byte(nil), r.Start...), 'm')
			if !r.Contains(at) || bytes.Equal(at, r.Start) {
				return "noop"
			}
		}
		cl.Split(r, at, id, r.Addr, addr)
	case "merge":
		i := ((ev.Region % len(regs)) + len(regs)) % len(regs)
		if i+1 >= len(regs) {
			return "noop"
		}
		cl.MergeIfNeighbours(regs[i], regs[i+1], id, addr)
	case "transient":
		cl.Lock()
		for k := 0; k < ev.Count; k++ {
			stack := ev.Class + ": transient"
			if ev.Class == sim.IOExc {
				stack = "java.io.IOException: Cannot append; log is closed"
			}
			r.Transient = append(r.Transient, sim.Exc{Class: ev.Class, Stack: stack})
		}
		cl.Unlock()
	case "abort", "stop":
		class := sim.RSAborted
		if ev.Kind == "stop" {
			class = sim.RSStopped
		}
		// the server starts failing every request, its regions are reassigned, and it
		// comes back (empty) after DownMS
		var other string
		for _, a := range addrs {
			if a != addr {
				other = a
			}
		}
		if other == "" {
			// a single-server cluster: the server restarts in place
			other = addr
		}
		cl.Lock()
		for _, x := range cl.Regions {
			if x.Addr == addr {
				x.Addr = other
			}
		}
		if cl.MetaAddr == addr {
			cl.MetaAddr = other
		}
		cl.Unlock()
		cl.SetServer(addr, func(s *sim.ServerState) { s.Fatal = class })
		down := time.Duration(ev.DownMS) * time.Millisecond
		go func() {
			time.Sleep(down / 2)
			cl.SetServer(addr, func(s *sim.ServerState) { s.Down = true; s.Fatal = "" })
			cl.KillConns(addr)
			time.Sleep(down / 2)
			cl.SetServer(addr, func(s *sim.ServerState) { s.Down = false })
		}()
	case "probekill":
		cl.Lock()
		r.KillAfterProbe += 1 + ev.Count%2
		cl.Unlock()
	case "probedenied":
		// from now on the region refuses the client's probe with an application-level exception (the probe's row is
		// not this user's to read, say) while it serves requests: it is online, and has to count as established
		cl.Lock()
		r.ProbeExc = &sim.Exc{Class: ev.Class, Stack: "probe refused"}
		if ev.Count > 0 {
			// ... and it has to be established anew
			r.Transient = append(r.Transient, sim.Exc{Class: sim.NSRE, Stack: sim.NSRE + ": closing"})
		}
		cl.Unlock()
	case "reset":
		cl.KillConns(addr)
	case "dialdown":
		cl.SetServer(addr, func(s *sim.ServerState) { s.Down = true })
		cl.KillConns(addr)
		down := time.Duration(ev.DownMS) * time.Millisecond
		go func() {
			time.Sleep(down)
			cl.SetServer(addr, func(s *sim.ServerState) { s.Down = false })
		}()
	case "metamove":
		cl.Lock()
		cl.MetaAddr = addr
		cl.Unlock()
	case "mergeheld":
		// two neighbours stop serving while hbase:meta answers nothing: whoever asks for them parks a
		// re-establisher in its lookup; the two are merged meanwhile, and all the parked lookups are
		// answered at the same instant (several establishers learn about the same new region at once)
		i := ((ev.Region % len(regs)) + len(regs)) % len(regs)
		if i+1 >= len(regs) {
			return "noop"
		}
		a, b := regs[i], regs[i+1]
		cl.Lock()
		a.Transient = append(a.Transient, sim.Exc{Class: sim.NSRE, Stack: sim.NSRE + ": closing for merge"})
		b.Transient = append(b.Transient, sim.Exc{Class: sim.NSRE, Stack: sim.NSRE + ": closing for merge"})
		cl.MetaHold = true
		cl.Unlock()
		hold := time.Duration(ev.DownMS) * time.Millisecond
		go func() {
			time.Sleep(hold)
			cl.MergeIfNeighbours(a, b, id, addr)
			cl.Lock()
			cl.MetaHold = false
			cl.Unlock()
		}()
	}
	return ev.Kind
}

func c04RunInBubble(c c04Case, concurrentInjector bool) (out Outcome) {
	defer withLog(c.Log)()
	cl := c.Layout.build()
	cl.Tape = c.Tape
	cl.PermuteMulti = true
	bubbleDebug = func() string { return cl.RecentExecs(60) }
	defer func() { bubbleDebug = nil }()
	for mk, class := range c.Fatal {
		// every attempt that reaches the owning region is answered with the exception (a
		// response can be lost with its connection, the request is then legitimately re-sent)
		for k := 0; k < 64; k++ {
			cl.Script[mk] = append(cl.Script[mk], sim.Outcome{Kind: "exc", Class: class, Stack: "scripted"})
		}
	}
	connFaults := false
	for _, ev := range c.Events {
		switch ev.Kind {
		case "abort", "stop", "reset", "dialdown", "probekill":
			connFaults = true
		}
	}
	addrs := c.Layout.addrs()
	client := newSimClient(cl, gohbase.RpcQueueSize(c.Queue), gohbase.FlushInterval(time.Duration(c.FlushMS)*time.Millisecond))
	start := time.Now()
	var mu sync.Mutex
	var first *Outcome
	fail := func(sig, format string, a ...any) {
		mu.Lock()
		if first == nil {
			o := viol(sig, format, a...)
			first = &o
		}
		mu.Unlock()
	}
	metFault := map[string]bool{}
	// events
	evs := append([]c04Event(nil), c.Events...)
	sort.SliceStable(evs, func(i, j int) bool { return evs[i].AtMS < evs[j].AtMS })
	lastEvent := 0
	for _, ev := range evs {
		if end := ev.AtMS + ev.DownMS; end > lastEvent {
			lastEvent = end
		}
	}
	var wg sync.WaitGroup
	wg.Add(1)
	go func() {
		defer wg.Done()
		for i, ev := range evs {
			if d := time.Until(start.Add(time.Duration(ev.AtMS) * time.Millisecond)); d > 0 {
				time.Sleep(d)
			}
			c04Apply(cl, c.Layout.Table, addrs, ev, i)
		}
	}()
	check := func(op opSpec, err error, cerr error) {
		class, fatal := c.Fatal[op.Marker]
		switch {
		case fatal:
			if err == nil {
				fail("fatal-error-swallowed", "call %s was answered with %s but succeeded", op.Marker, class)
			} else if mks := errMarkers(err); len(mks) != 1 || mks[0] != op.Marker || !strings.Contains(err.Error(), class) {
				fail("fatal-error-changed", "call %s was answered with %s; the caller got %v", op.Marker, class, err)
			}
		case err != nil:
			fail("request-failed", "call %s (row %q) failed with %v although the cluster became stable and its context is live", op.Marker, op.Key, err)
		case cerr != nil:
			fail("foreign-response", "call %s: %v", op.Marker, cerr)
		}
	}
	pending := int64(0)
	for _, rq := range c.Reqs {
		wg.Add(1)
		mu.Lock()
		pending++
		mu.Unlock()
		go func(rq c04Req) {
			defer wg.Done()
			defer func() { mu.Lock(); pending--; mu.Unlock() }()
			if d := time.Until(start.Add(time.Duration(rq.AtMS) * time.Millisecond)); d > 0 {
				time.Sleep(d)
			}
			ctx := context.Background()
			if rq.GiveUpMS > 0 && rq.Op != nil {
				cctx, cancel := context.WithTimeout(ctx, time.Duration(rq.GiveUpMS)*time.Millisecond)
				defer cancel()
				_, cerr := doOp(client, cctx, c.Layout.Table, *rq.Op)
				if cerr != nil {
					fail("foreign-response", "impatient call %s: %v", rq.Op.Marker, cerr)
				}
				return
			}
			if rq.Op != nil {
				err, cerr := doOp(client, ctx, c.Layout.Table, *rq.Op)
				check(*rq.Op, err, cerr)
				return
			}
			var calls []hrpc.Call
			for _, op := range rq.Batch {
				call, _ := buildCall(ctx, c.Layout.Table, op)
				calls = append(calls, call)
			}
			rs, _ := client.SendBatch(ctx, calls)
			if len(rs) != len(calls) {
				fail("batch-result-count", "batch of %d returned %d results", len(calls), len(rs))
				return
			}
			for i, op := range rq.Batch {
				var cerr error
				if rs[i].Error == nil {
					cerr = checkOpResult(op, rs[i].Msg)
				}
				check(op, rs[i].Error, cerr)
			}
		}(rq)
	}
	done := make(chan struct{})
	go func() { wg.Wait(); close(done) }()
	finished := waitOrHorizon(done, time.Duration(lastEvent)*time.Millisecond+10*time.Minute)
	var stuck string
	if !finished {
		stuck = firstGohbaseStack(gohbaseGoroutines(), "SendRPC", "SendBatch")
	}
	execs, _, problems := cl.Snapshot()
	unavailable := ""
	establishers := ""
	if finished && concurrentInjector {
		// C09: once the cluster is stable (and pending re-establishments had the time of a
		// full back-off cycle), no cached region stays marked unavailable and no establisher runs
		time.Sleep(3 * time.Minute)
		synctest.Wait()
		for _, r := range gohbase.VerifCachedRegions(client) {
			if r.IsUnavailable() && r.Context().Err() == nil {
				unavailable = r.String()
			}
		}
		for _, g := range gohbaseGoroutines() {
			if strings.Contains(g, "establishRegion") {
				establishers = g
			}
		}
	}
	// (what blocked requests report once the harness closes the client is not their verdict)
	mu.Lock()
	firstBeforeClose := first
	mu.Unlock()
	client.Close()
	drainClient()
	cl.Stop()
	if finished {
		<-done
	}
	if firstBeforeClose != nil {
		return *firstBeforeClose
	}
	if !finished {
		mu.Lock()
		n := pending
		mu.Unlock()
		return viol("request-stuck", "%d request(s) still blocked 10 virtual minutes after the last cluster event; blocked at:\n%s", n, stuck)
	}
	if len(problems) > 0 {
		return viol("wire-problem", "the simulated servers saw malformed or misrouted traffic: %v", problems)
	}
	if unavailable != "" {
		return viol("region-stays-unavailable", "3 virtual minutes after the cluster became stable and all requests finished, cached region %s is still marked unavailable; establisher: %s", unavailable, truncStr(establishers, 1200))
	}
	// executions: success => executed exactly once...at least once under lost responses;
	// fatal => attempted exactly once
	attempts := map[string]int{}
	executed := map[string]int{}
	for _, e := range execs {
		if e.Marker == "" {
			continue
		}
		attempts[e.Marker]++
		if e.Executed {
			executed[e.Marker]++
		}
		if !e.Executed {
			metFault[e.Marker] = true
		}
	}
	all := 0
	met := 0
	for _, rq := range c.Reqs {
		ops := rq.Batch
		if rq.Op != nil {
			ops = []opSpec{*rq.Op}
		}
		if rq.GiveUpMS > 0 {
			continue // a bystander: it may have given up before anything was sent
		}
		for _, op := range ops {
			all++
			if class, fatal := c.Fatal[op.Marker]; fatal {
				answered := 0
				for _, e := range execs {
					if e.Marker == op.Marker && e.Result == class {
						answered++
					}
				}
				// (with connection-level events a response may be lost and the request re-sent)
				if answered != 1 && !connFaults {
					return viol("fatal-error-retried", "call %s was answered with %s %d times: a non-retryable error was retried", op.Marker, class, answered)
				}
				continue
			}
			if executed[op.Marker] == 0 {
				return viol("success-without-execution", "call %s succeeded but no server executed it", op.Marker)
			}
			if attempts[op.Marker] > 1 || metFault[op.Marker] {
				met++
			}
		}
	}
	out.NonTrivial = met > 0
	if met > 0 {
		out.Labels = append(out.Labels, "request_met_fault")
	}
	for _, ev := range c.Events {
		out.Labels = append(out.Labels, "ev_"+ev.Kind)
	}
	return out
}

var c04TransientClasses = []string{sim.NSRE, sim.RegionMoved, sim.IOExc, sim.CallQueueBig, sim.RegionOpening, sim.Throttling, sim.RetryImm, sim.TooBusy, sim.PleaseHold}

func c04Gen(t *rapid.T) c04Case {
	var c c04Case
	c.Layout = genLayout(t, 5, 4)
	c.Layout.Siblings = nil
	if c.Layout.NServers < 2 {
		c.Layout.NServers = 2
	}
	c.Queue = rapid.SampledFrom([]int{1, 2, 100}).Draw(t, "queue")
	c.FlushMS = rapid.SampledFrom([]int{0, 1, 20}).Draw(t, "flush")
	c.Tape = rapid.SliceOfN(rapid.Byte(), 0, 8).Draw(t, "tape")
	c.Log = rapid.SampledFrom([]string{"", "", "", "json", "text"}).Draw(t, "log")
	ne := rapid.IntRange(1, 8).Draw(t, "nevents")
	for i := 0; i < ne; i++ {
		ev := c04Event{
			AtMS:   rapid.SampledFrom([]int{0, 1, 5, 20, 21, 40, 100, 500, 1000, 2000}).Draw(t, "at"),
			Kind:   rapid.SampledFrom([]string{"move", "split", "merge", "transient", "transient", "abort", "stop", "reset", "dialdown", "metamove", "probekill", "probedenied"}).Draw(t, "kind"),
			Region: rapid.IntRange(0, 5).Draw(t, "region"),
			Server: rapid.IntRange(0, 3).Draw(t, "server"),
		}
		switch ev.Kind {
		case "split":
			ev.Key = evid.B(genKeyFor(t, c.Layout))
		case "transient":
			ev.Class = rapid.SampledFrom(c04TransientClasses).Draw(t, "class")
			ev.Count = rapid.IntRange(1, 4).Draw(t, "count")
		case "probedenied":
			ev.Class = rapid.SampledFrom([]string{"org.apache.hadoop.hbase.security.AccessDeniedException", sim.DoNotRetry, sim.WrongRegion, appExc}).Draw(t, "pclass")
			ev.Count = rapid.IntRange(0, 1).Draw(t, "pcount")
		case "abort", "stop", "dialdown":
			// (also outages longer than the 30 s region lookup time-out)
			ev.DownMS = rapid.SampledFrom([]int{10, 100, 1000, 20000, 45000, 120000}).Draw(t, "down")
		}
		c.Events = append(c.Events, ev)
	}
	n := 0
	nr := rapid.IntRange(1, 20).Draw(t, "nreqs")
	kinds := []string{"get", "get", "put", "app", "inc", "del"}
	c.Fatal = map[string]string{}
	for i := 0; i < nr; i++ {
		rq := c04Req{AtMS: rapid.SampledFrom([]int{0, 0, 1, 5, 19, 22, 45, 110, 600, 1500, 2500, 30000}).Draw(t, "reqat")}
		if rapid.IntRange(0, 3).Draw(t, "batch") == 0 {
			nb := rapid.IntRange(1, 6).Draw(t, "nb")
			for k := 0; k < nb; k++ {
				rq.Batch = append(rq.Batch, genOp(t, c.Layout, kinds, &n))
			}
		} else {
			op := genOp(t, c.Layout, kinds, &n)
			rq.Op = &op
			if rapid.IntRange(0, 5).Draw(t, "impatient") == 0 {
				rq.GiveUpMS = rapid.SampledFrom([]int{1, 1, 3, 25}).Draw(t, "giveup")
			} else if rapid.IntRange(0, 9).Draw(t, "fatal") == 0 {
				c.Fatal[op.Marker] = rapid.SampledFrom([]string{appExc, sim.DoNotRetry, "java.lang.IllegalArgumentException"}).Draw(t, "fclass")
			}
		}
		c.Reqs = append(c.Reqs, rq)
	}
	return c
}

func TestC04_FaultSurvival(t *testing.T) {
	theT = t
	rec := evid.New("C04", "TestC04_FaultSurvival",
		"rapid, virtual time with the real back-off: a cluster of 1..5 regions on 2..4 simulated servers and a script "+
			"of 1..8 events at virtual times (region move, split, merge, 1..4 transient NotServing / RegionMoved / "+
			"IOException-log-closed / CallQueueTooBig / RegionOpening / Throttling / RetryImmediately / TooBusy / "+
			"PleaseHold answers, server abort and stop with reassignment and a down period, connection reset, dial "+
			"refused for a while, hbase:meta relocated), interleaved with 1..20 single or batched requests issued "+
			"before, during and after the events; some requests are answered with an application / DoNotRetry exception, some are "+
			"impatient bystanders whose own context ends 1..25 virtual ms after they were issued (they share multi-requests with the others). "+
			"Oracle: every other request succeeds with its own key-derived response within 10 virtual minutes after "+
			"the last event and was executed by the server hosting its region (the servers reject and record misrouted "+
			"requests); application exceptions come back unchanged and are not retried. Non-trivial = >= 1 request met a "+
			"fault (saw an exception, a redirect or a dead connection) before succeeding; distinct by case hash")
	Drive(t, rec, true, c04Gen, c04Run)
}

// ---- classification table: one scripted exception, observed reaction

type c04ClassCase struct {
	Class string `json:"class"`
	Stack string `json:"stack"`
	Batch bool   `json:"batch"`
}

func c04ClassRun(c c04ClassCase) Outcome {
	var o Outcome
	res := inBubble(theT, func() { o = c04ClassInBubble(c) })
	if o, stuck := stuckVerdict(res); stuck {
		return o
	}
	if res.Panic != "" {
		return viol("panic@"+topFrame(res.Stack), "%s\n%s", res.Panic, res.Stack)
	}
	if res.Deadlock != "" && o.Sig == "" && !exitLeak(res.Deadlock) {
		return viol("fault-deadlock", "bubble deadlocked: %s", res.Deadlock)
	}
	return o
}

// wantReaction is the oracle's own table, from the property text.
func wantReaction(class, stack string) string {
	switch class {
	case sim.CallQueueBig, sim.RegionOpening, sim.Throttling, sim.RetryImm, sim.TooBusy, sim.PleaseHold:
		return "backoff"
	case sim.NSRE, sim.RegionMoved:
		return "relocate"
	case sim.IOExc:
		if strings.Contains(stack, "Cannot append; log is closed") {
			return "relocate"
		}
		return "surface"
	case sim.RSAborted, sim.RSStopped, sim.MasterStopped, sim.NotRunningYet:
		return "reconnect"
	}
	return "surface"
}

func c04ClassInBubble(c c04ClassCase) (out Outcome) {
	cl := sim.New("rs1:16020", "rs2:16020")
	cl.AddTable("t", nil, []string{"rs2:16020"}, 1000, false)
	client := newSimClient(cl, gohbase.RpcQueueSize(2), gohbase.FlushInterval(0))
	defer func() {
		client.Close()
		drainClient()
		cl.Stop()
	}()
	// warm up so that the reaction is not mixed with first-time discovery
	g, _ := hrpc.NewGet(context.Background(), []byte("t"), []byte("a"), hrpc.Families(markerFam("mkwarm")))
	if _, err := client.Get(g); err != nil {
		return viol("harness", "warm-up: %v", err)
	}
	cl.Script["mk1"] = []sim.Outcome{{Kind: "exc", Class: c.Class, Stack: c.Stack}}
	cl.Lock()
	meta0, dials0 := cl.MetaScans, len(cl.Dials)
	cl.Unlock()
	t0 := time.Now()
	var err error
	op := opSpec{Kind: "get", Key: evid.B("a"), Marker: "mk1"}
	done := make(chan struct{})
	go func() {
		defer close(done)
		if c.Batch {
			call, _ := buildCall(context.Background(), "t", op)
			rs, _ := client.SendBatch(context.Background(), []hrpc.Call{call})
			err = rs[0].Error
		} else {
			err, _ = doOp(client, context.Background(), "t", op)
		}
	}()
	if !waitOrHorizon(done, 5*time.Minute) {
		return viol("request-stuck", "request answered once with %s did not finish in 5 virtual minutes", c.Class)
	}
	elapsed := time.Since(t0)
	execs, dials, _ := cl.Snapshot()
	cl.Lock()
	meta1 := cl.MetaScans
	cl.Unlock()
	attempts := 0
	for _, e := range execs {
		if e.Marker == "mk1" {
			attempts++
		}
	}
	got := "surface"
	switch {
	case err == nil && len(dials) > dials0:
		// (a server that answers with a server-fatal class closes the connection itself;
		// whether the client also closes its end is not part of the classification)
		got = "reconnect"
	case err == nil && meta1 > meta0:
		got = "relocate"
	case err == nil && attempts == 2 && elapsed >= 16*time.Millisecond:
		got = "backoff"
	case err == nil:
		got = fmt.Sprintf("retried(attempts=%d, elapsed=%v)", attempts, elapsed)
	}
	want := wantReaction(c.Class, c.Stack)
	if got != want {
		return viol("classification@"+c.Class, "exception %s (%q): observed reaction %q (err=%v, attempts=%d, meta scans +%d, dials +%d, elapsed %v), the property's table says %q",
			c.Class, c.Stack, got, err, attempts, meta1-meta0, len(dials)-dials0, elapsed, want)
	}
	if want == "surface" {
		if attempts != 1 {
			return viol("fatal-error-retried", "%s surfaced but the request was sent %d times", c.Class, attempts)
		}
		if !strings.Contains(err.Error(), c.Class) || !strings.Contains(err.Error(), "marker=mk1") {
			return viol("fatal-error-changed", "%s surfaced as %v", c.Class, err)
		}
	}
	out.NonTrivial = true
	out.Labels = append(out.Labels, "reaction_"+want)
	return out
}

func TestC04_Classification(t *testing.T) {
	theT = t
	rec := evid.New("C04", "TestC04_Classification",
		"enumeration + rapid: for every exception class name of the client's three tables, java.io.IOException with "+
			"and without 'Cannot append; log is closed', and unknown / DoNotRetry classes, one warm request (single and "+
			"batched) is answered once with that exception; the observed reaction (retry after >= 16 ms on the same "+
			"connection / meta re-lookup / connection closed and re-dialled / surfaced unchanged after one attempt) "+
			"must equal the oracle's own table derived from the property text. Distinct by (class, stack, batch)")
	Drive(t, rec, true, func(t *rapid.T) c04ClassCase {
		classes := append([]string{}, allExcClasses...)
		classes = append(classes, sim.IOExc, sim.IOExc, sim.DoNotRetry, appExc, "org.apache.hadoop.hbase.UnknownScannerException",
			"org.apache.hadoop.hbase.NotServingRegionExceptionX", "java.lang.RuntimeException")
		c := c04ClassCase{Class: rapid.SampledFrom(classes).Draw(t, "class"), Batch: rapid.Bool().Draw(t, "batch")}
		c.Stack = rapid.SampledFrom([]string{"boom", "Cannot append; log is closed", "some trace\n\tat x.y"}).Draw(t, "stack")
		return c
	}, c04ClassRun)
}
