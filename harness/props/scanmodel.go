package props

import (
	"bytes"
	"context"
	"errors"
	"fmt"
	"io"
	"sort"
	"sync"
	"time"

	"github.com/tsuna/gohbase/hrpc"
	"github.com/tsuna/gohbase/pb"
	"github.com/tsuna/gohbase/region"
	"google.golang.org/protobuf/proto"

	"verifharness/evid"
)

// scanRow is one row of the model table.
type scanRow struct {
	Key   evid.B `json:"key"`
	Cells int    `json:"cells"` // 1..k cells; qualifier q<i>, value derived from key
}

// scanSpec describes a table, a layout, a scan and how the servers chunk it.
type scanSpec struct {
	Rows     []scanRow `json:"rows"`   // sorted, distinct keys
	Bounds   []evid.B  `json:"bounds"` // region split points, sorted
	Start    evid.B    `json:"start"`
	Stop     evid.B    `json:"stop"`
	Reversed bool      `json:"reversed"`
	NumRows  uint32    `json:"num_rows"` // 0 = default
	Partials bool      `json:"allow_partials"`
	Tape     []byte    `json:"tape"` // server chunking decisions; 0 = plainest choice
	// EmptyFragments allows zero-cell partial results after a non-empty
	// fragment of the same row.
	EmptyFragments bool `json:"empty_fragments,omitempty"`
	// EmptyFirst allows a zero-cell partial result BEFORE the first fragment of a row (and as the
	// very first result of a scan): structurally valid, carries nothing.
	EmptyFirst bool `json:"empty_first,omitempty"`
	// UnaskedMetrics: every response carries scan metrics although the scan did not ask for them
	// (a field the client did not expect in a well-formed message).
	UnaskedMetrics bool `json:"unasked_metrics,omitempty"`
	// CloseOpt: the scan carries the CloseScanner option (every region scanner is closed by the server with
	// its first response). Generated only where every region answers completely in one response.
	CloseOpt bool `json:"close_opt,omitempty"`
	// Twice runs the same scan a second time against the same cached region objects
	// (a scan must not leave anything behind that changes the next one).
	Twice bool `json:"twice,omitempty"`
}

func (s scanSpec) regionBounds(i int) (start, stop []byte) {
	if i > 0 {
		start = s.Bounds[i-1]
	}
	if i < len(s.Bounds) {
		stop = s.Bounds[i]
	}
	return
}

func (s scanSpec) nRegions() int { return len(s.Bounds) + 1 }

func (s scanSpec) regionOf(key []byte) int {
	for i := 0; i < s.nRegions(); i++ {
		st, sp := s.regionBounds(i)
		if bytes.Compare(st, key) <= 0 && (len(sp) == 0 || bytes.Compare(key, sp) < 0) {
			return i
		}
	}
	return -1
}

func rowCells(r scanRow) []*pb.Cell {
	out := make([]*pb.Cell, r.Cells)
	for i := range out {
		ts := uint64(1000 + i)
		out[i] = &pb.Cell{
			Row:       []byte(r.Key),
			Family:    []byte("f"),
			Qualifier: []byte(fmt.Sprintf("q%d", i)),
			Value:     []byte(fmt.Sprintf("v%d:%x", i, []byte(r.Key))),
			Timestamp: &ts,
			CellType:  pb.CellType_PUT.Enum(),
		}
	}
	return out
}

// inRange says whether key is in the scan's range.
func (s scanSpec) inRange(key []byte) bool {
	if !s.Reversed {
		return bytes.Compare(key, s.Start) >= 0 && (len(s.Stop) == 0 || bytes.Compare(key, s.Stop) < 0)
	}
	return (len(s.Start) == 0 || bytes.Compare(key, s.Start) <= 0) &&
		(len(s.Stop) == 0 || bytes.Compare(key, s.Stop) > 0)
}

// expected returns the rows the scan must yield, in scan order.
func (s scanSpec) expected() []scanRow {
	var out []scanRow
	for _, r := range s.Rows {
		if s.inRange(r.Key) {
			out = append(out, r)
		}
	}
	if s.Reversed {
		for i, j := 0, len(out)-1; i < j; i, j = i+1, j-1 {
			out[i], out[j] = out[j], out[i]
		}
	}
	return out
}

// srvScanner is a region scanner at the model server.
type srvScanner struct {
	id         uint64
	region     int
	rows       []scanRow    // remaining whole rows, scan order
	pending    [][]*pb.Cell // remaining fragments of a row already started
	lastFlag   bool         // whether the final pending fragment is to be flagged partial
	exhausted  bool         // more_results_in_region=false was sent
	closed     bool         // explicit close received
	rangeDone  bool         // no row of the scan lies beyond this region
	heartbeat  int
	delivered  bool // the id was delivered to the client in a response
	releasedAt time.Time
}

// scanModel implements gohbase.RPCClient for a scanner under test and is the
// server-side oracle: it validates every request the way a regionserver
// would and records what happened.
type scanModel struct {
	mu       sync.Mutex
	spec     scanSpec
	regions  []hrpc.RegionInfo
	scanners map[uint64]*srvScanner
	nextID   uint64
	tapePos  int
	requests int // non-close requests seen
	budget   int
	// fault injection
	failOn  int // fail the n-th (1-based) non-close request with failErr; 0 = never
	failErr error
	ended   bool // the harness declared the scan over
	// findings (protocol violations by the client)
	problems []string
	trace    []string
	// observations
	multiRegion, fragmented, heartbeats, boundEqBoundary, earlyNoMore bool
	emptyFirst                                                        int
	// cancelAfter > 0: the scan's context is cancelled (cancelFn) while request number cancelAfter is
	// being answered - the response still reaches the client; emitted counts the cells sent per row
	cancelAfter          int
	cancelFn             func()
	emitted              map[string]int
	endedAt              time.Time
	closeReqs, renewReqs int
}

var errBudget = errors.New("model server: request budget exceeded (scan does not terminate)")

func newScanModel(spec scanSpec) *scanModel {
	m := &scanModel{spec: spec, scanners: map[uint64]*srvScanner{}, nextID: 100}
	for i := 0; i < spec.nRegions(); i++ {
		st, sp := spec.regionBounds(i)
		name := []byte(fmt.Sprintf("t,%s,%d", st, i+1))
		m.regions = append(m.regions, region.NewInfo(uint64(i+1), nil, []byte("t"), name, st, sp))
	}
	cells := 0
	for _, r := range spec.Rows {
		cells += r.Cells
	}
	m.budget = 60 + 12*(spec.nRegions()+cells) + 4*len(spec.Tape)
	for _, b := range spec.Bounds {
		if bytes.Equal(b, spec.Start) || bytes.Equal(b, spec.Stop) {
			m.boundEqBoundary = true
		}
	}
	return m
}

// reset forgets the server-side state of a finished scan but keeps the region objects
// (the client's location cache hands the same objects to every scan).
func (m *scanModel) reset() {
	m.mu.Lock()
	defer m.mu.Unlock()
	m.scanners = map[uint64]*srvScanner{}
	m.tapePos, m.requests, m.ended = 0, 0, false
	m.trace = nil
}

func (m *scanModel) tape() byte {
	if len(m.spec.Tape) == 0 {
		return 0
	}
	v := m.spec.Tape[m.tapePos%len(m.spec.Tape)]
	m.tapePos++
	return v
}

func (m *scanModel) problem(format string, a ...any) {
	if len(m.problems) >= 4 {
		return
	}
	m.problems = append(m.problems, fmt.Sprintf(format, a...))
}

// SendRPC plays the regionserver (and the routing layer of the client).
func (m *scanModel) SendRPC(rpc hrpc.Call) (proto.Message, error) {
	_, ok := rpc.(*hrpc.Scan)
	if !ok {
		return nil, fmt.Errorf("model server: unexpected call %T", rpc)
	}
	// what the real client does first: a dead context is never sent
	if err := rpc.Context().Err(); err != nil {
		return nil, err
	}
	m.mu.Lock()
	defer m.mu.Unlock()
	// routing as the real client does it: region containing rpc.Key()
	ri := m.spec.regionOf(rpc.Key())
	if ri < 0 {
		return nil, fmt.Errorf("model server: no region for key %q", rpc.Key())
	}
	rpc.SetRegion(m.regions[ri])
	req, ok := rpc.ToProto().(*pb.ScanRequest)
	if !ok {
		return nil, errors.New("model server: ToProto is not a ScanRequest")
	}
	m.trace = append(m.trace, fmt.Sprintf("req key=%q id=%v close=%v renew=%v n=%d", rpc.Key(), req.ScannerId != nil, req.GetCloseScanner(), req.GetRenew(), req.GetNumberOfRows()))
	if !bytes.Equal(req.GetRegion().GetValue(), m.regions[ri].Name()) {
		m.problem("request names region %q but was routed to %q", req.GetRegion().GetValue(), m.regions[ri].Name())
	}
	isClose := req.GetCloseScanner() && req.ScannerId != nil
	if !isClose {
		if m.ended {
			// (a lease renewal that was already on its way at the very instant the scan ended is the
			// renewer goroutine losing a benign race; one that comes later is a renewer still running)
			if !(req.GetRenew() && req.ScannerId != nil && !time.Now().After(m.endedAt)) {
				m.problem("request after the scan ended: scanner_id=%v renew=%v", req.ScannerId != nil, req.GetRenew())
			}
			return nil, errors.New("model server: scan is over")
		}
		if !req.GetRenew() {
			m.requests++
			if m.requests > m.budget {
				return nil, errBudget
			}
			if m.failOn > 0 && m.requests == m.failOn {
				return nil, m.failErr
			}
		}
	}
	if req.ScannerId != nil {
		sc := m.scanners[req.GetScannerId()]
		if sc == nil {
			m.problem("request for unknown scanner id %d", req.GetScannerId())
			return nil, errors.New("org.apache.hadoop.hbase.UnknownScannerException")
		}
		if sc.closed || sc.exhausted {
			if isClose {
				// closing an already released scanner is harmless
				m.closeReqs++
				return &pb.ScanResponse{}, nil
			}
			// (a renewal racing with the request that released the scanner at the same instant is benign)
			if !(req.GetRenew() && !time.Now().After(sc.releasedAt)) {
				m.problem("request on scanner %d which is already %s", sc.id, map[bool]string{true: "closed", false: "exhausted"}[sc.closed])
			}
			return nil, errors.New("org.apache.hadoop.hbase.UnknownScannerException")
		}
		if sc.region != ri {
			m.problem("continuation for scanner %d of region %d was routed to region %d (key %q)", sc.id, sc.region, ri, rpc.Key())
		}
		if isClose {
			m.closeReqs++
			sc.closed = true
			sc.releasedAt = time.Now()
			return &pb.ScanResponse{ScannerId: proto.Uint64(sc.id), MoreResults: proto.Bool(false)}, nil
		}
		if req.GetRenew() {
			m.renewReqs++
			return &pb.ScanResponse{ScannerId: proto.Uint64(sc.id), MoreResultsInRegion: proto.Bool(true), MoreResults: proto.Bool(true)}, nil
		}
		resp := m.respond(sc, req)
		m.maybeCancel()
		return resp, nil
	}
	// open
	if req.GetRenew() {
		m.problem("renewal-without-scanner-id: a renew request carries no scanner id, so the server opens a new region scanner for start row %q that nobody closes", req.GetScan().GetStartRow())
		return nil, errors.New("model server: renewal without scanner id")
	}
	if req.Scan == nil {
		m.problem("open request without a Scan message")
		return nil, errors.New("model server: bad request")
	}
	if req.Scan.GetReversed() != m.spec.Reversed {
		m.problem("open request reversed=%v, scan is reversed=%v", req.Scan.GetReversed(), m.spec.Reversed)
	}
	if !bytes.Equal(req.Scan.GetStopRow(), m.spec.Stop) {
		m.problem("open request stop row %q, scan stop row %q", req.Scan.GetStopRow(), m.spec.Stop)
	}
	if !req.GetClientHandlesPartials() || !req.GetClientHandlesHeartbeats() {
		m.problem("open request does not announce partial/heartbeat handling")
	}
	start := req.Scan.GetStartRow()
	if !bytes.Equal(start, rpc.Key()) {
		m.problem("open request start row %q differs from routing key %q", start, rpc.Key())
	}
	sc := &srvScanner{id: m.nextID, region: ri}
	m.nextID++
	rs, re := m.spec.regionBounds(ri)
	for _, r := range m.spec.Rows {
		k := []byte(r.Key)
		if bytes.Compare(k, rs) < 0 || (len(re) != 0 && bytes.Compare(k, re) >= 0) {
			continue
		}
		if len(start) != 0 && bytes.Equal(start, req.Scan.GetStopRow()) {
			// HBase reads a scan whose start row equals its stop row as a point get of that row
			// (Scan.isGetScan in 1.x; ProtobufUtil.toScan in 2.x for clients that, like this one,
			// never send include_stop_row): the stop row is inclusive then
			if !bytes.Equal(k, start) {
				continue
			}
		} else if !m.spec.Reversed {
			if bytes.Compare(k, start) < 0 || (len(m.spec.Stop) != 0 && bytes.Compare(k, m.spec.Stop) >= 0) {
				continue
			}
		} else {
			if (len(start) != 0 && bytes.Compare(k, start) > 0) || (len(m.spec.Stop) != 0 && bytes.Compare(k, m.spec.Stop) <= 0) {
				continue
			}
		}
		sc.rows = append(sc.rows, r)
	}
	if m.spec.Reversed {
		sort.Slice(sc.rows, func(i, j int) bool { return bytes.Compare(sc.rows[i].Key, sc.rows[j].Key) > 0 })
		sc.rangeDone = len(rs) == 0 || (len(m.spec.Stop) != 0 && bytes.Compare(m.spec.Stop, rs) >= 0)
	} else {
		sc.rangeDone = len(re) == 0 || (len(m.spec.Stop) != 0 && bytes.Compare(m.spec.Stop, re) <= 0)
	}
	m.scanners[sc.id] = sc
	if len(m.scanners) > 1 {
		m.multiRegion = true
	}
	resp := m.respond(sc, req)
	if m.spec.UnaskedMetrics && !req.GetTrackScanMetrics() {
		resp.ScanMetrics = &pb.ScanMetrics{Metrics: []*pb.NameInt64Pair{
			{Name: proto.String("ROWS_SCANNED"), Value: proto.Int64(int64(len(resp.Results)))},
			{Name: proto.String("ROWS_FILTERED"), Value: proto.Int64(0)}}}
	}
	if req.GetCloseScanner() {
		sc.closed = true
		sc.releasedAt = time.Now()
	}
	m.maybeCancel()
	return resp, nil
}

func (m *scanModel) maybeCancel() {
	if m.cancelAfter > 0 && m.requests == m.cancelAfter && m.cancelFn != nil {
		m.cancelFn()
	}
}

// respond produces the next response of a region scanner from the tape.
func (m *scanModel) respond(sc *srvScanner, req *pb.ScanRequest) *pb.ScanResponse {
	resp := &pb.ScanResponse{ScannerId: proto.Uint64(sc.id)}
	sc.delivered = true
	limit := int(req.GetNumberOfRows())
	if limit <= 0 || limit > 8 {
		limit = 8
	}
	remaining := func() bool { return len(sc.rows) > 0 || len(sc.pending) > 0 }

	d := m.tape()
	if d%8 == 7 && sc.heartbeat < 3 {
		// heartbeat: nothing this time, come back
		sc.heartbeat++
		m.heartbeats = true
		resp.HeartbeatMessage = proto.Bool(true)
		resp.MoreResultsInRegion = proto.Bool(true)
		resp.MoreResults = proto.Bool(true)
		return resp
	}
	sc.heartbeat = 0
	nrows := limit
	if d != 0 {
		nrows = 1 + int(d>>3)%limit
	}
	emit := func(cells []*pb.Cell, partial bool) {
		resp.Results = append(resp.Results, &pb.Result{Cell: cells, Partial: proto.Bool(partial)})
		if len(cells) > 0 {
			if m.emitted == nil {
				m.emitted = map[string]int{}
			}
			m.emitted[string(cells[0].Row)] += len(cells)
		}
	}
	done := 0
	for done < nrows && remaining() {
		if len(sc.pending) == 0 {
			// start a new row: cut it into fragments
			r := sc.rows[0]
			sc.rows = sc.rows[1:]
			cells := rowCells(r)
			f := m.tape()
			nfrag := 1
			if f%2 == 1 && len(cells) > 1 {
				nfrag = 2 + int(f>>1)%(len(cells)-1)
			}
			if nfrag > 1 {
				m.fragmented = true
			}
			// cut positions: first fragments get one cell each, the last gets the rest
			for i := 0; i < nfrag; i++ {
				if i == nfrag-1 {
					sc.pending = append(sc.pending, cells)
				} else {
					sc.pending = append(sc.pending, cells[:1:1])
					cells = cells[1:]
				}
			}
			sc.lastFlag = m.tape()%4 == 3
			if sc.lastFlag {
				m.fragmented = true
			}
			if m.spec.EmptyFirst && m.tape()%4 == 1 {
				emit(nil, true)
				m.emptyFirst++
			}
		}
		// how many fragments of this row go into this response
		stopEarly := false
		for len(sc.pending) > 0 {
			frag := sc.pending[0]
			sc.pending = sc.pending[1:]
			last := len(sc.pending) == 0
			emit(frag, !last || sc.lastFlag)
			if !last && m.spec.EmptyFragments && m.tape()%8 == 5 {
				emit(nil, true)
			}
			if !last && m.tape()%4 == 2 {
				// the response ends in the middle of the row
				stopEarly = true
				break
			}
		}
		if stopEarly {
			break
		}
		done++
	}
	if remaining() {
		if d%8 == 6 {
			// the server's time limit was reached with rows still to read: HBase flags such a
			// response as a heartbeat - and sends along whatever it has collected so far
			resp.HeartbeatMessage = proto.Bool(true)
			m.heartbeats = true
		}
		resp.MoreResultsInRegion = proto.Bool(true)
		resp.MoreResults = proto.Bool(true)
		return resp
	}
	// the region holds nothing more for this scan
	f := m.tape()
	if f%3 == 1 && len(resp.Results) > 0 {
		// say so only on the next (empty) response
		resp.MoreResultsInRegion = proto.Bool(true)
		resp.MoreResults = proto.Bool(true)
		return resp
	}
	inRegion := false
	if sc.rangeDone {
		switch (f >> 2) % 4 {
		case 0: // plain: region exhausted, more_results left true
			resp.MoreResults = proto.Bool(true)
		case 1: // no flag at all for more_results
		case 2: // whole scan declared over, region scanner also closed
			resp.MoreResults = proto.Bool(false)
		case 3: // whole scan declared over while the region scanner stays open
			resp.MoreResults = proto.Bool(false)
			inRegion = true
			m.earlyNoMore = true
		}
	} else {
		resp.MoreResults = proto.Bool(true)
	}
	resp.MoreResultsInRegion = proto.Bool(inRegion)
	if !inRegion {
		sc.exhausted = true
		sc.releasedAt = time.Now()
	}
	return resp
}

// openScanners lists scanners whose id reached the client and that are
// neither exhausted nor explicitly closed.
func (m *scanModel) openScanners() []uint64 {
	m.mu.Lock()
	defer m.mu.Unlock()
	var out []uint64
	for id, sc := range m.scanners {
		if sc.delivered && !sc.exhausted && !sc.closed {
			out = append(out, id)
		}
	}
	sort.Slice(out, func(i, j int) bool { return out[i] < out[j] })
	return out
}

func (m *scanModel) end() {
	m.mu.Lock()
	m.ended = true
	m.endedAt = time.Now()
	m.mu.Unlock()
}

// newScanCall builds the user's Scan through the public API.
func newScanCall(ctx context.Context, s scanSpec, extra ...func(hrpc.Call) error) (*hrpc.Scan, error) {
	var opts []func(hrpc.Call) error
	if s.Reversed {
		opts = append(opts, hrpc.Reversed())
	}
	if s.NumRows > 0 {
		opts = append(opts, hrpc.NumberOfRows(s.NumRows))
	}
	if s.Partials {
		opts = append(opts, hrpc.AllowPartialResults())
	}
	if s.CloseOpt {
		opts = append(opts, hrpc.CloseScanner())
	}
	opts = append(opts, extra...)
	return hrpc.NewScanRange(ctx, []byte("t"), []byte(s.Start), []byte(s.Stop), opts...)
}

// rowAcc accumulates results into rows for comparison with the model.
type rowAcc struct {
	rows [][]*hrpc.Cell
	// skipEmpty: results without cells carry nothing (hostile-fragment runs)
	skipEmpty bool
}

func (a *rowAcc) add(res *hrpc.Result, partials bool) {
	if res == nil {
		return
	}
	if len(res.Cells) == 0 && a.skipEmpty {
		return
	}
	useResult(res)
	if partials && len(a.rows) > 0 {
		last := a.rows[len(a.rows)-1]
		if len(res.Cells) == 0 || (len(last) > 0 && bytes.Equal(last[0].Row, res.Cells[0].Row)) {
			a.rows[len(a.rows)-1] = append(last, res.Cells...)
			return
		}
	}
	a.rows = append(a.rows, append([]*hrpc.Cell(nil), res.Cells...))
}

// comparePrefix checks that got is a prefix of want (whole rows, in order);
// if exact it must be all of want. lastPartialOK allows the final got row to
// be a prefix of the corresponding expected row.
func comparePrefix(got [][]*hrpc.Cell, want []scanRow, exact, lastPartialOK bool) (string, string) {
	if len(got) > len(want) {
		extra := got[len(want)]
		k := []byte("?")
		if len(extra) > 0 {
			k = extra[0].Row
		}
		return "scan-extra-row", fmt.Sprintf("scanner returned %d rows, model has %d; first extra row %q", len(got), len(want), k)
	}
	for i, g := range got {
		w := rowCells(want[i])
		if len(g) == 0 {
			return "scan-empty-row", fmt.Sprintf("result %d has no cells (expected row %q)", i, want[i].Key)
		}
		if !bytes.Equal(g[0].Row, w[0].Row) {
			return "scan-wrong-row", fmt.Sprintf("result %d is row %q, model expects %q", i, g[0].Row, want[i].Key)
		}
		if len(g) != len(w) && !(lastPartialOK && i == len(got)-1 && len(g) < len(w)) {
			return "scan-row-cells", fmt.Sprintf("row %q returned with %d cells, model has %d", want[i].Key, len(g), len(w))
		}
		for j := range g {
			if j >= len(w) || !bytes.Equal(g[j].Row, w[j].Row) || !bytes.Equal(g[j].Qualifier, w[j].Qualifier) || !bytes.Equal(g[j].Value, w[j].Value) {
				return "scan-row-cells", fmt.Sprintf("row %q cell %d differs from the model", want[i].Key, j)
			}
		}
	}
	if exact && len(got) != len(want) {
		return "scan-missing-row", fmt.Sprintf("scanner returned %d rows then EOF, model has %d; first missing %q", len(got), len(want), want[len(got)].Key)
	}
	return "", ""
}

var _ = io.EOF
