package props

import (
	"context"
	"fmt"
	"strings"
	"runtime"
	"sync"
	"sync/atomic"
	"testing"
	"testing/synctest"
	"time"

	"github.com/tsuna/gohbase/hrpc"
	"github.com/tsuna/gohbase/pb"
	"github.com/tsuna/gohbase/region"
	"google.golang.org/protobuf/proto"
	"pgregory.net/rapid"

	"verifharness/evid"
	"verifharness/memconn"
	"verifharness/wire"
)

type c03Call struct {
	Kind    string `json:"kind"` // get | put | scan
	Batched bool   `json:"batched,omitempty"`
	// Cancel: "" | before (context already done when queued) | after (cancelled right after queueing)
	Cancel string `json:"cancel,omitempty"`
	Answer bool   `json:"answer"` // the server answers this call (if it gets the chance)
}

type c03Case struct {
	Senders [][]c03Call `json:"senders"`
	// AsBatch[i]: sender i hands its batchable calls over in ONE QueueBatch call (what SendBatch
	// does), after queueing its other calls one by one
	AsBatch []bool `json:"as_batch,omitempty"`
	Queue   int    `json:"queue"`
	FlushMS int    `json:"flush_ms"`
	// Family of faults; every position is enumerated for the workload.
	Family string `json:"family"` // op-error | ext-close | srv-fatal | srv-garbage | srv-truncate | srv-close | read-timeout | write-stall
	// write-stall: the server stops reading after request #pos, so that a later write of the client
	// blocks (socket buffers full); then, by Partial: 0 = Close() from outside, 1 = the read timeout
	// fires, -1 = the server closes its end. Only one goroutine writes in this family (all calls
	// batched, or a single sender), so that nothing but the blocked write holds a lock.
	// Partial selects how much of a failing write gets through: 0, 1, -1 (all but one byte)
	Partial int `json:"partial"`
	After   int `json:"after"` // calls queued after the failure
	// Pos > 0 restricts the run to one position (used by replays of a failing position)
	Pos int `json:"pos,omitempty"`
	// Log: the region client's logger ("" discards unevaluated; json / text: a slog handler at Debug level that
	// marshals every attribute - the client itself is one - in the goroutine that logs)
	Log string `json:"log,omitempty"`
	// HoldClear (family read-timeout): the connection's reader is descheduled right where it clears the read deadline
	// (nothing else in flight), for as long as it takes another sender to arm it - if the code permits that order
	HoldClear bool `json:"hold_clear,omitempty"`
}

type c03Tracked struct {
	spec    c03Call
	call    hrpc.Call
	marker  string
	results []hrpc.RPCResult
	times   []time.Time
	queued  time.Time
}

type c03Outcome struct {
	ops      int
	requests int
	sig, msg string
	faulted  bool // the fault fired while >= 1 call was queued or in flight
}

func c03Run(c c03Case) (out Outcome) {
	// dry run: count client-side operations and requests
	dry := c03Once(c, 0)
	if dry.sig != "" {
		return viol("faultfree:"+dry.sig, "fault-free run: %s", dry.msg)
	}
	n := dry.ops
	switch c.Family {
	case "srv-fatal", "srv-garbage", "srv-truncate", "srv-close", "read-timeout":
		n = dry.requests
	case "write-stall":
		n = dry.requests - 1
	}
	positions := 0
	for k := 1; k <= n; k++ {
		if c.Pos > 0 && k != c.Pos {
			continue
		}
		// a few repetitions per position sample goroutine interleavings
		for rep := 0; rep < 2; rep++ {
			r := c03Once(c, k)
			positions++
			if r.sig != "" {
				return viol(r.sig, "%s at position %d of %d (workload %d ops, %d requests): %s", c.Family, k, n, dry.ops, dry.requests, r.msg)
			}
			if r.faulted {
				out.NonTrivial = true
			}
		}
	}
	c03Positions += int64(positions)
	out.Labels = append(out.Labels, "family_"+c.Family)
	return out
}

var c03Positions int64

func c03Once(c c03Case, pos int) (ret c03Outcome) {
	res := inBubble(theT, func() { ret = c03InBubble(c, pos) })
	if c.Family == "write-stall" && res.Frozen != "" && strings.Contains(res.Frozen, "tsuna/gohbase/region.") {
		// in this family the harness guarantees that the only lock holder is the writer blocked in
		// conn.Write, which returns as soon as the connection is closed: a goroutine of the region
		// client parked on a mutex for 40 s of real time is waiting for that writer - a deadlock
		return c03Outcome{sig: "client-stuck@behind-blocked-writer", msg: "the connection failed while a write was blocked (server not reading); " +
			"a goroutine of the region client is parked on a lock that only the blocked writer can release, and the write is never interrupted:\n" + res.Frozen}
	}
	if c.Log != "" && res.Frozen != "" && strings.Contains(res.Frozen, "region.(*client).MarshalJSON") {
		// the logger marshals the client (an attribute of its own debug messages) in the goroutine that logs; the
		// locks MarshalJSON takes are only ever held for a few instructions by anybody else: parked there for
		// 40 s of real time, the logging goroutine holds that lock itself
		return c03Outcome{sig: "client-stuck@logging-under-lock", msg: "a goroutine of the region client logs (" + c.Log + " handler at Debug level) while holding a lock that marshalling the client for the log needs:\n" + res.Frozen}
	}
	if o, stuck := stuckVerdict(res); stuck {
		return c03Outcome{sig: o.Sig, msg: o.Msg}
	}
	if res.Panic != "" {
		return c03Outcome{sig: "panic@" + topFrame(res.Stack), msg: res.Panic + "\n" + res.Stack}
	}
	if res.Deadlock != "" {
		return c03Outcome{sig: "conn-fail-hang", msg: res.Deadlock + "\n" + bubbleStacks(res.Stack)}
	}
	return ret
}

func c03InBubble(c c03Case, pos int) (ret c03Outcome) {
	defer withLog(c.Log)()
	readTimeout := time.Hour
	if c.Family == "read-timeout" || c.Family == "write-stall" && c.Partial == 1 {
		readTimeout = 50 * time.Millisecond
	}
	stall := c.Family == "write-stall" && pos > 0
	closeSig := make(chan struct{}, 1)
	opts := memconn.Options{}
	if stall {
		opts.Cap = 1
	}
	if c.HoldClear && c.Family == "read-timeout" {
		var armSeq atomic.Int64
		opts.BeforeDeadline = func(t time.Time) {
			if !t.IsZero() {
				armSeq.Add(1)
				return
			}
			start := armSeq.Load()
			for i := 0; i < 2000 && armSeq.Load() == start; i++ {
				runtime.Gosched()
			}
		}
	}
	if pos > 0 {
		switch c.Family {
		case "op-error":
			opts.Faults = []memconn.Fault{{Op: pos, Partial: c.Partial}}
		case "ext-close":
			opts.BeforeOp = func(idx int, kind string) {
				if idx == pos {
					select {
					case closeSig <- struct{}{}:
					default:
					}
				}
			}
		}
	}
	env, err := newRCEnv(c.Queue, time.Duration(c.FlushMS)*time.Millisecond, readTimeout, false, opts)
	if err != nil {
		// the fault hit the dial/hello: the client must be dead and refuse calls
		g, _ := hrpc.NewGet(context.Background(), []byte("t"), []byte("r"), hrpc.SkipBatch())
		g.SetRegion(env.reg)
		env.rc.QueueRPC(g)
		select {
		case r := <-g.ResultChan():
			if _, ok := r.Error.(region.ServerError); !ok {
				return c03Outcome{sig: "not-refused-after-failed-dial", msg: fmt.Sprintf("call after failed dial got %v", r.Error)}
			}
		default:
			return c03Outcome{sig: "not-refused-after-failed-dial", msg: "call queued after a failed dial got no result"}
		}
		synctest.Wait()
		return c03Outcome{}
	}
	closerDone := make(chan struct{})
	stopCloser := make(chan struct{})
	go func() {
		defer close(closerDone)
		select {
		case <-closeSig:
			env.rc.Close()
		case <-stopCloser:
		}
	}()

	var mu sync.Mutex
	var tracked []*c03Tracked
	stop := make(chan struct{})
	var waiters sync.WaitGroup
	track := func(spec c03Call, call hrpc.Call, marker string) *c03Tracked {
		t := &c03Tracked{spec: spec, call: call, marker: marker, queued: time.Now()}
		mu.Lock()
		tracked = append(tracked, t)
		mu.Unlock()
		waiters.Add(1)
		go func() {
			defer waiters.Done()
			for {
				select {
				case r := <-call.ResultChan():
					mu.Lock()
					t.results = append(t.results, r)
					t.times = append(t.times, time.Now())
					mu.Unlock()
				case <-stop:
					return
				}
			}
		}()
		return t
	}

	// server: answers the calls marked Answer; applies server-side faults at request #pos
	answerSet := map[string]bool{}
	failedAt := time.Time{}
	var srvMu sync.Mutex
	srvReqs := 0
	outstandingAtFault := 0
	srvDone := make(chan struct{})
	stallOver := make(chan struct{})
	var stallOnce sync.Once
	endStall := func() { stallOnce.Do(func() { close(stallOver) }) }
	defer endStall()
	go func() {
		defer close(srvDone)
		conn := env.pair.Server
		if _, err := wire.ReadHello(conn); err != nil {
			return
		}
		for {
			req, err := wire.ReadRequest(conn)
			if err != nil {
				return
			}
			srvMu.Lock()
			srvReqs++
			n := srvReqs
			srvMu.Unlock()
			if pos > 0 && n == pos {
				switch c.Family {
				case "write-stall":
					// answer nothing more and stop reading; with Partial == -1 hang up a little later
					if c.Partial == -1 {
						time.Sleep(10 * time.Millisecond)
						conn.Close()
						return
					}
					<-stallOver
					return
				case "srv-fatal":
					conn.Write(wire.BuildResponse(req.Header.GetCallId(), nil, nil, wire.Exception(
						"org.apache.hadoop.hbase.regionserver.RegionServerAbortedException", "RegionServerAbortedException: going down")))
					continue
				case "srv-garbage":
					conn.Write([]byte{0, 0, 0, 6, 0xff, 0xff, 0xff, 0xff, 0xff, 0x01})
					continue
				case "srv-truncate":
					frame := rcOKResponse(req)
					conn.Write(frame[:len(frame)/2])
					conn.Close()
					return
				case "srv-close":
					conn.Close()
					return
				case "read-timeout":
					// go silent for good
					for {
						if _, err := wire.ReadRequest(conn); err != nil {
							return
						}
					}
				}
			}
			mu.Lock()
			ans := c03ShouldAnswer(req, answerSet)
			mu.Unlock()
			if ans {
				conn.Write(c03Response(req))
			}
		}
	}()

	nextMarker := 0
	var issue sync.WaitGroup
	newCall := func(spec c03Call) (hrpc.Call, string, context.CancelFunc) {
		mu.Lock()
		nextMarker++
		marker := fmt.Sprintf("mk%d", nextMarker)
		if spec.Answer {
			answerSet[marker] = true
		}
		mu.Unlock()
		ctx, cancel := context.WithCancel(context.Background())
		if spec.Cancel == "before" {
			cancel()
		}
		var call hrpc.Call
		var opts []func(hrpc.Call) error
		if !spec.Batched && spec.Kind != "scan" {
			opts = append(opts, hrpc.SkipBatch())
		}
		switch spec.Kind {
		case "get":
			call, _ = hrpc.NewGet(ctx, []byte("t"), []byte("r"), append(opts, hrpc.Families(markerFam(marker)))...)
		case "put":
			call, _ = hrpc.NewPut(ctx, []byte("t"), []byte("r"), markerVals(marker), opts...)
		default:
			call, _ = hrpc.NewScanRange(ctx, []byte("t"), []byte("r"), nil, hrpc.Attribute("marker", []byte(marker)))
		}
		call.SetRegion(env.reg)
		return call, marker, cancel
	}
	var cancels []context.CancelFunc
	senders := c.Senders
	if c.Family == "write-stall" {
		// one writer only: everything goes through the batching goroutine, or there is one sender
		senders = nil
		for _, calls := range c.Senders {
			var cs []c03Call
			for _, sp := range calls {
				if sp.Kind == "scan" {
					sp.Kind = "get"
				}
				sp.Batched = c.Queue > 1
				cs = append(cs, sp)
			}
			senders = append(senders, cs)
			if c.Queue <= 1 {
				break
			}
		}
	}
	for si, calls := range senders {
		issue.Add(1)
		asBatch := si < len(c.AsBatch) && c.AsBatch[si]
		go func(calls []c03Call) {
			defer issue.Done()
			var batch []hrpc.Call
			var after []context.CancelFunc
			for _, spec := range calls {
				call, marker, cancel := newCall(spec)
				mu.Lock()
				cancels = append(cancels, cancel)
				mu.Unlock()
				track(spec, call, marker)
				if asBatch && spec.Batched && spec.Kind != "scan" {
					batch = append(batch, call)
					if spec.Cancel == "after" {
						after = append(after, cancel)
					}
					continue
				}
				env.rc.QueueRPC(call)
				if spec.Cancel == "after" {
					cancel()
				}
			}
			if len(batch) > 0 {
				env.rc.QueueBatch(context.Background(), batch)
				for _, cancel := range after {
					cancel()
				}
			}
		}(calls)
	}
	if stall {
		// senders may be blocked behind the stalled writer: do not wait for them yet
		time.Sleep(time.Duration(c.FlushMS)*time.Millisecond + time.Millisecond)
		synctest.Wait()
		switch c.Partial {
		case 0:
			go env.rc.Close()
		case 1:
			time.Sleep(readTimeout + time.Millisecond)
		default:
			time.Sleep(11 * time.Millisecond)
		}
		synctest.Wait()
	}
	issue.Wait()
	time.Sleep(time.Duration(c.FlushMS)*time.Millisecond + time.Millisecond)
	synctest.Wait()
	if c.Family == "read-timeout" && pos > 0 {
		time.Sleep(readTimeout + time.Millisecond)
		synctest.Wait()
	}
	_ = failedAt
	_ = outstandingAtFault
	ret.ops = env.pair.NumOps()
	srvMu.Lock()
	ret.requests = srvReqs
	srvMu.Unlock()

	// is the client dead now?
	probe, _, pcancel := newCall(c03Call{Kind: "get"})
	defer pcancel()
	pt := track(c03Call{Kind: "get"}, probe, "probe")
	deadBefore := time.Now()
	env.rc.QueueRPC(probe)
	synctest.Wait()
	mu.Lock()
	dead := len(pt.results) == 1 && pt.results[0].Error != nil
	if dead {
		if _, ok := pt.results[0].Error.(region.ServerError); !ok {
			mu.Unlock()
			return c03Outcome{sig: "refusal-wrong-error", msg: fmt.Sprintf("call queued after the failure got %T %v", pt.results[0].Error, pt.results[0].Error)}
		}
		if !pt.times[0].Equal(deadBefore) {
			mu.Unlock()
			return c03Outcome{sig: "refusal-not-immediate", msg: "call queued after the failure was refused only later"}
		}
	}
	mu.Unlock()
	// further calls after the failure
	if dead {
		for i := 0; i < c.After; i++ {
			spec := c03Call{Kind: []string{"get", "put", "scan"}[i%3], Batched: i%2 == 0}
			call, marker, cancel := newCall(spec)
			cancels = append(cancels, cancel)
			t := track(spec, call, marker)
			at := time.Now()
			env.rc.QueueRPC(call)
			synctest.Wait()
			mu.Lock()
			ok := len(t.results) == 1 && !t.times[0].After(at)
			var e error
			if len(t.results) > 0 {
				e = t.results[0].Error
			}
			mu.Unlock()
			if _, isSE := e.(region.ServerError); !ok || !isSE {
				return c03Outcome{sig: "not-refused-after-failure", msg: fmt.Sprintf("call %s queued on the failed connection: %d results, error %v", marker, len(t.results), e)}
			}
		}
	} else {
		// the connection survived (the fault did not hit, or hit an operation that may fail
		// harmlessly); unanswered calls stay pending by design. Close to finish.
		env.rc.Close()
		synctest.Wait()
	}
	synctest.Wait()

	// ---- oracle: every call completed exactly once
	mu.Lock()
	defer func() {
		mu.Unlock()
		close(stop)
		close(stopCloser)
		for _, cn := range cancels {
			cn()
		}
		env.pair.Server.Close()
		endStall()
		waiters.Wait()
		<-srvDone
		<-closerDone
		synctest.Wait()
	}()
	for _, t := range tracked {
		if t.marker == "probe" {
			continue
		}
		n := len(t.results)
		if n > 1 {
			return c03Outcome{sig: "completed-twice", msg: fmt.Sprintf("call %s (%+v) received %d results: %v", t.marker, t.spec, n, t.results)}
		}
		if t.spec.Cancel != "" {
			continue // 0 or 1 result
		}
		if n == 0 {
			return c03Outcome{sig: "never-completed", msg: fmt.Sprintf("call %s (%+v) was left without a result after the connection failed; gohbase goroutines: %s", t.marker, t.spec, firstGohbaseStack(gohbaseGoroutines(), "processRPCs", "receiveRPCs", "QueueRPC"))}
		}
		r := t.results[0]
		if r.Error == nil {
			if !t.spec.Answer {
				return c03Outcome{sig: "success-without-answer", msg: fmt.Sprintf("call %s succeeded although the server never answered it", t.marker)}
			}
			if err := c03CheckOwn(t, r); err != nil {
				return c03Outcome{sig: "foreign-response", msg: err.Error()}
			}
			continue
		}
		if _, ok := r.Error.(region.ServerError); !ok {
			return c03Outcome{sig: "wrong-error-class", msg: fmt.Sprintf("call %s failed with %T %v; a connection failure must surface as region.ServerError so that it is retried elsewhere", t.marker, r.Error, r.Error)}
		}
		ret.faulted = true
	}
	// reader and writer are gone
	for _, g := range gohbaseGoroutines() {
		if strings.Contains(g, "region.(*client).processRPCs") || strings.Contains(g, "region.(*client).receiveRPCs") ||
			strings.Contains(g, "region.(*client).QueueRPC") || strings.Contains(g, "region.(*client).QueueBatch") {
			if len(g) > 1500 {
				g = g[:1500]
			}
			return c03Outcome{sig: "goroutine-survives-failure", msg: "a region client goroutine is still alive after the connection failed:\n" + g}
		}
	}
	return ret
}

func c03ShouldAnswer(req *wire.Request, set map[string]bool) bool {
	d, err := decodeOne(req)
	if err != nil {
		return false
	}
	for _, mk := range d.Markers {
		if !set[mk] {
			return false
		}
	}
	return true
}

// decodeOne extracts markers from a single request.
func decodeOne(req *wire.Request) (decodedReq, error) {
	return decodeRequest(req, false, 0)
}

// c03Response answers with the marker echoed so that ownership is checkable.
func c03Response(req *wire.Request) []byte {
	id := req.Header.GetCallId()
	d, _ := decodeOne(req)
	mkCell := func(mk string) *pb.Cell {
		return &pb.Cell{Row: []byte("r"), Family: []byte("f"), Qualifier: []byte(mk), Value: []byte("v")}
	}
	switch req.Header.GetMethodName() {
	case "Get":
		return wire.BuildResponse(id, &pb.GetResponse{Result: &pb.Result{Cell: []*pb.Cell{mkCell(d.Markers[0])}}}, nil, nil)
	case "Mutate":
		return wire.BuildResponse(id, &pb.MutateResponse{Result: &pb.Result{Cell: []*pb.Cell{mkCell(d.Markers[0])}}}, nil, nil)
	case "Scan":
		return wire.BuildResponse(id, &pb.ScanResponse{Results: []*pb.Result{{Cell: []*pb.Cell{mkCell(d.Markers[0])}}}}, nil, nil)
	case "Multi":
		m := &pb.MultiRequest{}
		proto.Unmarshal(req.Param, m)
		resp := &pb.MultiResponse{}
		i := 0
		for _, ra := range m.GetRegionAction() {
			rar := &pb.RegionActionResult{}
			for _, a := range ra.GetAction() {
				rar.ResultOrException = append(rar.ResultOrException, &pb.ResultOrException{Index: a.Index,
					Result: &pb.Result{Cell: []*pb.Cell{mkCell(d.Markers[i])}}})
				i++
			}
			resp.RegionActionResult = append(resp.RegionActionResult, rar)
		}
		return wire.BuildResponse(id, resp, nil, nil)
	}
	return nil
}

func c03CheckOwn(t *c03Tracked, r hrpc.RPCResult) error {
	var cells []*pb.Cell
	switch m := r.Msg.(type) {
	case *pb.GetResponse:
		cells = m.GetResult().GetCell()
	case *pb.MutateResponse:
		cells = m.GetResult().GetCell()
	case *pb.ScanResponse:
		if len(m.GetResults()) > 0 {
			cells = m.GetResults()[0].GetCell()
		}
	}
	if len(cells) != 1 || string(cells[0].Qualifier) != t.marker {
		return fmt.Errorf("call %s received a response that is not its own: %v", t.marker, r.Msg)
	}
	return nil
}

func c03Gen(t *rapid.T) c03Case {
	var c c03Case
	c.Queue = rapid.SampledFrom([]int{1, 2, 5, 100}).Draw(t, "queue")
	c.FlushMS = rapid.SampledFrom([]int{0, 1, 20}).Draw(t, "flush")
	c.Family = rapid.SampledFrom([]string{"op-error", "op-error", "ext-close", "srv-fatal", "srv-garbage", "srv-truncate", "srv-close", "read-timeout", "write-stall"}).Draw(t, "family")
	c.Partial = rapid.SampledFrom([]int{0, 1, -1}).Draw(t, "partial")
	c.After = rapid.IntRange(0, 3).Draw(t, "after")
	c.Log = rapid.SampledFrom([]string{"", "", "json", "text"}).Draw(t, "log")
	c.HoldClear = c.Family == "read-timeout" && rapid.Bool().Draw(t, "holdclear")
	ns := rapid.IntRange(1, 4).Draw(t, "nsenders")
	total := 0
	for i := 0; i < ns && total < 12; i++ {
		var calls []c03Call
		k := rapid.IntRange(1, 4).Draw(t, "ncalls")
		asBatch := rapid.IntRange(0, 2).Draw(t, "asbatch") == 0
		if asBatch {
			// batches larger than the queue size too
			k = rapid.IntRange(1, 8).Draw(t, "nbatchcalls")
		}
		c.AsBatch = append(c.AsBatch, asBatch)
		for j := 0; j < k && total < 12; j++ {
			total++
			calls = append(calls, c03Call{
				Kind:    rapid.SampledFrom([]string{"get", "get", "put", "scan"}).Draw(t, "kind"),
				Batched: asBatch && rapid.IntRange(0, 3).Draw(t, "inbatch") > 0 || rapid.Bool().Draw(t, "batched"),
				Cancel:  rapid.SampledFrom([]string{"", "", "", "", "before", "after"}).Draw(t, "cancel"),
				Answer:  rapid.Bool().Draw(t, "answer"),
			})
		}
		c.Senders = append(c.Senders, calls)
	}
	return c
}

func TestC03_ConnectionFailure(t *testing.T) {
	theT = t
	rec := evid.New("C03", "TestC03_ConnectionFailure",
		"rapid + enumeration, virtual time: workloads of 1..12 calls (batched/unbatched gets and puts, scans; some with "+
			"contexts cancelled before or after queueing) from 1..4 goroutines - each queueing call by call, or handing its batchable calls "+
			"over in one QueueBatch of up to 8 calls (larger than the queue size too), as SendBatch does - on one region client over an in-memory "+
			"connection; the harness answers a drawn subset. Each workload is first run fault-free to count connection "+
			"operations K and requests R, then re-run twice for EVERY position of a drawn fault family: the k-th "+
			"read/write/deadline/close operation fails (writes with 0, 1 or all-but-one bytes through), external Close when "+
			"operation k is reached, or at the j-th request: server-fatal exception frame, undecodable header, "+
			"truncated frame + close, close, or silence (read timeout), or the server stops READING after request j so that a later write "+
			"blocks, and then Close() / the read timeout / a hang-up of the server ends the connection; then 0..3 more calls are queued. Oracle at "+
			"quiescence: every call got exactly one result (own response if answered, else region.ServerError; cancelled "+
			"calls 0 or 1), never two; later calls are refused at once with ServerError; no reader/writer/queueing "+
			"goroutine is left; the bubble never deadlocks. The client's logger is drawn too: discarding, or a slog JSON / text handler at Debug level that marshals every attribute (the client itself) in the logging goroutine. evaluations = workloads; label positions counts runs. "+
			"Non-trivial = a fault fired while >= 1 call was queued or in flight; distinct by case hash")
	defer func() { rec.Label("positions", c03Positions); rec.Flush() }()
	Drive(t, rec, true, c03Gen, c03Run)
}
