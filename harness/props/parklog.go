package props

import (
	"context"
	"log/slog"
	"sync"
)

// parkingHandler is a slog.Handler that gives the harness an owned scheduling point inside the client: a
// goroutine of the client that logs a message equal to Trigger (at any level) while the handler is armed
// is parked until Release is called. Everything is discarded.
type parkingHandler struct {
	mu      sync.Mutex
	trigger string
	armed   bool
	parked  int
	reached chan struct{} // receives a token for every goroutine that parks
	release chan struct{} // closed by Release
}

func newParkingHandler(trigger string) *parkingHandler {
	return &parkingHandler{trigger: trigger, reached: make(chan struct{}, 64), release: make(chan struct{})}
}

func (h *parkingHandler) Arm() { h.mu.Lock(); h.armed = true; h.mu.Unlock() }

// Release lets every parked goroutine go on and disarms the handler.
func (h *parkingHandler) Release() {
	h.mu.Lock()
	if h.armed {
		h.armed = false
		close(h.release)
	}
	h.mu.Unlock()
}

func (h *parkingHandler) Parked() int { h.mu.Lock(); defer h.mu.Unlock(); return h.parked }

func (h *parkingHandler) Enabled(context.Context, slog.Level) bool {
	h.mu.Lock()
	defer h.mu.Unlock()
	return h.armed
}

func (h *parkingHandler) Handle(_ context.Context, r slog.Record) error {
	h.mu.Lock()
	park := h.armed && r.Message == h.trigger
	if park {
		h.parked++
	}
	h.mu.Unlock()
	if park {
		select {
		case h.reached <- struct{}{}:
		default:
		}
		<-h.release
	}
	return nil
}

func (h *parkingHandler) WithAttrs([]slog.Attr) slog.Handler { return h }
func (h *parkingHandler) WithGroup(string) slog.Handler      { return h }
