package props

import (
	"bytes"
	"context"
	"errors"
	"fmt"
	"strings"
	"testing"
	"testing/synctest"
	"time"

	"github.com/tsuna/gohbase"
	"github.com/tsuna/gohbase/hrpc"
	"pgregory.net/rapid"

	"verifharness/evid"
	"verifharness/memconn"
	"verifharness/sim"
)

// c13Case: one API call parked in a chosen wait state, then its context ends.
type c13Case struct {
	Entry string `json:"entry"` // get | put | batch | scan
	State string `json:"state"` // zk | meta | probe | dialrefused | backoff | busy | silent | held
	Which string `json:"which"` // call | batch | callinbatch
	Mode  string `json:"mode"`  // cancel | deadline
	N     int    `json:"n"`     // backoff: cancel inside the n-th sleep
	// Batch shape: number of calls and which of them are the affected ones
	BatchLen int   `json:"batch_len,omitempty"`
	Affected []int `json:"affected,omitempty"` // indices whose own context ends / which are held
	Shared   bool  `json:"shared,omitempty"`   // calls use the batch context
	// Split puts the affected calls on another server than the others, so that the
	// others are answered while the affected ones are held
	Split   bool   `json:"split,omitempty"`
	Key     evid.B `json:"key"`
	Class   string `json:"class,omitempty"` // retryable class for backoff
	Queue   int    `json:"queue"`
	FlushMS int    `json:"flush_ms"`
	// Companion: another request (its own, live context) for another row of the table is already
	// stuck in the same state when the request under test is issued
	Companion bool `json:"companion,omitempty"`
	// AllOwn (callinbatch): EVERY call of the batch carries the context that ends (the batch's own context
	// stays alive): nothing else keeps the batch waiting, whatever state the lookups are in
	AllOwn bool `json:"all_own,omitempty"`
}

func c13Valid(c c13Case) bool {
	if c.Which == "callinbatch" && c.Entry != "batch" {
		return false
	}
	if c.Which == "batch" && c.Entry != "batch" {
		return false
	}
	if c.Entry == "batch" && c.Which == "call" {
		return false
	}
	if c.State == "held" && c.Which != "callinbatch" {
		return false
	}
	if c.Which == "callinbatch" && !(c.State == "held" || c.State == "silent") {
		// while a lookup is pending the other calls legitimately keep the batch waiting -
		// unless every call of the batch carries the context that ends
		switch c.State {
		case "busy":
			// (... or the others are for another, healthy server: they are answered, and nothing but the calls that
			// are given up keeps the batch waiting for room in the stalled server's queue)
			// (c13Fill arranges exactly that: Split = !AllOwn)
		case "zk", "meta", "probe", "dialrefused", "backoff", "nsremeta":
			if !c.AllOwn {
				return false
			}
		default:
			return false
		}
	}
	if c.State == "busy" && (c.Entry == "scan" || c.Queue < 2) {
		return false
	}
	if c.State == "manydown" && c.Which == "callinbatch" {
		return false
	}
	if c.State == "otherdial" && c.Which == "callinbatch" {
		return false
	}
	return true
}

type c13Result struct {
	returned bool
	err      error
	results  []hrpc.RPCResult
	ok       bool
	at       time.Time
}

func c13Run(c c13Case) Outcome {
	var o Outcome
	res := inBubble(theT, func() { o = c13RunInBubble(c) })
	if res.Frozen != "" && (c.Companion || c.State == "otherdial") && strings.Contains(res.Frozen, "github.com/tsuna/gohbase") {
		// in these states (ZooKeeper / meta / probe / refused dial with a second request waiting) nothing in
		// the client holds a lock across a wait: a goroutine parked on a client mutex for 40 s of real time
		// is a request waiting, uninterruptibly, for whatever the other request is stuck in
		return viol("client-stuck@mutex/"+c.State, "a request is parked on a lock of the client while another request is stuck in state %s; "+
			"a mutex wait cannot be cancelled:\n%s", c.State, res.Frozen)
	}
	if o, stuck := stuckVerdict(res); stuck {
		return o
	}
	if res.Panic != "" {
		return viol("panic@"+topFrame(res.Stack), "%s\n%s", res.Panic, res.Stack)
	}
	if res.Deadlock != "" && !exitLeak(res.Deadlock) {
		return viol("cancel-deadlock@"+c.State, "bubble deadlocked: %s\n%s", res.Deadlock, bubbleStacks(res.Stack))
	}
	if res.Deadlock != "" && o.Sig == "" {
		o.Labels = append(o.Labels, "goroutines_left_at_exit")
	}
	return o
}

func c13RunInBubble(c c13Case) (out Outcome) {
	// meta lives on rs1, the table on rs2 (so that the table's server can be down
	// or stalled without taking hbase:meta with it)
	cl := sim.New("rs1:16020", "rs2:16020", "rs3:16020")
	if c.State == "manydown" {
		// eight regions on one server
		var bounds [][]byte
		for _, b := range []string{"b", "d", "f", "h", "m", "p", "t"} {
			bounds = append(bounds, []byte(b))
		}
		cl.AddTable("t", bounds, []string{"rs2:16020"}, 1000, false)
	} else if c.Split || c.State == "otherdial" {
		cl.AddTable("t", [][]byte{[]byte("m")}, []string{"rs2:16020", "rs3:16020"}, 1000, false)
	} else {
		cl.AddTable("t", [][]byte{[]byte("m")}, []string{"rs2:16020"}, 1000, false)
	}
	marker := func(i int) string { return fmt.Sprintf("mk%d", i+1) }
	n := 1
	if c.Entry == "batch" {
		n = c.BatchLen
	}
	affected := map[int]bool{}
	for _, i := range c.Affected {
		if i < n {
			affected[i] = true
		}
	}
	if len(affected) == 0 {
		affected[0] = true
	}
	class := c.Class
	if class == "" {
		class = sim.CallQueueBig
	}
	switch c.State {
	case "zk":
		cl.ZKHold = true
	case "meta":
		cl.MetaHold = true
	case "probe":
		for _, r := range cl.Regions {
			r.Hold = true
		}
	case "dialrefused":
		cl.Servers["rs2:16020"].Down = true
	case "backoff":
		for i := 0; i < n; i++ {
			var outs []sim.Outcome
			for k := 0; k < 40; k++ {
				outs = append(outs, sim.Outcome{Kind: "exc", Class: class, Stack: "busy"})
			}
			cl.Script[marker(i)] = outs
		}
	case "silent":
		for i := 0; i < n; i++ {
			if c.Which != "callinbatch" || affected[i] {
				cl.Script[marker(i)] = []sim.Outcome{{Kind: "drop"}, {Kind: "drop"}, {Kind: "drop"}}
			}
		}
	case "held":
		for i := range affected {
			cl.Script[marker(i)] = []sim.Outcome{{Kind: "hold"}}
		}
	case "busy":
		cl.ConnOptions = func(addr string, k int) memconn.Options {
			if addr == "rs2:16020" {
				return memconn.Options{Cap: 16}
			}
			return memconn.Options{}
		}
	}
	scanMode := ""
	cl.ScanHandler = func(cc *sim.Cluster, sc *sim.Conn, reg *sim.Region, req *sim.ScanCtx) *sim.Reply {
		switch scanMode {
		case "silent":
			cc.Lock()
			cc.Execs = append(cc.Execs, sim.Exec{Method: "Scan", Result: "drop", Marker: "scan"})
			cc.Unlock()
			return &sim.Reply{NoReply: true}
		case "backoff":
			cc.Lock()
			cc.Execs = append(cc.Execs, sim.Exec{Method: "Scan", Result: class, Marker: "scan"})
			cc.Unlock()
			return &sim.Reply{Exc: &sim.Exc{Class: class, Stack: class + ": busy"}}
		}
		return &sim.Reply{Exc: &sim.Exc{Class: sim.DoNotRetry, Stack: "no scans here"}}
	}
	if c.Entry == "scan" {
		scanMode = c.State
	}
	client := newSimClient(cl, gohbase.RpcQueueSize(c.Queue), gohbase.FlushInterval(time.Duration(c.FlushMS)*time.Millisecond),
		gohbase.RegionReadTimeout(2*time.Second))

	teardown := func() {
		for _, a := range []string{"rs2:16020", "rs3:16020"} {
			cl.SetServer(a, func(s *sim.ServerState) { s.DialHold = false })
		}
		cl.Lock()
		cl.ZKHold, cl.MetaHold = false, false
		for _, r := range cl.Regions {
			r.Hold = false
		}
		cl.Unlock()
		client.Close()
		drainClient()
		cl.Stop()
	}

	// manydown: every region of the server is known to the client; then hbase:meta goes silent and the
	// server's connection breaks: the request that notices has eight regions to get re-established
	if c.State == "manydown" {
		for i, k := range []string{"a", "c", "e", "g", "k", "n", "q", "z"} {
			g, _ := hrpc.NewGet(context.Background(), []byte("t"), []byte(k), hrpc.Families(markerFam(fmt.Sprintf("mkwarm%d", i))))
			if _, err := client.Get(g); err != nil {
				teardown()
				return viol("harness", "warm-up get failed: %v", err)
			}
		}
		cl.Lock()
		cl.MetaHold = true
		cl.Unlock()
		cl.KillConns("rs2:16020")
		synctest.Wait()
	}
	// otherdial: the request's own region is known and its server then refuses connections (as in
	// dialrefused); meanwhile ANOTHER request is having a connection to the other server dialled, and that
	// dial hangs: nothing about the other server may keep this request from noticing the end of its context
	if c.State == "otherdial" {
		mine, other := "rs2:16020", "rs3:16020"
		otherKey := "z"
		if bytes.Compare(c.Key, []byte("m")) >= 0 {
			mine, other, otherKey = other, mine, "a"
		}
		g, _ := hrpc.NewGet(context.Background(), []byte("t"), c.Key, hrpc.Families(markerFam("mkwarm")))
		if _, err := client.Get(g); err != nil {
			teardown()
			return viol("harness", "warm-up get failed: %v", err)
		}
		cl.SetServer(other, func(s *sim.ServerState) { s.DialHold = true })
		go doOp(client, context.Background(), "t", opSpec{Kind: "get", Key: evid.B(otherKey), Marker: "mkotherdial"})
		select {
		case <-cl.DialHeld:
		case <-time.After(time.Minute):
			teardown()
			out.Labels = append(out.Labels, "state_not_reached")
			return out
		}
		cl.SetServer(mine, func(s *sim.ServerState) { s.Down = true })
		cl.KillConns(mine)
	}
	// nsremeta: the regions are known and connected; they answer the next request with NotServingRegion
	// (they are closing), and hbase:meta does not answer the lookup of their re-establishment: the regions
	// are unavailable while they still hold their (healthy) connection
	if c.State == "nsremeta" {
		for _, k := range []string{"a", "z"} {
			g, _ := hrpc.NewGet(context.Background(), []byte("t"), []byte(k), hrpc.Families(markerFam("mkwarm"+k)))
			if _, err := client.Get(g); err != nil {
				teardown()
				return viol("harness", "warm-up get failed: %v", err)
			}
		}
		cl.Lock()
		cl.MetaHold = true
		for _, r := range cl.Regions {
			r.Transient = append(r.Transient, sim.Exc{Class: sim.NSRE, Stack: sim.NSRE + ": closing"})
		}
		cl.Unlock()
	}
	// busy: stall the table's server after the probe and fill the pipe
	fillers := 0
	if c.State == "busy" {
		// establish the region first with an ordinary call
		// (both regions, so that no unbatched region probe is sent later: a probe would
		// queue on the client's write lock behind the blocked writer, which is not a
		// durable block and would freeze the bubble's clock)
		for _, k := range []string{"a", "z"} {
			g, _ := hrpc.NewGet(context.Background(), []byte("t"), []byte(k), hrpc.Families(markerFam("mkwarm"+k)))
			if _, err := client.Get(g); err != nil {
				teardown()
				return viol("harness", "warm-up get failed: %v", err)
			}
		}
		cl.SetServer("rs2:16020", func(s *sim.ServerState) { s.Stall = true })
		for i := 0; i < 3; i++ {
			fillers++
			mk := fmt.Sprintf("mkfill%d", i)
			go func() {
				p, _ := hrpc.NewPut(context.Background(), []byte("t"), []byte("a"), map[string]map[string][]byte{"f": {mk: make([]byte, 200)}})
				client.Put(p)
			}()
			synctest.Wait()
		}
	}

	// contexts
	baseCtx, baseCancel := context.WithCancel(context.Background())
	defer baseCancel()
	var endCtx context.Context // the context that ends
	var endCancel context.CancelFunc
	deadlineIn := 3 * time.Second
	if c.State == "backoff" {
		// inside the n-th sleep: sleeps are 16ms*2^(k-1); the n-th starts after the sum of the earlier ones
		sum := time.Duration(0)
		b := 16 * time.Millisecond
		for k := 1; k < c.N; k++ {
			sum += b
			b *= 2
		}
		deadlineIn = sum + b/2 + time.Duration(c.FlushMS*(c.N+1))*time.Millisecond
	}
	start := time.Now()
	if c.Mode == "deadline" {
		endCtx, endCancel = context.WithDeadline(baseCtx, start.Add(deadlineIn))
	} else {
		endCtx, endCancel = context.WithCancel(baseCtx)
	}
	defer endCancel()

	if c.Companion && c.State != "otherdial" {
		// (the other region of the table when there are two servers, else another row)
		ck := evid.B("zz")
		if bytes.Compare(c.Key, []byte("m")) >= 0 {
			ck = evid.B("aa")
		}
		go doOp(client, context.Background(), "t", opSpec{Kind: "get", Key: ck, Marker: "mkcompanion"})
		synctest.Wait()
	}
	var r c13Result
	done := make(chan struct{})
	switch c.Entry {
	case "get", "put":
		op := opSpec{Kind: c.Entry, Key: c.Key, Marker: marker(0)}
		go func() {
			defer close(done)
			r.err, _ = doOp(client, endCtx, "t", op)
			r.at = time.Now()
			r.returned = true
		}()
	case "scan":
		scan, _ := hrpc.NewScanRange(endCtx, []byte("t"), c.Key, nil)
		sc := client.Scan(scan)
		go func() {
			defer close(done)
			_, r.err = sc.Next()
			r.at = time.Now()
			r.returned = true
		}()
	case "batch":
		var calls []hrpc.Call
		for i := 0; i < n; i++ {
			ctx := context.Context(baseCtx)
			switch {
			case c.Which == "batch" && c.Shared:
				ctx = endCtx
			case c.Which == "callinbatch" && (affected[i] || c.AllOwn):
				ctx = endCtx
			}
			key := c.Key
			if c.Split {
				key = evid.B("z")
				if affected[i] {
					key = evid.B("a")
				}
			}
			call, err := buildCall(ctx, "t", opSpec{Kind: []string{"get", "put"}[i%2], Key: key, Marker: marker(i)})
			if err != nil {
				panic(err)
			}
			calls = append(calls, call)
		}
		bctx := context.Context(baseCtx)
		if c.Which == "batch" {
			bctx = endCtx
		}
		go func() {
			defer close(done)
			r.results, r.ok = client.SendBatch(bctx, calls)
			r.at = time.Now()
			r.returned = true
		}()
	}

	// wait until the targeted state is confirmed
	confirmed := false
	confirm := func() bool {
		execs, dials, _ := cl.Snapshot()
		switch c.State {
		case "zk":
			cl.Lock()
			k := cl.ZKCalls
			cl.Unlock()
			return k > 0
		case "meta":
			for _, e := range execs {
				if e.Method == "MetaScanArrived" {
					return true
				}
			}
		case "probe":
			for _, e := range execs {
				if e.Result == "held" {
					return true
				}
			}
		case "dialrefused", "otherdial":
			for _, d := range dials {
				if d.Result == "refused" {
					return true
				}
			}
		case "backoff":
			cnt := 0
			for _, e := range execs {
				if (e.Marker == marker(0) || e.Marker == "scan") && e.Result == class {
					cnt++
				}
			}
			return cnt >= c.N
		case "silent":
			for _, e := range execs {
				if e.Result == "drop" {
					return true
				}
			}
		case "held":
			cl.Lock()
			defer cl.Unlock()
			for _, e := range cl.Execs {
				if affected[0] && e.Marker != "" && e.Executed {
					return true
				}
			}
		case "busy":
			return true
		case "nsremeta":
			n := 0
			for _, e := range execs {
				if e.Method == "MetaScanArrived" {
					n++
				}
			}
			return n > 2 // (two from the warm-up)
		case "manydown":
			n := 0
			for _, e := range execs {
				if e.Method == "MetaScanArrived" {
					n++
				}
			}
			return n > 8 // (eight from the warm-up)
		}
		return false
	}
	var endAt time.Time
	if c.Mode == "cancel" {
		for i := 0; i < 6000 && !r.returned; i++ {
			synctest.Wait()
			if confirm() {
				confirmed = true
				break
			}
			time.Sleep(time.Millisecond)
		}
		synctest.Wait()
		if r.returned {
			teardown()
			out.Labels = append(out.Labels, "returned_before_cancel")
			return out
		}
		if !confirmed {
			teardown()
			out.Labels = append(out.Labels, "state_not_reached")
			return out
		}
		endAt = time.Now()
		endCancel()
	} else {
		// deadline: sleep until just before it, confirm the state, then let it pass
		time.Sleep(deadlineIn - time.Millisecond)
		synctest.Wait()
		confirmed = confirm()
		if r.returned {
			teardown()
			out.Labels = append(out.Labels, "returned_before_deadline")
			return out
		}
		if !confirmed {
			teardown()
			out.Labels = append(out.Labels, "state_not_reached")
			return out
		}
		endAt = start.Add(deadlineIn)
		time.Sleep(time.Millisecond)
	}
	synctest.Wait()
	if !r.returned {
		// "a short bounded delay": allow 100 virtual milliseconds
		time.Sleep(100 * time.Millisecond)
		synctest.Wait()
	}
	if !r.returned && c.Which == "callinbatch" && !c.Split && !c.AllOwn {
		// the other calls share the unanswered multi-request with the affected one: they
		// are done once the read timeout (2s) has failed the connection and they were retried
		time.Sleep(4 * time.Second)
		synctest.Wait()
	}
	returned := r.returned
	delay := r.at.Sub(endAt)
	stuck := ""
	if !returned {
		stuck = firstGohbaseStack(gohbaseGoroutines(), "SendBatch", "SendRPC", "Next")
	}
	execsAtEnd, _, _ := cl.Snapshot()
	teardown()
	<-done

	sigState := fmt.Sprintf("%s/%s/%s", c.Entry, c.State, c.Which)
	if !returned {
		return viol("cancel-ignored@"+sigState, "%s of the %s context while parked in state %q: the API call had not returned 100ms (virtual) later; blocked at:\n%s", c.Mode, c.Which, c.State, stuck)
	}
	wantErr := context.Canceled
	if c.Mode == "deadline" {
		wantErr = context.DeadlineExceeded
	}
	switch c.Entry {
	case "batch":
		if len(r.results) != n {
			return viol("batch-result-count", "batch of %d returned %d results", n, len(r.results))
		}
		if r.ok {
			return viol("cancel-batch-ok", "batch returned ok=true although a context ended while calls were unfinished (%s)", sigState)
		}
		for i, res := range r.results {
			// (AllOwn in a lookup state: no call of the batch can have finished; with a silent server or a
			// held response only the affected calls are unfinished, the others were answered ...
			// (... unless they travel in the same multi-request: not split over two servers)
			allPending := c.AllOwn && (c.State != "silent" && c.State != "held" || !c.Split)
			mustFail := c.Which == "batch" || affected[i] || allPending
			if c.Which == "callinbatch" && !affected[i] && !allPending {
				if c.AllOwn && (res.Error == nil || errors.Is(res.Error, context.Canceled) || errors.Is(res.Error, context.DeadlineExceeded)) {
					// (its own context ended as well: answered in time or given up before it was sent)
					continue
				}
				if res.Error != nil {
					return viol("cancel-collateral", "call %d (not cancelled, answered by the server) ended with %v; server log: %q", i, res.Error, execHistory(execsAtEnd))
				}
				continue
			}
			if mustFail && res.Error == nil {
				return viol("cancel-result-nil", "call %d of the batch was unfinished when the context ended but its result has a nil error (%s); server log: %q", i, sigState, execHistory(execsAtEnd))
			}
			// (the statement only asks for the call to be marked failed: a call that was in
			// a retry round keeps its own last error, others carry the context error)
		}
	default:
		if !errors.Is(r.err, wantErr) {
			return viol("cancel-wrong-error@"+sigState, "%s returned %v, expected an error wrapping %v", c.Entry, r.err, wantErr)
		}
	}
	if delay > time.Millisecond {
		out.Labels = append(out.Labels, "delayed_return")
	}
	out.NonTrivial = confirmed
	out.Labels = append(out.Labels, "entry_"+c.Entry, "state_"+c.State, "which_"+c.Which, "mode_"+c.Mode)
	return out
}

func firstGohbaseStack(gs []string, names ...string) string {
	for _, g := range gs {
		for _, n := range names {
			if len(g) > 0 && containsFrame(g, n) {
				if len(g) > 1800 {
					g = g[:1800]
				}
				return g
			}
		}
	}
	if len(gs) > 0 {
		g := gs[0]
		if len(g) > 1200 {
			g = g[:1200]
		}
		return g
	}
	return "(no gohbase goroutine found)"
}

func containsFrame(stack, fn string) bool {
	return len(stack) > 0 && (stringIndex(stack, ")."+fn+"(") >= 0 || stringIndex(stack, "."+fn+"(") >= 0)
}

func stringIndex(s, sub string) int {
	for i := 0; i+len(sub) <= len(s); i++ {
		if s[i:i+len(sub)] == sub {
			return i
		}
	}
	return -1
}

var c13States = []string{"zk", "meta", "probe", "dialrefused", "backoff", "busy", "silent", "held", "manydown", "otherdial", "nsremeta"}

func c13Fill(t *rapid.T, c *c13Case) {
	c.N = rapid.IntRange(1, 8).Draw(t, "n")
	c.BatchLen = rapid.IntRange(1, 6).Draw(t, "batchlen")
	na := rapid.IntRange(1, 2).Draw(t, "naffected")
	for i := 0; i < na; i++ {
		c.Affected = append(c.Affected, rapid.IntRange(0, c.BatchLen-1).Draw(t, "affected"))
	}
	if c.Which == "callinbatch" && c.BatchLen < 2 {
		c.BatchLen = 2
	}
	c.Shared = rapid.Bool().Draw(t, "shared")
	c.Split = c.Which == "callinbatch" && rapid.Bool().Draw(t, "split")
	c.Key = evid.B(rapid.SampledFrom([]string{"a", "m", "z", "", "l\xff"}).Draw(t, "key"))
	c.Class = rapid.SampledFrom([]string{sim.CallQueueBig, sim.RegionOpening, sim.Throttling, sim.RetryImm, sim.TooBusy, sim.PleaseHold}).Draw(t, "class")
	c.Queue = rapid.SampledFrom([]int{1, 2, 100}).Draw(t, "queue")
	c.FlushMS = rapid.SampledFrom([]int{0, 1, 20}).Draw(t, "flush")
	if c.State == "busy" {
		c.Queue = 2
		c.FlushMS = 0
		// (everything on the stalled server - or, for single calls of a batch that are given up while the batch's
		// own context lives on, the affected calls there and the others on the healthy one)
		c.Split = c.Which == "callinbatch" && !c.AllOwn
	}
}

func c13Gen(t *rapid.T) c13Case {
	// construct valid combinations only, weighting the three context kinds evenly
	var c c13Case
	c.Which = rapid.SampledFrom([]string{"call", "call", "batch", "callinbatch"}).Draw(t, "which")
	switch c.Which {
	case "call":
		c.Entry = rapid.SampledFrom([]string{"get", "put", "scan"}).Draw(t, "entry")
	default:
		c.Entry = "batch"
	}
	c.Mode = rapid.SampledFrom([]string{"cancel", "deadline"}).Draw(t, "mode")
	c.Queue = 2
	c.AllOwn = c.Which == "callinbatch" && rapid.Bool().Draw(t, "allown")
	var states []string
	for _, st := range c13States {
		x := c
		x.State = st
		if c13Valid(x) {
			states = append(states, st)
		}
	}
	c.State = rapid.SampledFrom(states).Draw(t, "state")
	c13Fill(t, &c)
	switch c.State {
	case "zk", "meta", "probe", "dialrefused":
		c.Companion = rapid.Bool().Draw(t, "companion")
	}
	return c
}

func TestC13_Cancellation(t *testing.T) {
	theT = t
	rec := evid.New("C13", "TestC13_Cancellation",
		"rapid over the enumerated cross product (entry point in {Get, Put, SendBatch, Scanner.Next}) x (wait state in "+
			"{ZooKeeper lookup held, meta scan held, region probe held, dial refused repeatedly, dial refused while another request's dial to another server hangs, the connection of a server with eight cached regions breaking while hbase:meta is silent, n-th retry back-off "+
			"sleep n=1..8, busy send queue, silent server, response of one call held}) x (which context: the call's, the "+
			"batch's, a single call's inside a batch, every call's inside a batch whose own context stays alive) x (cancel, deadline), with drawn batch shapes, keys, queue/flush "+
			"settings and retryable classes; optionally another request with a live context is already stuck in the same state. Virtual time: the state is confirmed through the simulated cluster before the "+
			"context ends; the API call must have returned at the next quiescence point (<= 100 virtual ms) with an "+
			"error wrapping the context error; a batch returns ok=false with the unfinished calls failed. Non-trivial = "+
			"the targeted state was confirmed at the instant the context ended; distinct by case hash")
	Drive(t, rec, true, c13Gen, c13Run)
}
