package props

import (
	"bytes"
	"context"
	"io"
	"net"
	"sync"
	"testing"
	"time"

	"github.com/tsuna/gohbase/compression"
	"github.com/tsuna/gohbase/hrpc"
	"github.com/tsuna/gohbase/region"

	"verifharness/evid"
)

// c05cRun is the concurrent-sender workload of TestC05_ConcurrentSenders over a
// kernel TCP socket on loopback (real time, no bubble, no timing assertions).
func c05cRun(c c05bCase) (out Outcome) {
	ln, err := net.Listen("tcp", "127.0.0.1:0")
	if err != nil {
		out.Labels = append(out.Labels, "no_loopback")
		return out
	}
	defer ln.Close()
	var stream []byte
	srvDone := make(chan struct{})
	go func() {
		defer close(srvDone)
		conn, err := ln.Accept()
		if err != nil {
			return
		}
		defer conn.Close()
		buf := make([]byte, 1+len(c.Senders)*37%4096)
		for {
			n, err := conn.Read(buf)
			stream = append(stream, buf[:n]...)
			if err != nil {
				return
			}
		}
	}()
	var codec compression.Codec
	if c.Snappy {
		codec = compression.New("snappy")
	}
	rc := region.NewClient(ln.Addr().String(), region.RegionClient, c.Queue(), time.Duration(c.FlushMS)*time.Millisecond, "verif", time.Hour, codec, nil, quietLogger)
	if err := rc.Dial(context.Background()); err != nil {
		return viol("harness", "dial: %v", err)
	}
	reg := region.NewInfo(1, nil, []byte("t"), []byte("t,,1"), nil, nil)
	want := map[string]c05bOp{}
	var calls []hrpc.Call
	var markers []string
	var mu sync.Mutex
	var wg sync.WaitGroup
	for _, ops := range c.Senders {
		for _, op := range ops {
			want[op.Marker] = op
		}
		wg.Add(1)
		go func(ops []c05bOp) {
			defer wg.Done()
			for _, op := range ops {
				call, err := c05bBuild(op)
				if err != nil {
					panic(err)
				}
				call.SetRegion(reg)
				mu.Lock()
				calls = append(calls, call)
				markers = append(markers, op.Marker)
				mu.Unlock()
				rc.QueueRPC(call)
			}
		}(ops)
	}
	wg.Wait()
	time.Sleep(time.Duration(c.FlushMS)*time.Millisecond + 30*time.Millisecond)
	rc.Close()
	select {
	case <-srvDone:
	case <-time.After(10 * time.Second):
		out.Labels = append(out.Labels, "server_read_timeout")
		return out
	}
	_, reqs, derr := decodeStream(stream, c.Snappy)
	if derr != nil && derr != io.EOF {
		return viol("stream-corrupt", "the byte stream of %d senders over TCP does not decode as HBase RPC: %v (decoded %d frames of %d calls)", len(c.Senders), derr, len(reqs), len(want))
	}
	seen := map[string]int{}
	for _, r := range reqs {
		for i, mk := range r.Markers {
			seen[mk]++
			op, ok := want[mk]
			if !ok {
				return viol("unknown-call-on-wire", "frame carries marker %q that nobody sent", mk)
			}
			if !bytes.Equal(r.Rows[i], op.Key) {
				return viol("wire-row-mismatch", "call %s was built for row %q, the wire says %q", mk, op.Key, r.Rows[i])
			}
			if seen[mk] > 1 {
				return viol("calls-missing-or-duplicated", "call %s is on the wire %d times", mk, seen[mk])
			}
		}
	}
	// a call that is not on the wire must have been failed (the client was closed before its flush)
	for i, call := range calls {
		if seen[markers[i]] == 0 {
			select {
			case r := <-call.ResultChan():
				if r.Error == nil {
					return viol("calls-missing-or-duplicated", "call %s never reached the wire but got a success", markers[i])
				}
			case <-time.After(60 * time.Second):
				// (the batching goroutine fails what it still holds when it notices the close: that is
				// asynchronous, so give it real time - a minute without a result is not slowness)
				return viol("calls-missing-or-duplicated", "call %s neither reached the wire nor was failed within a minute of the client being closed", markers[i])
			}
		}
	}
	out.NonTrivial = len(c.Senders) >= 2
	out.Labels = append(out.Labels, "tcp")
	return out
}

// Queue returns the queue size (helper so that c05bCase can be shared).
func (c c05bCase) Queue() int { return c.QueueSize }

func TestC05_TCP(t *testing.T) {
	rec := evid.New("C05", "TestC05_TCP",
		"rapid, real time over a kernel TCP socket on 127.0.0.1: the concurrent-sender workload (1..8 goroutines, "+
			"SkipBatch puts with cellblocks, batched calls, scans, snappy on/off) with the server side reading in "+
			"odd-sized chunks; oracle: the byte stream decodes into well-formed frames, every call at most once with its "+
			"row, and a call that is not on the wire was failed. No timing assertion. Non-trivial = >= 2 senders; "+
			"distinct by case hash")
	Drive(t, rec, false, c05bGen, c05cRun)
}
