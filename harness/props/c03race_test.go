package props

import (
	"context"
	"fmt"
	"strings"
	"sync"
	"testing"
	"testing/synctest"
	"time"

	"github.com/tsuna/gohbase/hrpc"
	"github.com/tsuna/gohbase/region"
	"google.golang.org/protobuf/proto"
	"pgregory.net/rapid"

	"verifharness/evid"
	"verifharness/memconn"
	"verifharness/wire"
)

// parkedGet is a Get whose serialisation takes as long as the harness wants: the sender is past
// the region client's "is it dead" check and not yet registered as sent while it is parked.
type parkedGet struct {
	*hrpc.Get
	entered chan struct{}
	gate    chan struct{}
	once    sync.Once
}

func (p *parkedGet) ToProto() proto.Message {
	p.once.Do(func() { close(p.entered) })
	<-p.gate
	return p.Get.ToProto()
}

// c03rCase: a sender is in the middle of send() (serialising) when the connection fails; the
// harness owns the schedule: the sender resumes at a chosen point of the failure handling.
type c03rCase struct {
	Outstanding int    `json:"outstanding"` // calls written and awaiting a response when the failure starts
	Batched     bool   `json:"batched"`     // the parked call goes through the batching goroutine
	Queue       int    `json:"queue"`
	Trigger     string `json:"trigger"` // close | srv-close | read-timeout | srv-fatal
	// Resume: when the parked sender continues: "at-close" = when the failure handler is about to
	// close the connection (the sender then runs until it has written or returned, and only then
	// does the close proceed); "after" = after the failure handling has finished; "before" = just
	// before the failure starts.
	Resume string `json:"resume"`
	After  int    `json:"after"`
	// Bad: the parked call cannot be marshalled (a Get without a row key): when it resumes, serialisation fails
	// - a per-call error on a healthy connection, or nothing more to report if the connection has failed meanwhile
	Bad bool `json:"bad,omitempty"`
}

func c03rRun(c c03rCase) Outcome {
	var o Outcome
	res := inBubble(theT, func() { o = c03rInBubble(c) })
	if o, stuck := stuckVerdict(res); stuck {
		return o
	}
	if res.Panic != "" {
		return viol("panic@"+topFrame(res.Stack), "%s\n%s", res.Panic, res.Stack)
	}
	if res.Deadlock != "" && o.Sig == "" {
		return viol("conn-fail-hang", "%s\n%s", res.Deadlock, bubbleStacks(res.Stack))
	}
	return o
}

func c03rInBubble(c c03rCase) (out Outcome) {
	readTimeout := time.Hour
	if c.Trigger == "read-timeout" {
		readTimeout = 50 * time.Millisecond
	}
	gate := make(chan struct{})
	var gateOnce sync.Once
	release := func() { gateOnce.Do(func() { close(gate) }) }
	defer release()
	wrote := make(chan struct{}, 16)
	senderDone := make(chan struct{})
	var mu sync.Mutex
	armed, released := false, false
	opts := memconn.Options{
		BeforeOp: func(idx int, kind string) {
			mu.Lock()
			fire := armed && kind == "close" && !released && c.Resume == "at-close"
			if fire {
				released = true
			}
			mu.Unlock()
			if fire {
				release()
				// let the resumed sender get as far as it can: until its request is on the wire or
				// it has returned (a virtual second at most)
				select {
				case <-wrote:
				case <-senderDone:
				case <-time.After(time.Second):
				}
			}
		},
		AfterWriteDone: func(error) {
			mu.Lock()
			r := released
			mu.Unlock()
			if r {
				select {
				case wrote <- struct{}{}:
				default:
				}
			}
		},
	}
	env, err := newRCEnv(c.Queue, time.Millisecond, readTimeout, false, opts)
	if err != nil {
		return viol("harness", "dial: %v", err)
	}
	srvDone := make(chan struct{})
	fatalNow := make(chan struct{}, 1)
	go func() {
		defer close(srvDone)
		conn := env.pair.Server
		if _, err := wire.ReadHello(conn); err != nil {
			return
		}
		var last *wire.Request
		reqs := make(chan *wire.Request, 64)
		go func() {
			for {
				r, err := wire.ReadRequest(conn)
				if err != nil {
					close(reqs)
					return
				}
				reqs <- r
			}
		}()
		for {
			select {
			case r, ok := <-reqs:
				if !ok {
					return
				}
				last = r
			case <-fatalNow:
				if last != nil {
					conn.Write(wire.BuildResponse(last.Header.GetCallId(), nil, nil, wire.Exception(
						"org.apache.hadoop.hbase.regionserver.RegionServerStoppedException", "RegionServerStoppedException: stopping")))
				} else {
					conn.Close()
				}
			}
		}
	}()
	type tracked struct {
		name    string
		call    hrpc.Call
		results []hrpc.RPCResult
	}
	var tmu sync.Mutex
	var all []*tracked
	stop := make(chan struct{})
	var waiters sync.WaitGroup
	track := func(name string, call hrpc.Call) *tracked {
		t := &tracked{name: name, call: call}
		tmu.Lock()
		all = append(all, t)
		tmu.Unlock()
		waiters.Add(1)
		go func() {
			defer waiters.Done()
			for {
				select {
				case r := <-call.ResultChan():
					tmu.Lock()
					t.results = append(t.results, r)
					tmu.Unlock()
				case <-stop:
					return
				}
			}
		}()
		return t
	}
	defer func() {
		release()
		close(stop)
		env.rc.Close()
		env.pair.Server.Close()
		waiters.Wait()
		<-srvDone
		synctest.Wait()
	}()
	for i := 0; i < c.Outstanding; i++ {
		g, _ := hrpc.NewGet(context.Background(), []byte("t"), []byte("r"), hrpc.SkipBatch(), hrpc.Families(markerFam(fmt.Sprintf("mk%d", i))))
		g.SetRegion(env.reg)
		track(fmt.Sprintf("outstanding-%d", i), g)
		env.rc.QueueRPC(g)
	}
	synctest.Wait()
	// the parked sender
	var gopts []func(hrpc.Call) error
	if !c.Batched {
		gopts = append(gopts, hrpc.SkipBatch())
	}
	parkedKey := []byte("r")
	if c.Bad {
		parkedKey = nil
	}
	inner, _ := hrpc.NewGet(context.Background(), []byte("t"), parkedKey, append(gopts, hrpc.Families(markerFam("mkparked")))...)
	pg := &parkedGet{Get: inner, entered: make(chan struct{}), gate: gate}
	pg.SetRegion(env.reg)
	pt := track("parked", pg)
	go func() {
		defer close(senderDone)
		env.rc.QueueRPC(pg)
	}()
	select {
	case <-pg.entered:
	case <-time.After(time.Second):
		return viol("harness", "the parked call never reached serialisation (batched=%v queue=%d)", c.Batched, c.Queue)
	}
	synctest.Wait()
	mu.Lock()
	armed = true
	mu.Unlock()
	if c.Resume == "before" {
		mu.Lock()
		released = true
		mu.Unlock()
		release()
	}
	switch c.Trigger {
	case "close":
		go env.rc.Close()
	case "srv-close":
		env.pair.Server.Close()
	case "read-timeout":
		if c.Outstanding == 0 {
			// nothing in flight arms no deadline: fall back to an external close
			go env.rc.Close()
		} else {
			time.Sleep(readTimeout + time.Millisecond)
		}
	case "srv-fatal":
		fatalNow <- struct{}{}
	}
	synctest.Wait()
	if c.Resume == "after" {
		mu.Lock()
		released = true
		mu.Unlock()
		release()
		synctest.Wait()
	}
	time.Sleep(2 * time.Millisecond) // the flush interval, for a batched parked call
	synctest.Wait()
	if c.Trigger == "read-timeout" {
		time.Sleep(readTimeout + time.Millisecond)
		synctest.Wait()
	}
	select {
	case <-senderDone:
	default:
		return viol("never-completed", "the sender that was serialising its request when the connection failed (%s, resumed %s) is still inside QueueRPC:\n%s",
			c.Trigger, c.Resume, firstGohbaseStack(gohbaseGoroutines(), "QueueRPC", "processRPCs"))
	}
	// later calls are refused
	for i := 0; i < c.After; i++ {
		g, _ := hrpc.NewGet(context.Background(), []byte("t"), []byte("r"), hrpc.SkipBatch())
		g.SetRegion(env.reg)
		t := track(fmt.Sprintf("later-%d", i), g)
		env.rc.QueueRPC(g)
		synctest.Wait()
		tmu.Lock()
		n := len(t.results)
		var e error
		if n > 0 {
			e = t.results[0].Error
		}
		tmu.Unlock()
		if _, ok := e.(region.ServerError); n != 1 || !ok {
			return viol("not-refused-after-failure", "call queued after the failure: %d results, error %v", n, e)
		}
	}
	tmu.Lock()
	defer tmu.Unlock()
	for _, t := range all {
		if len(t.results) > 1 {
			return viol("completed-twice", "call %s received %d results: %v", t.name, len(t.results), t.results)
		}
		if len(t.results) == 0 {
			return viol("never-completed", "call %s was left without a result after the connection failed (%s while a sender was serialising; it resumed %s); goroutines: %s",
				t.name, c.Trigger, c.Resume, firstGohbaseStack(gohbaseGoroutines(), "processRPCs", "receiveRPCs", "QueueRPC"))
		}
		if _, ok := t.results[0].Error.(region.ServerError); !ok {
			if c.Bad && t.name == "parked" && t.results[0].Error != nil {
				// (it resumed while the connection was still up: its own marshalling error)
				continue
			}
			return viol("wrong-error-class", "call %s ended with %T %v, not a region.ServerError", t.name, t.results[0].Error, t.results[0].Error)
		}
	}
	_ = pt
	for _, g := range gohbaseGoroutines() {
		if strings.Contains(g, "region.(*client).processRPCs") || strings.Contains(g, "region.(*client).receiveRPCs") {
			return viol("goroutine-survives-failure", "a region client goroutine is still alive after the connection failed:\n%s", g)
		}
	}
	out.NonTrivial = true
	out.Labels = append(out.Labels, "trigger_"+c.Trigger, "resume_"+c.Resume)
	return out
}

func TestC03_SenderRacesFailure(t *testing.T) {
	theT = t
	rec := evid.New("C03", "TestC03_SenderRacesFailure",
		"rapid, virtual time, harness-owned schedule: 0..3 calls are outstanding on a region client and one more sender "+
			"(unbatched, or the batching goroutine flushing a batched call; its request well-formed, or one that cannot be marshalled) is parked INSIDE the serialisation of its request "+
			"(past the dead-check, not yet registered) when the connection fails by Close / server hang-up / read timeout / "+
			"server-fatal exception; the sender resumes before the failure, exactly when the failure handler is about to close "+
			"the connection (it then runs until its request is on the wire), or after the handler finished. Oracle: every call "+
			"incl. the racing one gets exactly one region.ServerError, QueueRPC returns, later calls are refused, reader and "+
			"writer goroutines end. Every case is non-trivial; distinct by case hash (the space is small: thorough = exhaustive repeats)")
	Drive(t, rec, true, func(t *rapid.T) c03rCase {
		return c03rCase{
			Outstanding: rapid.IntRange(0, 3).Draw(t, "outstanding"),
			Batched:     rapid.Bool().Draw(t, "batched"),
			Queue:       rapid.SampledFrom([]int{2, 5, 100}).Draw(t, "queue"),
			Trigger:     rapid.SampledFrom([]string{"close", "srv-close", "read-timeout", "srv-fatal"}).Draw(t, "trigger"),
			Resume:      rapid.SampledFrom([]string{"at-close", "at-close", "after", "before"}).Draw(t, "resume"),
			After:       rapid.IntRange(0, 2).Draw(t, "after"),
			Bad:         rapid.IntRange(0, 2).Draw(t, "bad") == 0,
		}
	}, c03rRun)
}
