package props

import (
	"context"
	"errors"
	"fmt"
	"testing"
	"testing/synctest"
	"time"

	"github.com/tsuna/gohbase"
	"github.com/tsuna/gohbase/hrpc"
	"pgregory.net/rapid"

	"verifharness/evid"
	"verifharness/sim"
)

// c17bCase: one persistent-failure scenario.
type c17bCase struct {
	// Scenario: retry-class (S1) | conn-drop (S2) | dial-fail (S2b) | probe-drop (S2c) | probe-fail (S3) |
	// meta-down (S4) | zk-error (S4)
	Scenario string `json:"scenario"`
	Class    string `json:"class,omitempty"`
	Batch    int    `json:"batch"` // 0 = single call, n = SendBatch of n calls on the region
	Key      evid.B `json:"key"`
	Queue    int    `json:"queue"`
	FlushMS  int    `json:"flush_ms"`
	RunSec   int    `json:"run_sec"` // virtual seconds before the context is cancelled
	// LookupTimeoutMS is the per-attempt region lookup time-out for the hang scenarios
	LookupTimeoutMS int `json:"lookup_timeout_ms,omitempty"`
	// Stagger (retry-class, batch >= 2): only the first call fails for ever; call i gets through
	// after i retry-later answers, so that the batch makes progress round after round
	Stagger bool `json:"stagger,omitempty"`
	// RegionLevel (retry-class): the exception is reported for the whole region action of a
	// multi-request (throttling, too busy, call queue full reject the batch, not the cheap probe)
	RegionLevel bool `json:"region_level,omitempty"`
	// Class2 (alternating): the class of every second answer
	Class2 string `json:"class2,omitempty"`
	// CacheRegions (meta-hang, meta-error, meta-down): what keeps failing is the whole-table lookup of
	// Client.CacheRegions (it has no context: the run ends by closing the client)
	CacheRegions bool `json:"cache_regions,omitempty"`
}

// scheduleGaps returns the minimal waits before retry 1, 2, 3...
func scheduleGaps(n int) []time.Duration {
	var out []time.Duration
	b := time.Duration(0)
	for i := 0; i < n; i++ {
		b = backoffOracle(b)
		out = append(out, b)
	}
	return out
}

func c17bRun(c c17bCase) Outcome {
	var o Outcome
	res := inBubble(theT, func() { o = c17bRunInBubble(c) })
	if o, stuck := stuckVerdict(res); stuck {
		return o
	}
	if res.Panic != "" {
		return viol("panic@"+topFrame(res.Stack), "%s\n%s", res.Panic, res.Stack)
	}
	if res.Deadlock != "" && o.Sig == "" && !exitLeak(res.Deadlock) {
		return viol("deadlock", "bubble deadlocked: %s\n%s", res.Deadlock, bubbleStacks(res.Stack))
	}
	return o
}

func c17bRunInBubble(c c17bCase) (out Outcome) {
	cl := sim.New("rs1:16020", "rs2:16020")
	cl.AddTable("t", [][]byte{[]byte("m")}, []string{"rs2:16020"}, 1000, false)
	n := c.Batch
	if n == 0 {
		n = 1
	}
	marker := func(i int) string { return fmt.Sprintf("mk%d", i+1) }
	forever := 200
	switch c.Scenario {
	case "alternating":
		// the region answers the request in turns with a retry-later class and with not-serving (its probe succeeds)
		for i := 0; i < n; i++ {
			for k := 0; k < forever; k++ {
				cls, stack := c.Class, "persistent"
				if k%2 == 1 {
					cls = c.Class2
					if cls == sim.IOExc {
						stack = "Cannot append; log is closed"
					}
				}
				cl.Script[marker(i)] = append(cl.Script[marker(i)], sim.Outcome{Kind: "exc", Class: cls, Stack: stack})
			}
		}
	case "retry-class", "nsre-class":
		if c.RegionLevel {
			for _, r := range cl.Regions {
				for k := 0; k < forever; k++ {
					r.MultiExc = append(r.MultiExc, sim.Exc{Class: c.Class, Stack: c.Class + ": persistent, region-wide"})
				}
			}
			break
		}
		for i := 0; i < n; i++ {
			k := forever
			if c.Stagger && i > 0 {
				k = i
			}
			for ; k > 0; k-- {
				stack := "persistent"
				if c.Class == sim.IOExc {
					stack = "Cannot append; log is closed"
				}
				cl.Script[marker(i)] = append(cl.Script[marker(i)], sim.Outcome{Kind: "exc", Class: c.Class, Stack: stack})
			}
		}
	case "conn-drop":
		for i := 0; i < n; i++ {
			for k := 0; k < forever; k++ {
				cl.Script[marker(i)] = append(cl.Script[marker(i)], sim.Outcome{Kind: "reset"})
			}
		}
	case "dial-fail":
		cl.Servers["rs2:16020"].Down = true
	case "probe-drop":
		// the server accepts the connection, takes the probe off the wire and hangs up
		cl.Servers["rs2:16020"].DropOnRequest = true
	case "probe-fail":
		for _, r := range cl.Regions {
			for k := 0; k < forever; k++ {
				r.Transient = append(r.Transient, sim.Exc{Class: c.Class})
			}
		}
	case "meta-notserving":
		// ZooKeeper keeps naming a server that is up but does not serve hbase:meta
		cl.ZKMetaAddr = "rs2:16020"
	case "meta-down":
		cl.Servers["rs1:16020"].Down = true
	case "zk-error":
		for k := 0; k < forever; k++ {
			cl.ZKErrs = append(cl.ZKErrs, errors.New("zk: could not connect to a server"))
		}
	case "zk-hang":
		cl.ZKHold = true // every lookup attempt hangs until its own time-out
	case "meta-hang":
		cl.MetaHold = true
	case "meta-older":
		// (arranged after the warm-up, below)
		cl.MinLatency = time.Millisecond
	case "meta-error":
		// hbase:meta answers every scan with an exception of no particular class
		for k := 0; k < 20*forever; k++ {
			cl.MetaErr = append(cl.MetaErr, sim.Exc{Class: c.Class, Stack: "meta scan failed"})
		}
	}
	lookupTimeout := 30 * time.Second
	if c.Scenario == "zk-hang" || c.Scenario == "meta-hang" {
		lookupTimeout = time.Duration(c.LookupTimeoutMS) * time.Millisecond
	}
	client := newSimClient(cl, gohbase.RpcQueueSize(c.Queue), gohbase.FlushInterval(time.Duration(c.FlushMS)*time.Millisecond),
		gohbase.RegionLookupTimeout(lookupTimeout),
		// (no read time-out in the way: a held meta scan must only be given up by the
		// lookup attempt's own time-out, not failed over by the connection)
		gohbase.RegionReadTimeout(24*time.Hour))
	if c.Scenario == "meta-older" {
		// the region the request needs is known to the client; then the table is restored from a snapshot
		// taken before that region came to be: hbase:meta lists an OLDER region (smaller id) over its range,
		// the cached one never comes online again, and its connection breaks
		if err, cerr := doOp(client, context.Background(), "t", opSpec{Kind: "get", Key: c.Key, Marker: "mkwarm"}); err != nil || cerr != nil {
			client.Close()
			drainClient()
			cl.Stop()
			return viol("harness", "warm-up: %v %v", err, cerr)
		}
		cl.Lock()
		old := cl.Owner2Locked("t", c.Key)
		older := &sim.Region{Table: "t", Start: old.Start, Stop: old.Stop, ID: 500, Addr: old.Addr}
		older.Name = sim.RegionName("t", older.Start, older.ID, false)
		for i, r := range cl.Regions {
			if r == old {
				cl.Regions[i] = older
			}
		}
		cl.Execs = nil // (the warm-up's lookups are not attempts)
		cl.Unlock()
		cl.KillConns("rs2:16020")
		synctest.Wait()
	}
	ctx, cancel := context.WithCancel(context.Background())
	defer cancel()
	var err error
	var results []hrpc.RPCResult
	done := make(chan struct{})
	var returnedAt time.Time
	go func() {
		defer close(done)
		if c.CacheRegions {
			err = client.CacheRegions([]byte("t"))
			returnedAt = time.Now()
			return
		}
		if c.Batch == 0 {
			err, _ = doOp(client, ctx, "t", opSpec{Kind: "get", Key: c.Key, Marker: marker(0)})
		} else {
			var calls []hrpc.Call
			for i := 0; i < n; i++ {
				call, _ := buildCall(ctx, "t", opSpec{Kind: []string{"get", "put"}[i%2], Key: c.Key, Marker: marker(i)})
				calls = append(calls, call)
			}
			results, _ = client.SendBatch(ctx, calls)
		}
		returnedAt = time.Now()
	}()
	time.Sleep(time.Duration(c.RunSec) * time.Second)
	synctest.Wait()
	select {
	case <-done:
		execs, dials, _ := cl.Snapshot()
		client.Close()
		drainClient()
		cl.Stop()
		// (a request that got through because it used up the scripted failures in no time: say so)
		if o := c17bSchedule(c, cl, execs, dials, nil); o.Sig != "" {
			return o
		}
		return viol("returned-without-cancel@"+c.Scenario, "the request returned (err=%v, results=%v) after %v although the failure persists and its context is live", err, results, returnedAt.Sub(time.Now().Add(-time.Duration(c.RunSec)*time.Second)))
	default:
	}
	cancelAt := time.Now()
	cancel()
	if c.CacheRegions {
		// (only closing the client ends it; how long that takes is C19's business)
		execs, dials, _ := cl.Snapshot()
		client.Close()
		select {
		case <-done:
		case <-time.After(10 * time.Minute):
			return viol("cacheregions-never-returns", "CacheRegions had not returned 10 virtual minutes after the client was closed")
		}
		drainClient()
		cl.Stop()
		return c17bSchedule(c, cl, execs, dials, nil)
	}
	synctest.Wait()
	returned := false
	select {
	case <-done:
		returned = true
	default:
		time.Sleep(100 * time.Millisecond)
		synctest.Wait()
		select {
		case <-done:
			returned = true
		default:
		}
	}
	execs, dials, _ := cl.Snapshot()
	cl.Lock()
	zkTimes := append([]time.Duration(nil), cl.ZKTimes...)
	cl.Unlock()
	client.Close()
	drainClient()
	cl.Stop()
	<-done
	if !returned {
		return viol("cancel-ignored@"+c.Scenario, "the request did not return within 100 virtual ms of its cancellation")
	}
	if returnedAt.Sub(cancelAt) > 100*time.Millisecond {
		return viol("cancel-ignored@"+c.Scenario, "the request returned %v after its cancellation", returnedAt.Sub(cancelAt))
	}
	return c17bSchedule(c, cl, execs, dials, zkTimes)
}

// c17bSchedule holds the attempt times that matter for the scenario against the schedule.
func c17bSchedule(c c17bCase, cl *sim.Cluster, execs []sim.Exec, dials []sim.DialEvent, zkTimes []time.Duration) (out Outcome) {
	marker := func(i int) string { return fmt.Sprintf("mk%d", i+1) }
	var times []time.Duration
	free := 0                // retries that may come without a wait
	hang := time.Duration(0) // time each attempt itself takes before it fails
	what := ""
	switch c.Scenario {
	case "retry-class":
		what = "attempts of the request at the server"
		for _, e := range execs {
			if e.Marker == marker(0) {
				times = append(times, e.T)
			}
		}
	case "alternating":
		what = "attempts of the request at the server (answered in turns " + c.Class + " and " + c.Class2 + ")"
		free = 2
		for _, e := range execs {
			if e.Marker == marker(0) {
				times = append(times, e.T)
			}
		}
	case "nsre-class":
		// the region refuses the request as "not serving" although it answers the probe of every
		// re-establishment (a closed write-ahead log, say): like connection-level failures, two
		// immediate retries, then the schedule
		what = "attempts of the request at the server (answered " + c.Class + ", the region's probe succeeds)"
		free = 2
		for _, e := range execs {
			if e.Marker == marker(0) {
				times = append(times, e.T)
			}
		}
	case "conn-drop":
		what = "attempts of the request at the server"
		free = 2
		for _, e := range execs {
			if e.Marker == marker(0) {
				times = append(times, e.T)
			}
		}
	case "dial-fail":
		what = "dial attempts to the region's server"
		for _, d := range dials {
			if d.Addr == "rs2:16020" {
				times = append(times, d.T)
			}
		}
	case "probe-drop":
		what = "connections to the region's server (each accepted, the probe read, then dropped)"
		for _, d := range dials {
			if d.Addr == "rs2:16020" {
				times = append(times, d.T)
			}
		}
	case "probe-fail":
		what = "region probes"
		reg := cl.Owner("t", c.Key)
		for _, e := range execs {
			if e.Probe && reg != nil && e.Region == string(reg.Name) {
				times = append(times, e.T)
			}
		}
	case "meta-down":
		what = "dial attempts to the hbase:meta server"
		for _, d := range dials {
			if d.Addr == "rs1:16020" {
				times = append(times, d.T)
			}
		}
	case "meta-notserving":
		what = "ZooKeeper lookups of hbase:meta (the server named there answers NotServingRegion)"
		times = zkTimes
	case "zk-error":
		what = "ZooKeeper lookups"
		times = zkTimes
	case "zk-hang":
		what = "ZooKeeper lookups (each hanging until the lookup time-out)"
		times = zkTimes
		hang = time.Duration(c.LookupTimeoutMS) * time.Millisecond
	case "meta-hang":
		what = "hbase:meta scans (each hanging until the lookup time-out)"
		for _, e := range execs {
			if e.Method == "MetaScanArrived" {
				times = append(times, e.T)
			}
		}
		hang = time.Duration(c.LookupTimeoutMS) * time.Millisecond
	case "meta-older":
		what = "hbase:meta scans (each answered with a region that is older than the one the client holds on to)"
		free = 2
		for _, e := range execs {
			if e.Method == "MetaScanArrived" {
				times = append(times, e.T)
			}
		}
	case "meta-error":
		what = "hbase:meta scans (each answered with " + c.Class + ")"
		for _, e := range execs {
			if e.Method == "MetaScanArrived" {
				times = append(times, e.T)
			}
		}
	}
	// drop what happened after the cancellation
	var kept []time.Duration
	for _, t := range times {
		if t <= time.Duration(c.RunSec)*time.Second {
			kept = append(kept, t)
		}
	}
	times = kept
	if len(times) < 2 {
		out.Labels = append(out.Labels, "too_few_attempts")
		return out
	}
	// every retry either waits for (at least) the next value of the schedule, or it is one of the at most
	// `free` immediate ones - wherever in the sequence those come (failures of different kinds may alternate)
	gaps := scheduleGaps(len(times))
	k, freeLeft := 0, free
	for i := 1; i < len(times); i++ {
		gap := times[i] - times[i-1]
		switch {
		case gap >= gaps[k]+hang:
			k++
		case freeLeft > 0:
			freeLeft--
		default:
			return viol("retry-too-fast@"+c.Scenario, "%s: retry %d came %v after the previous attempt, the schedule requires >= %v by now (%d waits of the schedule and %d immediate retries seen before; attempt times %v)", what, i, gap, gaps[k]+hang, k, free-freeLeft, head(times, 14))
		}
	}
	// the rate is bounded: within the run there cannot be more attempts than the schedule allows
	maxAttempts := 1 + free
	total := time.Duration(0)
	for _, g := range scheduleGaps(64) {
		total += g + hang
		if total > time.Duration(c.RunSec)*time.Second {
			break
		}
		maxAttempts++
	}
	if len(times) > maxAttempts+2 {
		return viol("retry-rate@"+c.Scenario, "%s: %d attempts in %d virtual seconds, the schedule allows at most %d", what, len(times), c.RunSec, maxAttempts)
	}
	out.NonTrivial = len(times) >= 4
	if c.CacheRegions {
		out.Labels = append(out.Labels, "via_CacheRegions")
	}
	out.Labels = append(out.Labels, "scenario_"+c.Scenario, fmt.Sprintf("attempts_ge_%d", (len(times)/4)*4))
	return out
}

func head(t []time.Duration, n int) []time.Duration {
	if len(t) > n {
		return t[:n]
	}
	return t
}

func TestC17_RetrySchedule(t *testing.T) {
	theT = t
	rec := evid.New("C17", "TestC17_RetrySchedule",
		"rapid over enumerated persistent-failure scenarios, exact virtual time, the real back-off function (no stub): "+
			"the region answers a retryable class forever (single call and SendBatch of 1..3 calls), the region refuses the request as not-serving for ever while it "+
			"answers the probe of every re-establishment (NotServingRegion, RegionMoved, 'log is closed'), the two kinds of answer alternating, the server accepts "+
			"and then drops the connection on every request, the region's server refuses every dial, the region probe "+
			"answers NotServing / RegionOpening forever, the hbase:meta server is down, hangs, or answers every scan with an unclassified exception, "+
			"ZooKeeper errors; the failing operation is a request or (meta scenarios) the whole-table lookup of CacheRegions; key, queue "+
			"size, flush interval and run length (5..300 virtual seconds) drawn. Oracle on the simulated cluster's "+
			"timestamps: the gap before retry i is >= the schedule's i-th wait (16 ms doubling below 5 s, then +5 s below "+
			"30 s, then constant; at most two immediate retries, wherever in the sequence, where failures are connection-level or not-serving), the number of attempts "+
			"in the run is bounded by the schedule, the request never returns while the failure persists and returns "+
			"within 100 virtual ms of its cancellation. Non-trivial = >= 4 consecutive attempts observed; distinct by case hash")
	Drive(t, rec, true, func(t *rapid.T) c17bCase {
		c := c17bCase{
			Scenario:        rapid.SampledFrom([]string{"retry-class", "retry-class", "nsre-class", "nsre-class", "alternating", "alternating", "conn-drop", "dial-fail", "probe-drop", "probe-fail", "meta-down", "meta-notserving", "zk-error", "zk-hang", "meta-hang", "meta-error", "meta-error", "meta-older"}).Draw(t, "scenario"),
			LookupTimeoutMS: rapid.SampledFrom([]int{20, 200, 1000, 30000}).Draw(t, "lookuptimeout"),
			Batch:           rapid.SampledFrom([]int{0, 0, 1, 2, 3, 8}).Draw(t, "batch"),
			Key:             evid.B(rapid.SampledFrom([]string{"a", "m", "z", ""}).Draw(t, "key")),
			Queue:           rapid.SampledFrom([]int{1, 2, 100}).Draw(t, "queue"),
			FlushMS:         rapid.SampledFrom([]int{0, 1, 20}).Draw(t, "flush"),
			RunSec:          rapid.SampledFrom([]int{5, 20, 60, 300}).Draw(t, "run"),
		}
		switch c.Scenario {
		case "retry-class":
			c.Stagger = c.Batch >= 2 && rapid.Bool().Draw(t, "stagger")
			// (a region-level answer needs a multi-request: batched calls only)
			c.RegionLevel = !c.Stagger && c.Queue > 1 && rapid.IntRange(0, 2).Draw(t, "regionlevel") == 0
			c.Class = rapid.SampledFrom([]string{sim.CallQueueBig, sim.RegionOpening, sim.Throttling, sim.RetryImm, sim.TooBusy, sim.PleaseHold}).Draw(t, "class")
		case "probe-fail":
			c.Class = rapid.SampledFrom([]string{sim.NSRE, sim.RegionOpening, sim.RegionMoved, sim.TooBusy}).Draw(t, "class")
		case "alternating":
			c.Class = rapid.SampledFrom([]string{sim.CallQueueBig, sim.RegionOpening, sim.Throttling, sim.TooBusy}).Draw(t, "class")
			c.Class2 = rapid.SampledFrom([]string{sim.NSRE, sim.RegionMoved, sim.IOExc}).Draw(t, "class2")
			if rapid.Bool().Draw(t, "swap") {
				c.Class, c.Class2 = c.Class2, c.Class
				if c.Class == sim.IOExc {
					c.Class = sim.NSRE
				}
			}
		case "nsre-class":
			c.Class = rapid.SampledFrom([]string{sim.NSRE, sim.RegionMoved, sim.IOExc}).Draw(t, "class")
			c.RegionLevel = c.Queue > 1 && c.Class != sim.IOExc && rapid.IntRange(0, 2).Draw(t, "regionlevel") == 0
		case "meta-error":
			c.Class = rapid.SampledFrom([]string{"java.lang.RuntimeException", "org.apache.hadoop.hbase.DoNotRetryIOException", "java.io.IOException"}).Draw(t, "class")
			c.CacheRegions = rapid.Bool().Draw(t, "cacheregions")
		case "meta-hang", "meta-down":
			c.CacheRegions = rapid.IntRange(0, 2).Draw(t, "cacheregions") == 0
		}
		return c
	}, c17bRun)
}
