package props

import (
	"bytes"
	"context"
	"fmt"
	"testing"
	"testing/synctest"
	"time"

	"github.com/tsuna/gohbase"
	"github.com/tsuna/gohbase/hrpc"
	"pgregory.net/rapid"

	"verifharness/evid"
	"verifharness/sim"
)

// c12sCase: a batch is being grouped (one of its calls is for a region the client has not seen yet, and hbase:meta
// takes its time over that lookup) while a region some of its other calls belong to is split and the daughters
// become known to the client through somebody else's request: the batch then carries calls under the stale parent
// and - for calls looked up after the held one - under a fresh daughter, possibly in ONE multi-request.
type c12sCase struct {
	// Keys of the batch's puts, in batch order, all inside the parent region ["", "m"); HeldAt: where the call for
	// the unknown region (row "x") sits in the batch
	Keys    []evid.B `json:"keys"`
	HeldAt  int      `json:"held_at"`
	SplitAt evid.B   `json:"split_at"`
	// Discover: the row somebody else requests after the split (the client learns the daughters from that)
	Discover evid.B `json:"discover"`
	// SameServer: the daughters stay on the parent's server (one multi-request carries parent and daughter)
	SameServer bool `json:"same_server"`
	Queue      int  `json:"queue"`
	FlushMS    int  `json:"flush_ms"`
	CellBlocks bool `json:"cellblocks,omitempty"`
}

func c12sRun(c c12sCase) Outcome {
	var o Outcome
	res := inBubble(theT, func() { o = c12sInBubble(c) })
	if so, stuck := stuckVerdict(res); stuck {
		return so
	}
	if res.Panic != "" {
		return viol("panic@"+topFrame(res.Stack), "%s\n%s", res.Panic, res.Stack)
	}
	if res.Deadlock != "" && o.Sig == "" && !exitLeak(res.Deadlock) {
		return viol("deadlock", "bubble deadlocked: %s\n%s", res.Deadlock, bubbleStacks(res.Stack))
	}
	return o
}

func c12sInBubble(c c12sCase) (out Outcome) {
	cl := sim.New("rs1:16020", "rs2:16020")
	cl.AddTable("t", [][]byte{[]byte("m")}, []string{"rs1:16020", "rs2:16020"}, 1000, false)
	cl.UseCellBlocks = c.CellBlocks
	bubbleDebug = func() string { return cl.RecentExecs(40) }
	defer func() { bubbleDebug = nil }()
	client := newSimClient(cl, gohbase.RpcQueueSize(c.Queue), gohbase.FlushInterval(time.Duration(c.FlushMS)*time.Millisecond))
	defer func() {
		client.Close()
		drainClient()
		cl.Stop()
	}()
	// the parent is known and in use
	if err, cerr := doOp(client, context.Background(), "t", opSpec{Kind: "get", Key: evid.B("a"), Marker: "mkwarm"}); err != nil || cerr != nil {
		return viol("harness", "warm-up: %v %v", err, cerr)
	}
	cl.Lock()
	cl.MetaHoldPrefix = []byte("t,x")
	cl.Unlock()
	// the batch
	var calls []hrpc.Call
	var markers []string
	var keys [][]byte
	add := func(key []byte) {
		mk := fmt.Sprintf("mkb%d", len(calls))
		p, _ := hrpc.NewPut(context.Background(), []byte("t"), key, map[string]map[string][]byte{"f": {mk: []byte("v")}})
		calls, markers, keys = append(calls, p), append(markers, mk), append(keys, key)
	}
	held := ((c.HeldAt % (len(c.Keys) + 1)) + len(c.Keys) + 1) % (len(c.Keys) + 1)
	for i, k := range c.Keys {
		if i == held {
			add([]byte("x"))
		}
		add(k)
	}
	if held == len(c.Keys) {
		add([]byte("x"))
	}
	type batchRes struct {
		res []hrpc.RPCResult
		ok  bool
	}
	done := make(chan batchRes, 1)
	ctx, cancel := context.WithTimeout(context.Background(), 5*time.Minute)
	defer cancel()
	go func() {
		r, ok := client.SendBatch(ctx, calls)
		done <- batchRes{r, ok}
	}()
	synctest.Wait()
	// the split; somebody else's request makes the client learn the daughters
	parent := cl.Owner("t", []byte("a"))
	addrB := parent.Addr
	if !c.SameServer {
		addrB = "rs2:16020"
	}
	cl.Split(parent, c.SplitAt, 2000, parent.Addr, addrB)
	if err, cerr := doOp(client, context.Background(), "t", opSpec{Kind: "get", Key: c.Discover, Marker: "mkdisc"}); err != nil || cerr != nil {
		return viol("harness", "the discovering get failed: %v %v", err, cerr)
	}
	staleAndFresh := false
	cl.Lock()
	cl.MetaHoldPrefix = nil
	cl.Unlock()
	var br batchRes
	select {
	case br = <-done:
	case <-time.After(10 * time.Minute):
		return viol("batch-never-returns", "SendBatch had not returned 10 virtual minutes after hbase:meta answered the held lookup")
	}
	execs, _, problems := cl.Snapshot()
	if len(problems) > 0 {
		return viol("misrouted", "the simulated servers saw misrouted or malformed requests: %v", problems)
	}
	// every call succeeded (nothing here fails for good), and was executed exactly once
	for i, r := range br.res {
		if r.Error != nil {
			return viol("call-failed", "call %d (put %q) of the batch failed: %v (ok=%v)", i, keys[i], r.Error, br.ok)
		}
	}
	if !br.ok {
		return viol("ok-flag-wrong", "every result has a nil error but SendBatch returned ok=false")
	}
	perMarker := map[string]int{}
	underParent, underDaughter := false, false
	for _, e := range execs {
		if e.Marker == "" || !bytes.HasPrefix([]byte(e.Marker), []byte("mkb")) {
			continue
		}
		if e.Executed && e.Result == "ok" {
			perMarker[e.Marker]++
		}
		if e.Region == string(parent.Name) && e.T > 0 {
			underParent = true
		} else if bytes.Contains([]byte(e.Region), []byte(",2000")) {
			underDaughter = true
		}
	}
	staleAndFresh = underParent && underDaughter
	for i, mk := range markers {
		if n := perMarker[mk]; n != 1 {
			return viol("executed-twice", "call %d (put %q, marker %s) was executed %d times by the servers although it failed nowhere for good; requests seen (most recent first):\n%s", i, keys[i], mk, n, cl.RecentExecs(30))
		}
	}
	// calls of one region are presented to the server in batch order: within each multi-request (one call id on one
	// connection) the actions of a region are in batch order. (Across requests a retried call necessarily runs after
	// the successes of the round before: that is the permitted re-send of a retryable failure.)
	lastIdx := map[string]int{}
	for _, e := range execs {
		if !bytes.HasPrefix([]byte(e.Marker), []byte("mkb")) || e.Method == "MetaScanArrived" {
			continue
		}
		var idx int
		fmt.Sscanf(e.Marker, "mkb%d", &idx)
		k := fmt.Sprintf("%s/%d/%d/%s", e.Addr, e.Conn, e.CallID, e.Region)
		if prev, ok := lastIdx[k]; ok && idx < prev {
			return viol("order-within-region", "one multi-request (call id %d on connection %d to %s) presents call %d after call %d to region %q", e.CallID, e.Conn, e.Addr, idx, prev, e.Region)
		}
		lastIdx[k] = idx
	}
	out.NonTrivial = staleAndFresh
	if staleAndFresh {
		out.Labels = append(out.Labels, "stale_parent_and_fresh_daughter_in_one_batch")
	}
	if c.SameServer {
		out.Labels = append(out.Labels, "daughters_on_parents_server")
	}
	return out
}

func TestC12_StaleRegionInBatch(t *testing.T) {
	theT = t
	rec := evid.New("C12", "TestC12_StaleRegionInBatch",
		"rapid, virtual time, whole client against the simulated cluster: a batch of 2..6 puts for rows of a known region plus one "+
			"put (at a drawn position) for a region the client has not seen, whose hbase:meta lookup is held; meanwhile the known region "+
			"is split (daughters on the parent's server, or one elsewhere) and another request makes the client learn the daughters; "+
			"then the lookup is answered. The batch's earlier calls were grouped under the stale parent, its later ones under a fresh "+
			"daughter - in one multi-request when they share the server; the parent is refused (NotServingRegion) and retried. Oracle: "+
			"every call succeeds and was executed exactly once, each multi-request presents the calls of a region in batch order, nothing misrouted. "+
			"Non-trivial = the servers saw calls of the batch under the parent's name and under a daughter's; distinct by case hash")
	Drive(t, rec, true, func(t *rapid.T) c12sCase {
		var c c12sCase
		n := rapid.IntRange(2, 6).Draw(t, "n")
		alpha := []byte("bcdefghijkl")
		for i := 0; i < n; i++ {
			c.Keys = append(c.Keys, evid.B{alpha[rapid.IntRange(0, len(alpha)-1).Draw(t, "k")], byte('0' + i)})
		}
		c.HeldAt = rapid.IntRange(0, n).Draw(t, "heldat")
		c.SplitAt = evid.B{alpha[rapid.IntRange(1, len(alpha)-1).Draw(t, "split")]}
		c.Discover = evid.B{alpha[rapid.IntRange(0, len(alpha)-1).Draw(t, "disc")], 'z'}
		c.SameServer = rapid.IntRange(0, 3).Draw(t, "same") > 0
		c.Queue = rapid.SampledFrom([]int{2, 5, 100}).Draw(t, "queue")
		c.FlushMS = rapid.SampledFrom([]int{0, 1, 20}).Draw(t, "flush")
		c.CellBlocks = rapid.Bool().Draw(t, "cellblocks")
		return c
	}, c12sRun)
}
