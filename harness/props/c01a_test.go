package props

import (
	"bytes"
	"testing"

	"github.com/tsuna/gohbase"
	"github.com/tsuna/gohbase/hrpc"
	"pgregory.net/rapid"

	"verifharness/evid"
	"verifharness/gen"
)

// c01aCase: a set of prefix-related tables, each with a contiguous layout,
// some regions left undiscovered (holes), inserted in a drawn order.
type c01aTable struct {
	NS     string   `json:"ns,omitempty"`
	Table  string   `json:"table"`
	Bounds []evid.B `json:"bounds"`
	IDs    []uint64 `json:"ids"`
	MD5    bool     `json:"md5"`
	Skip   []bool   `json:"skip"` // region i is not (yet) in the cache
}

type c01aCase struct {
	Tables []c01aTable `json:"tables"`
	Order  []int       `json:"order"` // insertion order over the flattened region list
	Keys   []evid.B    `json:"keys"`  // extra keys (long, boundary-derived)
}

func (tb c01aTable) regions() []regSpec {
	var out []regSpec
	var prev []byte
	for i := 0; i <= len(tb.Bounds); i++ {
		r := regSpec{NS: tb.NS, Table: tb.Table, Start: prev, MD5: tb.MD5, ID: tb.IDs[i]}
		if i < len(tb.Bounds) {
			r.Stop = tb.Bounds[i]
			prev = tb.Bounds[i]
		}
		out = append(out, r)
	}
	return out
}

var c01Universe = func() [][]byte {
	alpha := []byte{0x00, '+', ',', '-', 0xff, 'a'}
	out := [][]byte{nil}
	for _, a := range alpha {
		out = append(out, []byte{a})
		for _, b := range alpha {
			out = append(out, []byte{a, b})
			for _, c := range alpha {
				out = append(out, []byte{a, b, c})
			}
		}
	}
	return out
}()

func c01aRun(c c01aCase) (out Outcome) {
	defer func() {
		if p := recover(); p != nil {
			out = viol("panic@lookup", "panic: %v", p)
		}
	}()
	cache := gohbase.VerifNewRegionCache()
	var all []regSpec
	var skip []bool
	for _, tb := range c.Tables {
		rs := tb.regions()
		all = append(all, rs...)
		skip = append(skip, tb.Skip...)
	}
	objs := map[int]hrpc.RegionInfo{}
	for _, i := range c.Order {
		if i < 0 || i >= len(all) || skip[i] || objs[i] != nil {
			continue
		}
		objs[i] = all[i].info()
		if _, replaced := cache.Put(objs[i]); !replaced {
			return viol("layout-put-refused", "put of disjoint region %q refused", all[i].name())
		}
	}
	tables := map[string]bool{}
	for _, tb := range c.Tables {
		tables[regSpec{NS: tb.NS, Table: tb.Table}.fq()] = true
	}
	// also probe sibling names that hold no regions at all
	for _, s := range gen.TableFamily {
		tables[s] = true
	}
	multi := len(all) > len(c.Tables) || len(c.Tables) > 1
	var lookups, interesting int64
	check := func(table string, key []byte) *Outcome {
		lookups++
		want := -1
		for i, r := range all {
			if objs[i] != nil && specContains(r, table, key) {
				want = i
			}
		}
		got := cache.Lookup([]byte(table), key)
		if got == nil && want >= 0 {
			o := viol("lookup-miss", "lookup(%q,%q)=nil but cached region %q contains the key", table, key, all[want].name())
			return &o
		}
		if got != nil && (want < 0 || got != objs[want]) {
			o := viol("lookup-wrong-region", "lookup(%q,%q)=%q which does not contain the key", table, key, got.Name())
			return &o
		}
		return nil
	}
	for table := range tables {
		for _, k := range c01Universe {
			if o := check(table, k); o != nil {
				return *o
			}
		}
		for _, k := range c.Keys {
			if o := check(table, k); o != nil {
				return *o
			}
			interesting++
		}
	}
	out.NonTrivial = multi
	if multi {
		out.Labels = append(out.Labels, "multi_region_or_sibling")
	}
	for _, s := range skip {
		if s {
			out.Labels = append(out.Labels, "has_hole")
			break
		}
	}
	c01aLookups += lookups
	return out
}

var c01aLookups int64

func c01aGen(t *rapid.T) c01aCase {
	var c c01aCase
	nt := rapid.IntRange(1, 4).Draw(t, "ntables")
	used := map[string]bool{}
	total := 0
	for i := 0; i < nt; i++ {
		name := rapid.SampledFrom(gen.TableFamily).Draw(t, "tbl")
		if used[name] {
			continue
		}
		used[name] = true
		tb := c01aTable{Table: name, MD5: rapid.Bool().Draw(t, "md5")}
		if j := bytes.IndexByte([]byte(name), ':'); j >= 0 {
			tb.NS, tb.Table = name[:j], name[j+1:]
		}
		for _, b := range gen.Boundaries(t, 5, 4) {
			tb.Bounds = append(tb.Bounds, b)
		}
		for r := 0; r <= len(tb.Bounds); r++ {
			idk := rapid.IntRange(0, 3).Draw(t, "idkind")
			var id uint64
			switch idk {
			case 0:
				id = uint64(rapid.IntRange(1, 9).Draw(t, "id"))
			case 1:
				id = uint64(rapid.IntRange(10, 100000).Draw(t, "id"))
			default:
				id = rapid.Uint64Range(1_000_000_000_000, 1_800_000_000_000).Draw(t, "id")
			}
			tb.IDs = append(tb.IDs, id)
			tb.Skip = append(tb.Skip, rapid.IntRange(0, 5).Draw(t, "skip") == 0)
			total++
		}
		c.Tables = append(c.Tables, tb)
	}
	c.Order = rapid.Permutation(seq(total)).Draw(t, "order")
	nk := rapid.IntRange(0, 12).Draw(t, "nkeys")
	for i := 0; i < nk; i++ {
		tb := c.Tables[rapid.IntRange(0, len(c.Tables)-1).Draw(t, "kt")]
		var k []byte
		switch {
		case len(tb.Bounds) > 0 && rapid.IntRange(0, 2).Draw(t, "kk") > 0:
			k = gen.Near(t, tb.Bounds[rapid.IntRange(0, len(tb.Bounds)-1).Draw(t, "kb")])
		case rapid.IntRange(0, 4).Draw(t, "long") == 0:
			n := rapid.SampledFrom([]int{100, 1000, 32000, 32700, 32750}).Draw(t, "klen")
			k = bytes.Repeat([]byte{rapid.SampledFrom(gen.Hot).Draw(t, "fill")}, n)
		default:
			k = gen.Key(8).Draw(t, "key")
		}
		c.Keys = append(c.Keys, k)
	}
	return c
}

func seq(n int) []int {
	out := make([]int, n)
	for i := range out {
		out[i] = i
	}
	return out
}

func TestC01_CacheLookup(t *testing.T) {
	rec := evid.New("C01", "TestC01_CacheLookup",
		"rapid: 1..4 prefix-related tables (t, t-, t., t0, tt, ns:t ...) each with a contiguous layout of "+
			"1..6 regions, random holes (undiscovered regions), drawn insertion order and id shapes; for every "+
			"layout the client's cache lookup is evaluated for every key of {00,+,comma,-,ff,a}^<=3 (259 keys) "+
			"x every table of the family plus boundary-derived and very long keys, against brute-force "+
			"containment. evaluations = layouts; label lookups counts single lookups. Non-trivial = layout "+
			"with >= 2 regions or a sibling table; distinct by layout hash")
	defer func() { rec.Label("lookups", c01aLookups); rec.Flush() }()
	Drive(t, rec, false, c01aGen, c01aRun)
}
