package props

import (
	"bytes"
	"context"
	"encoding/json"
	"fmt"
	"runtime"
	"sync"
	"testing"
	"testing/synctest"
	"time"

	"github.com/tsuna/gohbase/hrpc"
	"github.com/tsuna/gohbase/pb"
	"github.com/tsuna/gohbase/region"
	"google.golang.org/protobuf/proto"
	"pgregory.net/rapid"

	"verifharness/evid"
	"verifharness/memconn"
	"verifharness/wire"
)

type c18Act struct {
	Kind string `json:"kind"` // send | sendbatched | cancelsend | answer | answerpartial (MS = bytes of the frame that get out) | wait
	I    int    `json:"i,omitempty"`
	MS   int    `json:"ms,omitempty"`
	// Gate: the Write of this request returns only after the client's reader has
	// consumed the response to it (a legal, unlucky scheduling of the sender).
	Gate bool `json:"gate,omitempty"`
	// Gate2: the sender is descheduled right before it arms the read deadline for this
	// request, until the response has been consumed (if the code permits that order).
	Gate2 bool `json:"gate2,omitempty"`
	// HoldClear (kind answersend): the reader is descheduled right before it clears the
	// read deadline after this answer, until the next request has armed it.
	HoldClear bool `json:"hold_clear,omitempty"`
	// InWrite (kind cancelsend): the call's context ends while its request is being written - after
	// the client's "is the context done" check, before send() goes on past the write
	InWrite bool `json:"in_write,omitempty"`
	// Dump: the application takes a state dump of the connection (what gohbase.DebugState does for every
	// region client: json.Marshal) - with Gate, at the moment the response has been consumed and the
	// sender has not gone on yet; otherwise right after the action. Looking must not change anything.
	Dump bool `json:"dump,omitempty"`
	// Others (kind send with Gate): while the sender is held in its Write, the server first answers every OTHER
	// outstanding request (the reader brings the counter to zero with this request registered and being written),
	// then this one
	Others bool `json:"others,omitempty"`
}

type c18Case struct {
	ReadTimeoutMS int      `json:"read_timeout_ms"`
	Queue         int      `json:"queue"`
	FlushMS       int      `json:"flush_ms"`
	Acts          []c18Act `json:"acts"`
}

// rcServer is the harness-side peer of a region client: it reads requests and
// answers them on demand.
type rcServer struct {
	mu          sync.Mutex
	pair        *memconn.Pair
	outstanding []*wire.Request
	received    int
	lastRecv    time.Time
	autoAnswer  map[uint32]bool
	done        chan struct{}
	bad         string
	// wedged: part of a response frame is on the wire and the rest never comes: nothing else can be sent
	wedged bool
	// history: when each request arrived and when it was answered (zero = not yet)
	recvAt   map[uint32]time.Time
	answered map[uint32]time.Time
}

func startRCServer(pair *memconn.Pair) *rcServer {
	s := &rcServer{pair: pair, done: make(chan struct{}), autoAnswer: map[uint32]bool{},
		recvAt: map[uint32]time.Time{}, answered: map[uint32]time.Time{}}
	go func() {
		defer close(s.done)
		if _, err := wire.ReadHello(pair.Server); err != nil {
			s.bad = "hello: " + err.Error()
			return
		}
		for {
			req, err := wire.ReadRequest(pair.Server)
			if err != nil {
				return
			}
			s.mu.Lock()
			s.received++
			s.lastRecv = time.Now()
			s.recvAt[req.Header.GetCallId()] = s.lastRecv
			s.outstanding = append(s.outstanding, req)
			s.mu.Unlock()
		}
	}()
	return s
}

// answer responds to the i-th outstanding request (mod count) with an empty
// success; returns false if nothing is outstanding.
func (s *rcServer) answer(i int) bool {
	s.mu.Lock()
	if len(s.outstanding) == 0 {
		s.mu.Unlock()
		return false
	}
	if s.wedged {
		s.mu.Unlock()
		return false
	}
	i = ((i % len(s.outstanding)) + len(s.outstanding)) % len(s.outstanding)
	req := s.outstanding[i]
	s.outstanding = append(s.outstanding[:i], s.outstanding[i+1:]...)
	s.answered[req.Header.GetCallId()] = time.Now()
	s.mu.Unlock()
	s.pair.Server.Write(rcOKResponse(req))
	return true
}

// answerPartial writes the first bytes of the response to the i-th outstanding request (at least its length
// prefix, never the whole frame) and goes silent for good: the request stays unanswered.
func (s *rcServer) answerPartial(i, cut int) bool {
	s.mu.Lock()
	if len(s.outstanding) == 0 || s.wedged {
		s.mu.Unlock()
		return false
	}
	i = ((i % len(s.outstanding)) + len(s.outstanding)) % len(s.outstanding)
	frame := rcOKResponse(s.outstanding[i])
	s.wedged = true
	s.mu.Unlock()
	if cut < 4 {
		cut = 4
	}
	if cut >= len(frame) {
		cut = len(frame) - 1
	}
	s.pair.Server.Write(frame[:cut])
	return true
}

func (s *rcServer) answerID(id uint32) bool {
	s.mu.Lock()
	for i, r := range s.outstanding {
		if r.Header.GetCallId() == id {
			s.mu.Unlock()
			return s.answer(i)
		}
	}
	s.mu.Unlock()
	return false
}

// answerByCall answers the most recently received outstanding request (used by the
// deadline gate, which fires right after the request of that call was written).
func (s *rcServer) answerByCall(_ *c18Call) {
	for i := 0; i < 1000; i++ {
		s.mu.Lock()
		n := len(s.outstanding)
		s.mu.Unlock()
		if n > 0 {
			s.answer(n - 1)
			return
		}
		runtime.Gosched()
	}
}

func (s *rcServer) nOutstanding() int {
	s.mu.Lock()
	defer s.mu.Unlock()
	return len(s.outstanding)
}

func rcOKResponse(req *wire.Request) []byte {
	id := req.Header.GetCallId()
	switch req.Header.GetMethodName() {
	case "Get":
		return wire.BuildResponse(id, &pb.GetResponse{Result: &pb.Result{}}, nil, nil)
	case "Mutate":
		return wire.BuildResponse(id, &pb.MutateResponse{Result: &pb.Result{}, Processed: proto.Bool(true)}, nil, nil)
	case "Scan":
		return wire.BuildResponse(id, &pb.ScanResponse{MoreResults: proto.Bool(false), MoreResultsInRegion: proto.Bool(false)}, nil, nil)
	case "Multi":
		m := &pb.MultiRequest{}
		proto.Unmarshal(req.Param, m)
		resp := &pb.MultiResponse{}
		for _, ra := range m.GetRegionAction() {
			rar := &pb.RegionActionResult{}
			for _, a := range ra.GetAction() {
				rar.ResultOrException = append(rar.ResultOrException, &pb.ResultOrException{Index: a.Index, Result: &pb.Result{}})
			}
			resp.RegionActionResult = append(resp.RegionActionResult, rar)
		}
		return wire.BuildResponse(id, resp, nil, nil)
	}
	return wire.BuildResponse(id, nil, nil, wire.Exception("java.lang.UnsupportedOperationException", "?"))
}

type c18Call struct {
	call   hrpc.Call
	sentAt time.Time
	res    *hrpc.RPCResult
	resAt  time.Time
	cancel context.CancelFunc
	// bad: the request could not even be serialised (nothing was written, nothing is outstanding)
	bad bool
}

func c18Run(c c18Case) Outcome {
	var o Outcome
	res := inBubble(theT, func() { o = c18RunInBubble(c) })
	if o, stuck := stuckVerdict(res); stuck {
		return o
	}
	if res.Panic != "" {
		return viol("panic@"+topFrame(res.Stack), "%s\n%s", res.Panic, res.Stack)
	}
	if o.Sig != "" {
		return o
	}
	if res.Deadlock != "" {
		return viol("deadlock", "bubble deadlocked: %s\n%s", res.Deadlock, bubbleStacks(res.Stack))
	}
	return o
}

func c18RunInBubble(c c18Case) (out Outcome) {
	readTimeout := time.Duration(c.ReadTimeoutMS) * time.Millisecond
	var srv *rcServer
	var gateCall *c18Call
	var mu sync.Mutex
	opts := memconn.Options{}
	var cancelInWrite *c18Call
	gateDump := false
	gateOthers := false
	dumps := 0
	var dumpTarget any
	dump := func() {
		if dumpTarget != nil {
			json.Marshal(dumpTarget)
			dumps++
		}
	}
	opts.AfterWrite = func(data []byte) {
		if cw := cancelInWrite; cw != nil && len(data) >= 8 && !bytes.HasPrefix(data, wire.Preamble) {
			cancelInWrite = nil
			cw.cancel()
		}
		call := gateCall
		if call == nil || len(data) < 8 || bytes.HasPrefix(data, wire.Preamble) {
			return
		}
		gateCall = nil
		// the server answers at once; hold the writer until the reader delivered the result
		req, err := wire.ParseRequest(data[4:])
		if err != nil {
			return
		}
		if gateOthers {
			gateOthers = false
			for k := 0; k < 16; k++ {
				srv.mu.Lock()
				other := -1
				for i, r := range srv.outstanding {
					if r.Header.GetCallId() != req.Header.GetCallId() {
						other = i
						break
					}
				}
				srv.mu.Unlock()
				if other < 0 || !srv.answer(other) {
					break
				}
				for i := 0; i < 2000; i++ {
					runtime.Gosched()
				}
			}
		}
		delivered := func() bool {
			mu.Lock()
			defer mu.Unlock()
			return call.res != nil
		}
		for i := 0; i < 20000 && !delivered(); i++ {
			srv.answerID(req.Header.GetCallId())
			runtime.Gosched()
		}
		if gateDump {
			gateDump = false
			dump()
		}
	}
	var gate2Call *c18Call
	var holdClear bool
	var armSeq int
	opts.BeforeDeadline = func(t time.Time) {
		mu.Lock()
		if !t.IsZero() {
			armSeq++
			call := gate2Call
			gate2Call = nil
			mu.Unlock()
			if call == nil {
				return
			}
			srv.answerByCall(call)
			for i := 0; i < 20000; i++ {
				mu.Lock()
				d := call.res != nil
				mu.Unlock()
				if d {
					return
				}
				runtime.Gosched()
			}
			return
		}
		if !holdClear {
			mu.Unlock()
			return
		}
		holdClear = false
		start := armSeq
		mu.Unlock()
		for i := 0; i < 20000; i++ {
			mu.Lock()
			d := armSeq > start
			mu.Unlock()
			if d {
				return
			}
			runtime.Gosched()
		}
	}
	env, err := newRCEnv(c.Queue, time.Duration(c.FlushMS)*time.Millisecond, readTimeout, false, opts)
	if err != nil {
		return viol("harness", "dial: %v", err)
	}
	srv = startRCServer(env.pair)
	dumpTarget = env.rc
	var calls []*c18Call
	defer func() {
		env.rc.Close()
		synctest.Wait()
		// release the waiters of calls that never get a result (cancelled ones)
		for _, cc := range calls {
			cc.cancel()
			select {
			case cc.call.ResultChan() <- hrpc.RPCResult{}:
			default:
			}
		}
		synctest.Wait()
	}()
	nextMarker := 0
	var sendGate2 bool
	cancelNextInWrite := false
	send := func(batched, cancelIt, gate bool) *c18Call {
		nextMarker++
		ctx, cancel := context.WithCancel(context.Background())
		var opts []func(hrpc.Call) error
		opts = append(opts, hrpc.Families(markerFam(fmt.Sprintf("mk%d", nextMarker))))
		if !batched {
			opts = append(opts, hrpc.SkipBatch())
		}
		g, _ := hrpc.NewGet(ctx, []byte("t"), []byte("row"), opts...)
		g.SetRegion(env.reg)
		cc := &c18Call{call: g, cancel: cancel}
		calls = append(calls, cc)
		go func() {
			r := <-g.ResultChan()
			mu.Lock()
			cc.res, cc.resAt = &r, time.Now()
			mu.Unlock()
		}()
		if gate && !batched {
			gateCall = cc
		}
		if sendGate2 && !batched {
			mu.Lock()
			gate2Call = cc
			mu.Unlock()
		}
		sendGate2 = false
		if cancelNextInWrite && !batched {
			cancelInWrite = cc
		}
		cancelNextInWrite = false
		cc.sentAt = time.Now()
		env.rc.QueueRPC(g)
		if cancelIt {
			cancel()
		}
		return cc
	}
	dead := false
	t0 := time.Now()
	var lastSend time.Time
	idleLong := false
	zeroCrossings := 0
	silentWithOutstanding := false
	prevOutstanding := 0
	for step, a := range c.Acts {
		if dead {
			break
		}
		switch a.Kind {
		case "send":
			sendGate2 = a.Gate2 && !a.Gate
			gateDump = a.Gate && a.Dump
			gateOthers = a.Gate && a.Others
			send(false, false, a.Gate)
			gateDump, gateOthers = false, false
		case "answersend":
			mu.Lock()
			holdClear = a.HoldClear
			mu.Unlock()
			srv.answer(a.I)
			send(false, false, false)
			mu.Lock()
			holdClear = false
			mu.Unlock()
		case "sendbatched":
			send(true, false, false)
		case "cancelsend":
			cancelNextInWrite = a.InWrite
			send(false, true, false)
		case "sendbad":
			// a call that cannot be serialised (nil row: the protobuf field is required): the client
			// reports the error to its caller, writes nothing, and the connection is as good as before
			nextMarker++
			bctx, bcancel := context.WithCancel(context.Background())
			g, _ := hrpc.NewGet(bctx, []byte("t"), nil, hrpc.SkipBatch())
			g.SetRegion(env.reg)
			cc := &c18Call{call: g, cancel: bcancel, bad: true}
			calls = append(calls, cc)
			go func() {
				r := <-g.ResultChan()
				mu.Lock()
				cc.res, cc.resAt = &r, time.Now()
				mu.Unlock()
			}()
			env.rc.QueueRPC(g)
			synctest.Wait()
			mu.Lock()
			got := cc.res
			mu.Unlock()
			if got == nil || got.Error == nil {
				return viol("harness", "a Get without a row did not fail to serialise (result %v)", got)
			}
			if _, isSE := got.Error.(region.ServerError); isSE {
				// the client chose to treat it as a connection failure: then the connection is dead,
				// which the checks below will see as a close without a silent server
				out.Labels = append(out.Labels, "marshal_failure_kills_connection")
			}
			out.Labels = append(out.Labels, "marshal_failure")
		case "answer":
			srv.answer(a.I)
		case "answerpartial":
			if srv.answerPartial(a.I, a.MS) {
				out.Labels = append(out.Labels, "server_silent_in_mid_response")
			}
		case "wait":
			time.Sleep(time.Duration(a.MS) * time.Millisecond)
		}
		synctest.Wait()
		if a.Dump && !(a.Kind == "send" && a.Gate) {
			dump()
			synctest.Wait()
		}
		if srv.bad != "" {
			return viol("harness", "server: %s", srv.bad)
		}
		// recompute when the last request reached the wire
		srv.mu.Lock()
		n := len(srv.outstanding)
		if srv.received > 0 {
			lastSend = srv.lastRecv
		}
		srv.mu.Unlock()
		if prevOutstanding > 0 && n == 0 {
			zeroCrossings++
		}
		prevOutstanding = n
		closed := env.pair.ClientClosed()
		dl := env.pair.ReadDeadline()
		now := time.Now()
		if closed {
			// When did the client close, and was that the read deadline of the requests sent
			// strictly before that instant? (A request sent in the very instant the deadline
			// fires may or may not re-arm it first: both outcomes are legitimate.)
			var closeAt time.Time
			for _, op := range env.pair.Ops() {
				if op.Kind == "close" {
					closeAt = op.At
					break
				}
			}
			var last time.Time
			outstandingAtClose := false
			srv.mu.Lock()
			for id, at := range srv.recvAt {
				if !at.Before(closeAt) {
					continue
				}
				if at.After(last) {
					last = at
				}
				if ans, ok := srv.answered[id]; !ok || !ans.Before(closeAt) {
					outstandingAtClose = true
				}
			}
			srv.mu.Unlock()
			if !outstandingAtClose {
				return viol("idle-connection-closed", "step %d (%s): the client closed the connection at %v although every request sent before had been answered (read timeout %v)", step, a.Kind, closeAt.Sub(t0), readTimeout)
			}
			if closeAt.Sub(last) != readTimeout {
				return viol("closed-with-outstanding-early", "step %d: connection closed by the client %v after the last request sent before that instant; the read timeout is %v", step, closeAt.Sub(last), readTimeout)
			}
			silentWithOutstanding = true
			// every unanswered call must have failed with a ServerError at the deadline instant
			mu.Lock()
			for _, cc := range calls {
				if cc.res == nil || cc.res.Error == nil || cc.bad {
					continue
				}
				if _, ok := cc.res.Error.(region.ServerError); !ok {
					mu.Unlock()
					return viol("timeout-wrong-error", "step %d: call failed with %T %v, expected region.ServerError", step, cc.res.Error, cc.res.Error)
				}
				if cc.resAt.Before(closeAt) {
					mu.Unlock()
					return viol("timeout-wrong-time", "step %d: a call failed %v before the connection timed out", step, closeAt.Sub(cc.resAt))
				}
			}
			mu.Unlock()
			dead = true
			continue
		}
		if n > 0 {
			expect := lastSend.Add(readTimeout)
			if !now.Before(expect) {
				return viol("silent-server-not-detected", "step %d: %d requests outstanding, last sent %v ago (timeout %v) but the connection is still open", step, n, now.Sub(lastSend), readTimeout)
			}
			if dl.IsZero() {
				return viol("deadline-not-armed", "step %d: %d requests outstanding but no read deadline is armed", step, n)
			}
			if !dl.Equal(expect) {
				return viol("deadline-wrong", "step %d: read deadline is %v after the last send, configured timeout %v", step, dl.Sub(lastSend), readTimeout)
			}
		} else {
			if !dl.IsZero() {
				return viol("deadline-armed-while-idle", "step %d (%s): nothing outstanding but a read deadline is armed (%v from now): the idle connection will be torn down", step, a.Kind, dl.Sub(now))
			}
			if a.Kind == "wait" && time.Duration(a.MS)*time.Millisecond > readTimeout && zeroCrossings > 0 {
				idleLong = true
			}
		}
	}
	srv.mu.Lock()
	wedged := srv.wedged
	srv.mu.Unlock()
	if !dead && wedged {
		// the server went silent in the middle of a response: nothing more can come over this connection.
		// Whatever is outstanding - the half-answered request at least - has to be failed over by the
		// read timeout of the last request sent
		// (calls still queued for a batch go out up to a flush interval from now and arm the deadline anew)
		time.Sleep(readTimeout + time.Duration(c.FlushMS+2)*time.Millisecond)
		synctest.Wait()
		if !env.pair.ClientClosed() {
			return viol("silent-server-not-detected", "the server stopped in the middle of a response frame; %v (read timeout %v) after the last request the connection is still open and %d request(s) are waiting (read deadline now: %v from now; reader: %s)", readTimeout+time.Millisecond, readTimeout, srv.nOutstanding(), env.pair.ReadDeadline().Sub(time.Now()), firstGohbaseStack(gohbaseGoroutines(), "receive"))
		}
		silentWithOutstanding = true
		dead = true
	}
	if !dead {
		// the connection must still work
		cc := send(false, false, false)
		synctest.Wait()
		if !srv.answerID(func() uint32 {
			srv.mu.Lock()
			defer srv.mu.Unlock()
			if len(srv.outstanding) == 0 {
				return 0
			}
			return srv.outstanding[len(srv.outstanding)-1].Header.GetCallId()
		}()) {
			return viol("final-call-not-sent", "the final call on the surviving connection never reached the server")
		}
		synctest.Wait()
		mu.Lock()
		r := cc.res
		mu.Unlock()
		if r == nil || r.Error != nil {
			return viol("final-call-failed", "final call on the surviving connection: %+v", r)
		}
		// answer everything left so that waiters finish
		for srv.answer(0) {
		}
		synctest.Wait()
	} else {
		// refused immediately afterwards
		cc := send(false, false, false)
		synctest.Wait()
		mu.Lock()
		r := cc.res
		mu.Unlock()
		if r == nil {
			return viol("not-refused-after-death", "a call queued on the dead connection got no result")
		}
		if _, ok := r.Error.(region.ServerError); !ok {
			return viol("not-refused-after-death", "a call queued on the dead connection got %v", r.Error)
		}
	}
	// release result waiters of calls that never get a result (cancelled ones)
	env.rc.Close()
	synctest.Wait()
	for _, cc := range calls {
		cc.cancel()
		select {
		case cc.call.ResultChan() <- hrpc.RPCResult{}:
		default:
		}
	}
	synctest.Wait()
	if idleLong {
		out.Labels = append(out.Labels, "idle_longer_than_timeout")
	}
	if silentWithOutstanding {
		out.Labels = append(out.Labels, "silent_with_outstanding")
	}
	if zeroCrossings > 0 {
		out.Labels = append(out.Labels, "returned_to_zero")
	}
	if dumps > 0 {
		out.Labels = append(out.Labels, "state_dump_taken")
	}
	out.NonTrivial = idleLong || silentWithOutstanding
	return out
}

func c18Gen(t *rapid.T) c18Case {
	var c c18Case
	c.ReadTimeoutMS = rapid.SampledFrom([]int{10, 100, 1000, 30000, 60000}).Draw(t, "timeout")
	c.Queue = rapid.SampledFrom([]int{1, 2, 100}).Draw(t, "queue")
	c.FlushMS = rapid.SampledFrom([]int{0, 1, 20}).Draw(t, "flush")
	if rapid.Bool().Draw(t, "rounds") {
		// structured: rounds of sends that are all answered (in a drawn order) followed by a pause,
		// so that the outstanding count returns to zero again and again
		nr := rapid.IntRange(1, 5).Draw(t, "nrounds")
		for r := 0; r < nr; r++ {
			k := rapid.IntRange(1, 4).Draw(t, "k")
			for i := 0; i < k; i++ {
				kind := rapid.SampledFrom([]string{"send", "send", "sendbatched", "cancelsend", "sendbad"}).Draw(t, "skind")
				act := c18Act{Kind: kind, Gate: kind == "send" && rapid.IntRange(0, 2).Draw(t, "gate") == 0}
				act.InWrite = kind == "cancelsend" && rapid.Bool().Draw(t, "inwrite")
				act.Gate2 = kind == "send" && !act.Gate && rapid.IntRange(0, 2).Draw(t, "gate2") == 0
				act.Dump = rapid.IntRange(0, 3).Draw(t, "dump") == 0
				act.Others = act.Gate && rapid.Bool().Draw(t, "others")
				c.Acts = append(c.Acts, act)
			}
			if c.FlushMS > 0 {
				c.Acts = append(c.Acts, c18Act{Kind: "wait", MS: c.FlushMS})
			}
			if c.FlushMS < c.ReadTimeoutMS {
				for i := 0; i < k; i++ {
					c.Acts = append(c.Acts, c18Act{Kind: "answer", I: rapid.IntRange(0, 5).Draw(t, "i")})
				}
			}
			f := rapid.SampledFrom([]float64{0.5, 1.01, 2, 10, 50}).Draw(t, "factor")
			c.Acts = append(c.Acts, c18Act{Kind: "wait", MS: int(float64(c.ReadTimeoutMS)*f) + 1})
		}
		return c
	}
	n := rapid.IntRange(1, 25).Draw(t, "nacts")
	for i := 0; i < n; i++ {
		k := rapid.SampledFrom([]string{"send", "send", "sendbatched", "cancelsend", "sendbad", "answer", "answer", "answer", "answersend", "wait", "wait", "answerpartial"}).Draw(t, "kind")
		a := c18Act{Kind: k, Dump: rapid.IntRange(0, 4).Draw(t, "dump") == 0}
		switch k {
		case "send":
			a.Gate = rapid.IntRange(0, 2).Draw(t, "gate") == 0
			a.Gate2 = !a.Gate && rapid.IntRange(0, 2).Draw(t, "gate2") == 0
			a.Others = a.Gate && rapid.Bool().Draw(t, "others")
		case "cancelsend":
			a.InWrite = rapid.Bool().Draw(t, "inwrite")
		case "answersend":
			a.I = rapid.IntRange(0, 5).Draw(t, "i")
			a.HoldClear = rapid.Bool().Draw(t, "holdclear")
		case "answer":
			a.I = rapid.IntRange(0, 5).Draw(t, "i")
		case "answerpartial":
			a.I = rapid.IntRange(0, 5).Draw(t, "i")
			a.MS = rapid.SampledFrom([]int{4, 5, 8, 12, 1000}).Draw(t, "cut")
		case "wait":
			f := rapid.SampledFrom([]float64{0.001, 0.5, 0.99, 1.0, 1.01, 2, 10, 50}).Draw(t, "factor")
			a.MS = int(float64(c.ReadTimeoutMS) * f)
			if a.MS < 1 {
				a.MS = 1
			}
		}
		c.Acts = append(c.Acts, a)
	}
	return c
}

func TestC18_ReadDeadline(t *testing.T) {
	theT = t
	rec := evid.New("C18", "TestC18_ReadDeadline",
		"rapid, virtual time: action scripts of 1..25 steps on one region client over an in-memory connection whose "+
			"peer is the harness: send (unbatched; optionally with the writer held until the reader has consumed the "+
			"response to that very request), send batched, send-and-cancel (after queueing, or while the request is being written), send a call that cannot be serialised, answer the i-th outstanding request (any "+
			"order, also for cancelled calls and multi-requests), answer one only in part (the length prefix and some bytes, then silence for good), take a state dump of the connection (json.Marshal, as DebugState does; also at the moment a response has been consumed while its sender is still held), let time pass (0.001x .. 50x the read timeout); read "+
			"timeout in {10ms..60s}. Invariant at every quiescence point: read deadline armed <=> the server holds "+
			"unanswered requests, and armed deadline == last send + read timeout; a silent server fails every "+
			"outstanding call with a ServerError at that instant and later calls are refused; an idle connection is "+
			"never closed and serves a final call. Non-trivial = an idle period longer than the timeout after the "+
			"outstanding count returned to zero, or a server silent past the deadline with calls outstanding; distinct "+
			"by case hash")
	Drive(t, rec, true, c18Gen, c18Run)
}
