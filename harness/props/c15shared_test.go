package props

import (
	"bytes"
	"fmt"
	"sync"
	"testing"
	"time"

	"github.com/tsuna/gohbase/compression/snappy"
	"github.com/tsuna/gohbase/region"
	"pgregory.net/rapid"

	"verifharness/evid"
	"verifharness/wire"
)

// c15SharedCase: calls made on ONE compressor, the way a region client uses its own: rounds of
// calls, the calls of one round issued concurrently (client.send compresses before it takes the
// write lock; senders are the batching goroutine and every caller of an unbatched call).
type c15SharedCase struct {
	Rounds [][]c15Case `json:"rounds"`
}

func c15SharedRun(c c15SharedCase) (out Outcome) {
	codec := snappy.New()
	comp := region.VerifNewCompressor(codec)
	calls, concurrent := 0, false
	for ri, round := range c.Rounds {
		type res struct {
			stream []byte
			back   []byte
			err    error
			panicv any
		}
		rs := make([]res, len(round))
		payloads := make([][]byte, len(round))
		var wg sync.WaitGroup
		start := make(chan struct{})
		for i := range round {
			payloads[i] = c15Payload(round[i])
			wg.Add(1)
			go func(i int) {
				defer wg.Done()
				defer func() {
					if p := recover(); p != nil {
						rs[i].panicv = p
					}
				}()
				bufs := c15Buffers(round[i], payloads[i])
				<-start
				rs[i].stream = comp.Compress(bufs, uint32(len(payloads[i])))
				// and the read direction on the same long-lived object
				rs[i].back, rs[i].err = comp.Decompress(rs[i].stream)
			}(i)
		}
		close(start)
		fin := make(chan struct{})
		go func() { wg.Wait(); close(fin) }()
		select {
		case <-fin:
		case <-time.After(15 * time.Second):
			if spin, _ := spinning("region.(*VerifCompressor).Compress", 20); spin {
				return viol("client-spin@compressCellblocks", "round %d: %d calls on the shared compressor had not all returned after 15 s of real time and keep running", ri, len(round))
			}
			select {
			case <-fin:
			case <-time.After(5 * time.Minute):
				out.Labels = append(out.Labels, "inconclusive_compress_slow")
				return out
			}
		}
		if len(round) > 1 {
			concurrent = true
		}
		for i := range round {
			calls++
			if rs[i].panicv != nil {
				return viol("panic@shared-compressor", "round %d call %d (payload %d bytes): panic: %v", ri, i, len(payloads[i]), rs[i].panicv)
			}
			plain, _, err := wire.ReadBlocks(rs[i].stream)
			if err != nil {
				return viol("shared-stream-rejected", "round %d call %d of %d: the independent reader rejects the stream the shared compressor produced for a payload of %d bytes: %v",
					ri, i, len(round), len(payloads[i]), err)
			}
			if !bytes.Equal(plain, payloads[i]) {
				return viol("shared-stream-wrong-data", "round %d call %d of %d: the stream produced for a payload of %d bytes decodes (independent reader) to %d other bytes%s",
					ri, i, len(round), len(payloads[i]), len(plain), whoseBytes(plain, payloads, i))
			}
			if rs[i].err != nil {
				return viol("shared-roundtrip-error", "round %d call %d: the client cannot read back its own stream: %v", ri, i, rs[i].err)
			}
			if !bytes.Equal(rs[i].back, payloads[i]) {
				return viol("shared-roundtrip-wrong-data", "round %d call %d of %d: client decompressed its own stream (payload %d bytes) to %d other bytes%s",
					ri, i, len(round), len(payloads[i]), len(rs[i].back), whoseBytes(rs[i].back, payloads, i))
			}
		}
	}
	out.NonTrivial = calls >= 2
	if concurrent {
		out.Labels = append(out.Labels, "concurrent_round")
	}
	if len(c.Rounds) > 1 {
		out.Labels = append(out.Labels, "reused_across_rounds")
	}
	return out
}

func whoseBytes(got []byte, payloads [][]byte, self int) string {
	for j, p := range payloads {
		if j != self && bytes.Equal(got, p) {
			return fmt.Sprintf(" - exactly the payload of concurrent call %d", j)
		}
	}
	return ""
}

func c15SharedGen(t *rapid.T) c15SharedCase {
	var c c15SharedCase
	chunk := wire.SnappyChunk
	nr := rapid.IntRange(1, 4).Draw(t, "rounds")
	for r := 0; r < nr; r++ {
		n := rapid.IntRange(1, 6).Draw(t, "calls")
		var round []c15Case
		for i := 0; i < n; i++ {
			var k c15Case
			switch rapid.IntRange(0, 5).Draw(t, "sizekind") {
			case 0:
				k.Size = rapid.SampledFrom([]int{0, 1, chunk - 1, chunk, chunk + 1, 2*chunk + 1}).Draw(t, "size")
			case 1:
				k.Size = rapid.IntRange(0, 3*chunk).Draw(t, "size")
			default:
				k.Size = rapid.IntRange(0, 5000).Draw(t, "size")
			}
			k.Content = rapid.SampledFrom([]string{"zeros", "text", "random", "mixed"}).Draw(t, "content")
			k.Seed = rapid.Uint32().Draw(t, "seed")
			nc := rapid.IntRange(0, 3).Draw(t, "ncuts")
			for j := 0; j < nc; j++ {
				k.Cuts = append(k.Cuts, rapid.IntRange(0, 1<<30).Draw(t, "cut"))
			}
			round = append(round, k)
		}
		c.Rounds = append(c.Rounds, round)
	}
	return c
}

func TestC15_SharedCompressor(t *testing.T) {
	rec := evid.New("C15", "TestC15_SharedCompressor",
		"rapid: 1..4 rounds of 1..6 calls on ONE long-lived compressor (what a region client owns); the calls of a round "+
			"run concurrently on real threads (compress, then decompress the result, on the same object), rounds follow "+
			"each other (state left behind by a larger/smaller earlier payload). Payload sizes 0..3 chunks incl. "+
			"chunk boundaries, zero/text/random/mixed content, 1..4 buffers. Oracle per call: the independent reader "+
			"decodes the produced stream to exactly that call's payload, and the client reads it back to the same bytes. "+
			"Interleavings are whatever the scheduler gives (the race-detector unit of the thorough tier flags shared "+
			"state deterministically). Non-trivial = at least 2 calls on the shared object; distinct by case hash")
	Drive(t, rec, false, c15SharedGen, c15SharedRun)
}
