package props

import (
	"bytes"
	"context"
	"errors"
	"fmt"
	"strings"
	"testing"
	"time"

	"github.com/tsuna/gohbase"
	"github.com/tsuna/gohbase/hrpc"
	"pgregory.net/rapid"

	"verifharness/evid"
	"verifharness/sim"
)

// batchCase is one SendBatch scenario with scripted per-call outcomes.
type batchCase struct {
	Layout    layoutSpec               `json:"layout"`
	Batch     []opSpec                 `json:"batch"`
	Scripts   map[string][]sim.Outcome `json:"scripts,omitempty"`
	QueueSize int                      `json:"queue_size"`
	FlushMS   int                      `json:"flush_ms"`
	Tape      evid.B                   `json:"tape,omitempty"`
	// Invalid makes the batch invalid at position InvalidAt: "table" (a call for
	// another table), "dup" (the same call object twice), "nonbatchable".
	Invalid   string `json:"invalid,omitempty"`
	InvalidAt int    `json:"invalid_at,omitempty"`
	// CancelAtMS >= 0 cancels the batch context at that virtual time.
	CancelAtMS int `json:"cancel_at_ms"`
	// DropTableOnNSRE removes the table from hbase:meta the moment a scripted
	// region exception is answered, so that re-location fails in the retry round.
	DropTableOnNSRE bool `json:"drop_table_on_nsre,omitempty"`
	// Other is a second batch sent concurrently on the same client.
	Other []opSpec `json:"other,omitempty"`
	// OwnCtx: indices of calls that carry their own context (not the batch's); it is
	// cancelled at CancelOwnAtMS. ReleaseAtMS > 0 releases every "hold" outcome then.
	OwnCtx        []int `json:"own_ctx,omitempty"`
	CancelOwnAtMS int   `json:"cancel_own_at_ms,omitempty"`
	ReleaseAtMS   int   `json:"release_at_ms,omitempty"`
	// CellBlocks: the servers answer through cellblocks instead of protobuf cells
	CellBlocks bool `json:"cellblocks,omitempty"`
	// Snappy: cellblocks are compressed in both directions
	Snappy bool `json:"snappy,omitempty"`
	// RegionStop: these regions (index mod count) answer the next multi-request that addresses them with a region-level
	// RegionServerStoppedException (a connection-level error class to the client); SlowMS: the
	// results of one multi-response are handed out that many virtual ms apart
	RegionStop []int `json:"region_stop,omitempty"`
	// ProbeStop: these regions answer their next request of ANY kind - the region probe included -
	// with RegionServerStoppedException: connections die while the batch is being grouped or is in
	// flight (then a call may legitimately be executed twice: only the order / routing oracles apply)
	ProbeStop []int `json:"probe_stop,omitempty"`
	// RegionNSRE: these regions answer the next multi-request addressing them with a region-level
	// NotServingRegionException (the region is fine again afterwards)
	RegionNSRE []int `json:"region_nsre,omitempty"`
	// RegionFatal: these regions answer the next multi-request addressing them with a region-level exception
	// of a class that is NOT retryable (FatalClass): the calls of that request fail for good, nothing is sent again
	RegionFatal []int  `json:"region_fatal,omitempty"`
	FatalClass  string `json:"fatal_class,omitempty"`
	// Sched: call SchedCall gets two owned scheduling points: the batch is held up CollectMS before it first
	// looks at that call's result, the region client's reader DeliverMS before it delivers to it
	Sched          bool `json:"sched,omitempty"`
	SchedCall      int  `json:"sched_call,omitempty"`
	SchedCollectMS int  `json:"sched_collect_ms,omitempty"`
	SchedDeliverMS int  `json:"sched_deliver_ms,omitempty"`
	SlowMS         int  `json:"slow_ms,omitempty"`
}

type batchObs struct {
	results  []hrpc.RPCResult
	ok       bool
	returned bool
	elapsed  time.Duration
	execs    []sim.Exec
	problems []string
	dropped  bool
	deadlock string
	panicMsg string
	bubble   bubbleResult
	calls    []hrpc.Call
}

func isRetryableClass(class string) string {
	switch class {
	case sim.CallQueueBig, sim.RegionOpening, sim.Throttling, sim.RetryImm, sim.TooBusy, sim.PleaseHold:
		return "backoff"
	case sim.NSRE, sim.RegionMoved:
		return "region"
	}
	return ""
}

func batchExec(c batchCase) batchObs {
	var obs batchObs
	res := inBubble(theT, func() {
		cl := c.Layout.build()
		cl.Tape = c.Tape
		cl.PermuteMulti = true
		cl.UseCellBlocks = c.CellBlocks
		for mk, outs := range c.Scripts {
			cl.Script[mk] = outs
		}
		if regs := cl.TableRegions(c.Layout.Table); len(regs) > 0 {
			for _, ri := range c.RegionStop {
				r := regs[((ri%len(regs))+len(regs))%len(regs)]
				r.MultiExc = append(r.MultiExc, sim.Exc{Class: sim.RSStopped, Stack: sim.RSStopped + ": Server is stopping"})
			}
			for _, ri := range c.RegionNSRE {
				r := regs[((ri%len(regs))+len(regs))%len(regs)]
				r.MultiExc = append(r.MultiExc, sim.Exc{Class: sim.NSRE, Stack: sim.NSRE + ": region is not online"})
			}
			for _, ri := range c.RegionFatal {
				r := regs[((ri%len(regs))+len(regs))%len(regs)]
				r.MultiExc = append(r.MultiExc, sim.Exc{Class: c.FatalClass, Stack: c.FatalClass + ": refused for the whole region action"})
			}
			for _, ri := range c.ProbeStop {
				r := regs[((ri%len(regs))+len(regs))%len(regs)]
				r.Transient = append(r.Transient, sim.Exc{Class: sim.RSStopped, Stack: sim.RSStopped + ": Server is stopping"})
			}
		}
		if c.DropTableOnNSRE {
			cl.OnExec = func(e *sim.Exec) {
				if e.Marker != "" && isRetryableClass(e.Result) == "region" && !obs.dropped {
					obs.dropped = true
					var keep []*sim.Region
					for _, r := range cl.Regions {
						if r.Table != c.Layout.Table {
							keep = append(keep, r)
						}
					}
					cl.Regions = keep
				}
			}
		}
		copts := []gohbase.Option{gohbase.RpcQueueSize(c.QueueSize), gohbase.FlushInterval(time.Duration(c.FlushMS) * time.Millisecond)}
		if c.Snappy {
			copts = append(copts, gohbase.CompressionCodec("snappy"))
		}
		client := newSimClient(cl, copts...)
		ctx, cancel := context.WithCancel(context.Background())
		defer cancel()
		own := map[int]bool{}
		for _, i := range c.OwnCtx {
			own[i] = true
		}
		ownCtx, ownCancel := context.WithCancel(context.Background())
		defer ownCancel()
		if len(own) > 0 {
			tm := time.AfterFunc(time.Duration(c.CancelOwnAtMS)*time.Millisecond, ownCancel)
			defer tm.Stop()
		}
		if c.ReleaseAtMS > 0 {
			tm := time.AfterFunc(time.Duration(c.ReleaseAtMS)*time.Millisecond, func() {
				for mk, outs := range c.Scripts {
					for _, o := range outs {
						if o.Kind == "hold" {
							cl.Release(mk)
						}
					}
				}
			})
			defer tm.Stop()
		}
		var calls []hrpc.Call
		for i, op := range c.Batch {
			table := c.Layout.Table
			var opts []func(hrpc.Call) error
			if c.Invalid == "table" && i == c.InvalidAt {
				table = "other"
			}
			if c.Invalid == "nonbatchable" && i == c.InvalidAt {
				opts = append(opts, hrpc.SkipBatch())
			}
			cctx := ctx
			if own[i] {
				cctx = ownCtx
			}
			call, err := buildCall(cctx, table, op, opts...)
			if err != nil {
				panic(err)
			}
			if c.SlowMS > 0 {
				call = wrapSlow(call, time.Duration(c.SlowMS)*time.Millisecond)
			}
			if c.Sched && i == c.SchedCall {
				call = wrapSched(call, time.Duration(c.SchedCollectMS)*time.Millisecond, time.Duration(c.SchedDeliverMS)*time.Millisecond)
			}
			if c.Invalid == "dup" && i == c.InvalidAt && i > 0 {
				call = calls[0]
			}
			calls = append(calls, call)
		}
		obs.calls = calls
		if c.CancelAtMS >= 0 {
			tm := time.AfterFunc(time.Duration(c.CancelAtMS)*time.Millisecond, cancel)
			defer tm.Stop()
		}
		otherDone := make(chan struct{})
		go func() {
			defer close(otherDone)
			if len(c.Other) == 0 {
				return
			}
			var oc []hrpc.Call
			for _, op := range c.Other {
				call, err := buildCall(context.Background(), c.Layout.Table, op)
				if err != nil {
					panic(err)
				}
				oc = append(oc, call)
			}
			octx, ocancel := context.WithTimeout(context.Background(), 5*time.Minute)
			defer ocancel()
			client.SendBatch(octx, oc)
		}()
		done := make(chan struct{})
		t0 := time.Now()
		go func() {
			defer close(done)
			obs.results, obs.ok = client.SendBatch(ctx, calls)
			obs.elapsed = time.Since(t0)
		}()
		obs.returned = waitOrHorizon(done, 20*time.Minute)
		cancel()
		client.Close()
		drainClient()
		obs.execs, _, obs.problems = cl.Snapshot()
		cl.Stop()
		<-otherDone
		if obs.returned {
			<-done
		}
	})
	obs.deadlock, obs.panicMsg, obs.bubble = res.Deadlock, res.Panic, res
	if res.Deadlock != "" {
		obs.deadlock += "\n" + bubbleStacks(res.Stack)
	}
	if res.Panic != "" {
		obs.panicMsg = res.Panic + "\n" + res.Stack
	}
	return obs
}

// finalOutcome returns the scripted terminal outcome of a marker assuming
// attempts proceed through the script: "ok", "fatal" or "" (runs off the
// script = ok by default), plus the number of retryable outcomes before it.
func finalOutcome(outs []sim.Outcome) (final string, retryables int, connLevel bool) {
	for _, o := range outs {
		switch o.Kind {
		case "ok", "hold":
			return "ok", retryables, connLevel
		case "exc":
			if isRetryableClass(o.Class) == "" {
				return "fatal", retryables, connLevel
			}
			retryables++
		case "drop", "reset":
			retryables++
			connLevel = true
		}
	}
	return "ok", retryables, connLevel
}

// ---------------------------------------------------------------- C07

func c07Run(c batchCase) (out Outcome) {
	obs := batchExec(c)
	if o, stuck := stuckVerdict(obs.bubble); stuck {
		return o
	}
	if obs.panicMsg != "" {
		return viol("panic@"+topFrame(obs.panicMsg), "%s", obs.panicMsg)
	}
	if obs.deadlock != "" && !exitLeak(obs.deadlock) {
		return viol("batch-deadlock", "bubble deadlocked: %s", obs.deadlock)
	}
	if obs.deadlock != "" {
		out.Labels = append(out.Labels, "goroutines_left_at_exit")
	}
	if len(obs.problems) > 0 {
		return viol("wire-problem", "servers saw malformed or misrouted traffic: %v", obs.problems)
	}
	if !obs.returned {
		// liveness of SendBatch under cancellation is C13's business
		out.Labels = append(out.Labels, "horizon_exceeded")
		return out
	}
	if len(obs.results) != len(c.Batch) {
		return viol("batch-result-count", "batch of %d calls returned %d results", len(c.Batch), len(obs.results))
	}
	executed := map[string]bool{}
	executedAt := map[string]time.Duration{}
	lastResult := map[string]string{}
	for _, e := range obs.execs {
		if e.Marker == "" {
			continue
		}
		if e.Executed {
			executed[e.Marker] = true
			executedAt[e.Marker] = e.T
		}
		lastResult[e.Marker] = e.Result
	}
	anyErr := false
	distinctOutcomes := map[string]bool{}
	retryRound := false
	for i, op := range c.Batch {
		r := obs.results[i]
		if op.Kind == "badget" {
			// a call that cannot be serialised: an error of its own, and nothing of it on any wire
			if r.Error == nil {
				return viol("result-bad-call-succeeded", "result %d: a Get without a row reports success", i)
			}
			anyErr = true
			continue
		}
		final, retryables, _ := finalOutcome(c.Scripts[op.Marker])
		if retryables > 0 {
			retryRound = true
		}
		if r.Error != nil {
			anyErr = true
			distinctOutcomes["err"] = true
		} else {
			distinctOutcomes["ok"] = true
		}
		// self-consistency: never another call's marker
		for _, mk := range errMarkers(r.Error) {
			if mk != op.Marker {
				return viol("result-foreign-error", "result %d (call %s) carries the error of call %s: %v", i, op.Marker, mk, r.Error)
			}
		}
		if r.Error == nil {
			if r.Msg == nil {
				return viol("result-neither", "result %d (call %s) has neither a response nor an error", i, op.Marker)
			}
			if err := checkOpResult(op, r.Msg); err != nil {
				return viol("result-foreign-response", "result %d (call %s): %v", i, op.Marker, err)
			}
			if !executed[op.Marker] {
				return viol("result-success-not-executed", "result %d (call %s) reports success but no server executed the call", i, op.Marker)
			}
			continue
		}
		if r.Msg != nil {
			return viol("result-both", "result %d (call %s) has both a response and an error %v", i, op.Marker, r.Error)
		}
		// a call whose success was delivered must keep it, whatever happens to the others.
		// "Delivered" is knowable when the batch was not cancelled and re-location did not fail.
		if executed[op.Marker] && c.CancelAtMS < 0 && len(c.OwnCtx) == 0 {
			return viol("result-success-lost", "call %s (index %d) was executed successfully and answered, but its result is the error %v", op.Marker, i, r.Error)
		}
		// ... also when the context is cancelled later: the answer (sent at once by the
		// server) had reached the client strictly before the cancellation
		if at, ok := executedAt[op.Marker]; ok && c.CancelAtMS >= 0 && at < time.Duration(c.CancelAtMS)*time.Millisecond {
			return viol("result-success-lost", "call %s (index %d) was executed and answered at %v, the batch context was cancelled at %dms, yet its result is the error %v", op.Marker, i, at, c.CancelAtMS, r.Error)
		}
		ownEnded := false
		for _, k := range c.OwnCtx {
			if k == i && (errors.Is(r.Error, context.Canceled) || errors.Is(r.Error, context.DeadlineExceeded)) {
				ownEnded = true
			}
		}
		switch {
		case ownEnded:
			// the call's own context ended while the batch was waiting for it: its own error
		case final == "fatal" && c.CancelAtMS < 0 && !obs.dropped:
			if mks := errMarkers(r.Error); len(mks) != 1 {
				return viol("result-not-own-error", "call %s (index %d) ended with a scripted application exception but its result is %v", op.Marker, i, r.Error)
			}
		case c.CancelAtMS >= 0 || obs.dropped:
			// unfinished at cancellation / failed re-location: context error, lookup error,
			// or its own last error
			ownLast := strings.Contains(r.Error.Error(), "marker="+op.Marker)
			ctxErr := errors.Is(r.Error, context.Canceled) || errors.Is(r.Error, context.DeadlineExceeded)
			lookup := errors.Is(r.Error, gohbase.TableNotFound) || errors.Is(r.Error, gohbase.ErrCannotFindRegion)
			closedErr := strings.Contains(r.Error.Error(), "client is closed")
			// (a batch given up before this call was ever sent leaves it "not executed")
			_, arrived := lastResult[op.Marker]
			neverSent := r.Error == gohbase.NotExecutedError && !arrived
			if !ownLast && !ctxErr && !lookup && !closedErr && !neverSent && final != "fatal" {
				return viol("result-unexplained-error", "call %s (index %d): error %v is neither its own, nor a context or lookup error", op.Marker, i, r.Error)
			}
		default:
			if final == "ok" {
				return viol("result-unexplained-error", "call %s (index %d) should have succeeded eventually (script %v) but ended with %v", op.Marker, i, c.Scripts[op.Marker], r.Error)
			}
		}
	}
	if obs.ok == anyErr {
		return viol("ok-flag-wrong", "SendBatch returned ok=%v but some-error=%v", obs.ok, anyErr)
	}
	if retryRound {
		out.Labels = append(out.Labels, "retry_round")
	}
	if obs.dropped {
		out.Labels = append(out.Labels, "relocation_failed")
	}
	if c.CancelAtMS >= 0 {
		out.Labels = append(out.Labels, "cancelled")
	}
	if len(distinctOutcomes) == 2 {
		out.Labels = append(out.Labels, "mixed_outcomes")
	}
	out.NonTrivial = len(distinctOutcomes) == 2 && retryRound
	return out
}

func genScripts(t *rapid.T, ops []opSpec, withConnLevel bool) map[string][]sim.Outcome {
	scripts := map[string][]sim.Outcome{}
	retryable := []string{sim.CallQueueBig, sim.RegionOpening, sim.Throttling, sim.RetryImm, sim.TooBusy, sim.PleaseHold, sim.NSRE, sim.RegionMoved}
	for _, op := range ops {
		if rapid.IntRange(0, 2).Draw(t, "scripted") != 0 {
			continue
		}
		var outs []sim.Outcome
		n := rapid.IntRange(0, 3).Draw(t, "nretry")
		for i := 0; i < n; i++ {
			k := rapid.IntRange(0, 9).Draw(t, "rk")
			switch {
			case withConnLevel && k == 0:
				outs = append(outs, sim.Outcome{Kind: "reset"})
			case withConnLevel && k == 1:
				outs = append(outs, sim.Outcome{Kind: "drop"})
			default:
				outs = append(outs, sim.Outcome{Kind: "exc", Class: rapid.SampledFrom(retryable).Draw(t, "class"), Stack: "scripted"})
			}
		}
		if rapid.IntRange(0, 2).Draw(t, "fatal") == 0 {
			// (what the server's stack trace goes on to say is text: only the class decides what the client does)
			stack := "scripted"
			if rapid.Bool().Draw(t, "fatalcause") {
				cause := rapid.SampledFrom([]string{sim.TooBusy, sim.NSRE, sim.RSStopped, sim.CallQueueBig, sim.RegionMoved}).Draw(t, "causeclass")
				stack = "scripted\n\tat org.apache.hadoop.hbase.regionserver.HRegion.batchMutate(HRegion.java:1)\nCaused by: " + cause + ": wrapped\n\tat org.apache.hadoop.hbase.regionserver.HRegion.put(HRegion.java:2)\n\t... 9 more"
			}
			outs = append(outs, sim.Outcome{Kind: "exc", Class: rapid.SampledFrom([]string{appExc, appExc, sim.DoNotRetry}).Draw(t, "fatalclass"), Stack: stack})
		} else {
			outs = append(outs, sim.Outcome{Kind: "ok"})
		}
		scripts[op.Marker] = outs
	}
	return scripts
}

func c07Gen(t *rapid.T) batchCase {
	var c batchCase
	c.Layout = genLayout(t, 4, 3)
	c.Layout.Siblings = nil
	c.QueueSize = rapid.SampledFrom([]int{1, 2, 5, 100}).Draw(t, "queue")
	c.FlushMS = rapid.SampledFrom([]int{0, 1, 20}).Draw(t, "flush")
	c.Tape = rapid.SliceOfN(rapid.Byte(), 0, 8).Draw(t, "tape")
	c.CellBlocks = rapid.Bool().Draw(t, "cellblocks")
	c.Snappy = c.CellBlocks && rapid.Bool().Draw(t, "snappy")
	n := 0
	nb := rapid.IntRange(1, 12).Draw(t, "nbatch")
	for i := 0; i < nb; i++ {
		c.Batch = append(c.Batch, genOp(t, c.Layout, []string{"get", "get", "put", "app", "inc"}, &n))
	}
	badCall := -1
	if rapid.IntRange(0, 5).Draw(t, "badcall") == 0 {
		badCall = rapid.IntRange(0, len(c.Batch)-1).Draw(t, "badidx")
	}
	defer func() {
		// (applied last: the scripts and modes below are drawn as for an ordinary batch)
		if badCall >= 0 && badCall < len(c.Batch) {
			c.Batch[badCall].Kind = "badget"
			delete(c.Scripts, c.Batch[badCall].Marker)
		}
	}()
	c.Scripts = genScripts(t, c.Batch, true)
	c.CancelAtMS = -1
	switch rapid.IntRange(0, 6).Draw(t, "mode") {
	case 6:
		// calls with a context of their own that ends while the batch (whose context stays alive) is
		// waiting for them: a held response, released later
		h := rapid.IntRange(0, len(c.Batch)-1).Draw(t, "held")
		c.Scripts[c.Batch[h].Marker] = []sim.Outcome{{Kind: "hold"}}
		c.OwnCtx = append(c.OwnCtx, h)
		if rapid.Bool().Draw(t, "second") {
			c.OwnCtx = append(c.OwnCtx, rapid.IntRange(0, len(c.Batch)-1).Draw(t, "own"))
		}
		c.CancelOwnAtMS = rapid.SampledFrom([]int{25, 30, 60}).Draw(t, "cancelown")
		c.ReleaseAtMS = c.CancelOwnAtMS + rapid.SampledFrom([]int{1, 10, 100}).Draw(t, "releaseafter")
		if rapid.Bool().Draw(t, "early") {
			// ... or that ends before the batch is even flushed, while other regions answer the
			// multi-request with a region-level NotServingRegion
			c.Scripts = map[string][]sim.Outcome{}
			c.CancelOwnAtMS, c.ReleaseAtMS = 0, 0
			c.FlushMS = 20
			c.QueueSize = 100
			nr := rapid.IntRange(1, 2).Draw(t, "nnsre")
			for k := 0; k < nr; k++ {
				c.RegionNSRE = append(c.RegionNSRE, rapid.IntRange(0, 3).Draw(t, "nsreregion"))
			}
		}
	case 0:
		c.CancelAtMS = rapid.SampledFrom([]int{0, 1, 10, 17, 40, 100, 1000, 31000}).Draw(t, "cancel")
	case 1, 2:
		c.DropTableOnNSRE = true
		// make sure some call meets a region exception
		mk := c.Batch[rapid.IntRange(0, len(c.Batch)-1).Draw(t, "nsrecall")].Marker
		c.Scripts[mk] = []sim.Outcome{{Kind: "exc", Class: rapid.SampledFrom([]string{sim.NSRE, sim.RegionMoved}).Draw(t, "regclass"), Stack: "scripted"}, {Kind: "ok"}}
	}
	return c
}

func TestC07_BatchResults(t *testing.T) {
	theT = t
	rec := evid.New("C07", "TestC07_BatchResults",
		"rapid, virtual time: SendBatch of 1..12 marked calls over 1..4 regions on 1..3 simulated servers with a "+
			"per-(call, attempt) outcome script over {success, application exception, retry-after-back-off classes, "+
			"region-not-serving classes, request dropped, connection reset}; in a third of the cases the table vanishes "+
			"from hbase:meta when the first region exception is answered (re-location fails in the retry round), in a "+
			"sixth the batch context is cancelled at a drawn virtual time. Oracle from the script and the servers' "+
			"execution log: result i is call i's own response or own error, a delivered success is kept, no result "+
			"mixes calls, ok == all errors nil. Non-trivial = results with different outcomes and >= 1 retry round; "+
			"distinct by case hash")
	Drive(t, rec, true, c07Gen, c07Run)
}

// ---------------------------------------------------------------- C12

func c12Run(c batchCase) (out Outcome) {
	obs := batchExec(c)
	if o, stuck := stuckVerdict(obs.bubble); stuck {
		return o
	}
	if obs.panicMsg != "" {
		return viol("panic@"+topFrame(obs.panicMsg), "%s", obs.panicMsg)
	}
	if obs.deadlock != "" && !exitLeak(obs.deadlock) {
		return viol("batch-deadlock", "bubble deadlocked: %s", obs.deadlock)
	}
	if obs.deadlock != "" {
		out.Labels = append(out.Labels, "goroutines_left_at_exit")
	}
	if !obs.returned {
		out.Labels = append(out.Labels, "horizon_exceeded")
		return out
	}
	mine := map[string]int{}
	for i, op := range c.Batch {
		mine[op.Marker] = i
	}
	if c.Invalid != "" && !(c.Invalid == "dup" && c.InvalidAt == 0) {
		// rejected as a whole, nothing sent
		if obs.ok {
			return viol("invalid-batch-ok", "invalid batch (%s at %d) returned ok=true", c.Invalid, c.InvalidAt)
		}
		for i, r := range obs.results {
			if r.Error == nil {
				return viol("invalid-batch-result-nil", "invalid batch (%s at %d): result %d has a nil error", c.Invalid, c.InvalidAt, i)
			}
		}
		for _, e := range obs.execs {
			if _, ok := mine[e.Marker]; ok && e.Marker != "" {
				return viol("invalid-batch-sent", "invalid batch (%s at %d): call %s reached server %s", c.Invalid, c.InvalidAt, e.Marker, e.Addr)
			}
		}
		out.Labels = append(out.Labels, "invalid_"+c.Invalid)
		out.NonTrivial = c.InvalidAt > 0
		return out
	}
	if len(obs.problems) > 0 {
		return viol("wire-problem", "servers saw malformed or misrouted traffic: %v", obs.problems)
	}
	// per multi-request and region: actions of this batch appear in batch order
	type key struct {
		conn   int
		call   uint32
		region string
	}
	lastIdx := map[key]int{}
	executions := map[string]int{}
	sends := map[string]int{}
	refused := map[string]bool{}
	executedAt := map[string]int{}
	perRegion := map[string][]int{}
	sameRegion := false
	for n, e := range obs.execs {
		i, ok := mine[e.Marker]
		if !ok || e.Marker == "" {
			continue
		}
		sends[e.Marker]++
		if c.FatalClass != "" && e.Result == c.FatalClass {
			refused[e.Marker] = true
		}
		if e.InMulti {
			k := key{e.Conn, e.CallID, e.Region}
			if prev, seen := lastIdx[k]; seen {
				sameRegion = true
				if i < prev {
					return viol("multi-order", "multi request (conn %d call %d) presents call %d before call %d for region %q; server log: %q", e.Conn, e.CallID, prev, i, e.Region, execHistory(obs.execs))
				}
			}
			lastIdx[k] = i
		}
		if e.Executed {
			executions[e.Marker]++
			executedAt[e.Marker] = n
			perRegion[e.Region] = append(perRegion[e.Region], i)
		}
	}
	// the FIRST request on a connection whose response reports a region's server as stopping: that response is
	// received (nothing else breaks connections in these cases), so the successes in it have been delivered
	firstStop := map[int]uint32{}
	for _, e := range obs.execs {
		if e.Result == sim.RSStopped && e.InMulti {
			if _, seen := firstStop[e.Conn]; !seen {
				firstStop[e.Conn] = e.CallID
			}
		}
	}
	deliveredWithStop := map[string]bool{}
	for _, e := range obs.execs {
		if id, ok := firstStop[e.Conn]; ok && e.CallID == id && e.Executed && e.Attempt == 1 {
			deliveredWithStop[e.Marker] = true
		}
	}
	anyFault := len(c.Scripts) > 0 || len(c.RegionStop) > 0 || len(c.ProbeStop) > 0
	retryable := false
	for i, op := range c.Batch {
		r := obs.results[i]
		final, retryables, connLevel := finalOutcome(c.Scripts[op.Marker])
		if retryables > 0 {
			retryable = true
		}
		if len(c.ProbeStop) > 0 {
			continue
		}
		if refused[op.Marker] && (r.Error == nil || !strings.Contains(r.Error.Error(), c.FatalClass)) {
			return viol("region-refusal-lost", "call %s (index %d) travelled in a multi-request whose region action was refused with %s (not retryable); its result is (%v, %v); server log: %q",
				op.Marker, i, c.FatalClass, r.Msg != nil, r.Error, execHistory(obs.execs))
		}
		// (a region reporting its server as stopping makes the client give the connection up: the responses of
		// other multi-requests of the batch already executed on it are lost and those calls are sent again)
		lossy := len(c.RegionStop) > 0
		if lossy && executions[op.Marker] > 1 && deliveredWithStop[op.Marker] {
			return viol("executed-twice", "call %s (index %d) was executed %d times although its success travelled in the very response that reported the server as stopping (that response was received: its results are delivered before the connection is given up); server log: %q",
				op.Marker, i, executions[op.Marker], execHistory(obs.execs))
		}
		if executions[op.Marker] > 1 && !lossy {
			return viol("executed-twice", "call %s (index %d) was executed %d times; server log: %q", op.Marker, i, executions[op.Marker], execHistory(obs.execs))
		}
		if len(c.OwnCtx) > 0 {
			// (a call whose own context ended may be reported failed although it was executed)
			continue
		}
		if r.Error == nil && (executions[op.Marker] == 0 || executions[op.Marker] != 1 && !lossy) {
			return viol("success-without-execution", "call %s succeeded but was executed %d times", op.Marker, executions[op.Marker])
		}
		if final == "fatal" && r.Error != nil && len(errMarkers(r.Error)) == 1 && executions[op.Marker] != 0 {
			return viol("fatal-but-executed", "call %s ended with its application exception but was also executed", op.Marker)
		}
		// nothing is sent again after the terminal outcome was delivered
		if at, ok := executedAt[op.Marker]; ok && !lossy {
			for _, e := range obs.execs[at+1:] {
				if e.Marker == op.Marker {
					return viol("resent-after-success", "call %s was sent again (attempt %d) after its successful execution had been answered", op.Marker, e.Attempt)
				}
			}
		}
		// exact number of sends when only exception outcomes are scripted anywhere in the batch
		if !c.hasConnLevel() && c.CancelAtMS < 0 {
			want := 1 + retryables
			_ = connLevel
			if sends[op.Marker] != want {
				return viol("send-count", "call %s was sent %d times; script %v implies %d (one per retryable outcome plus one)", op.Marker, sends[op.Marker], c.Scripts[op.Marker], want)
			}
		}
	}
	if !anyFault {
		for reg, idxs := range perRegion {
			for k := 1; k < len(idxs); k++ {
				if idxs[k] < idxs[k-1] {
					return viol("region-order", "region %q executed batch call %d before call %d", reg, idxs[k-1], idxs[k])
				}
			}
		}
	}
	if sameRegion {
		out.Labels = append(out.Labels, "ge2_calls_one_region")
	}
	if retryable {
		out.Labels = append(out.Labels, "retryable_outcome")
	}
	if len(c.Other) > 0 {
		out.Labels = append(out.Labels, "concurrent_batch")
	}
	out.NonTrivial = sameRegion || retryable
	return out
}

// regionIndex is the index of the region of l that owns key.
func regionIndex(l layoutSpec, key []byte) int {
	i := 0
	for _, b := range l.Bounds {
		if bytes.Compare(key, b) >= 0 {
			i++
		}
	}
	return i
}

func execHistory(execs []sim.Exec) []string {
	var hist []string
	for _, x := range execs {
		if !strings.HasPrefix(x.Region, "hbase:meta") {
			hist = append(hist, fmt.Sprintf("%v conn%d call%d %s %s@%s attempt%d probe=%v %s", x.T, x.Conn, x.CallID, x.Method, x.Marker, x.Region, x.Attempt, x.Probe, x.Result))
		}
	}
	return hist
}

func (c batchCase) hasConnLevel() bool {
	if len(c.RegionStop) > 0 || len(c.ProbeStop) > 0 {
		return true
	}
	for _, outs := range c.Scripts {
		for _, o := range outs {
			if o.Kind == "drop" || o.Kind == "reset" {
				return true
			}
		}
	}
	return false
}

func c12Gen(t *rapid.T) batchCase {
	var c batchCase
	c.Layout = genLayout(t, 5, 3)
	c.Layout.Siblings = nil
	c.QueueSize = rapid.SampledFrom([]int{1, 2, 5, 100}).Draw(t, "queue")
	c.FlushMS = rapid.SampledFrom([]int{0, 1, 20}).Draw(t, "flush")
	c.Tape = rapid.SliceOfN(rapid.Byte(), 0, 8).Draw(t, "tape")
	c.CellBlocks = rapid.Bool().Draw(t, "cellblocks")
	c.Snappy = c.CellBlocks && rapid.Bool().Draw(t, "snappy")
	c.CancelAtMS = -1
	n := 0
	nb := rapid.IntRange(1, 16).Draw(t, "nbatch")
	for i := 0; i < nb; i++ {
		c.Batch = append(c.Batch, genOp(t, c.Layout, []string{"get", "get", "put", "app", "inc", "del"}, &n))
	}
	switch rapid.IntRange(0, 7).Draw(t, "mode") {
	case 7:
		// every call of the first call's region is answered "retry later" once (exception-only scripts),
		// and the first call's result channel gets owned scheduling points: the batch starts collecting
		// late, the reader delivers to that call late - results become available out of batch order
		c.Scripts = map[string][]sim.Outcome{}
		first := regionIndex(c.Layout, c.Batch[0].Key)
		for _, op := range c.Batch {
			if regionIndex(c.Layout, op.Key) == first {
				c.Scripts[op.Marker] = []sim.Outcome{{Kind: "exc", Class: rapid.SampledFrom([]string{sim.CallQueueBig, sim.TooBusy, sim.RegionOpening}).Draw(t, "rclass"), Stack: "scripted"}, {Kind: "ok"}}
			}
		}
		c.Sched, c.SchedCall = true, 0
		c.SchedCollectMS = rapid.SampledFrom([]int{0, 30, 50}).Draw(t, "collect")
		c.SchedDeliverMS = rapid.SampledFrom([]int{0, 40, 100}).Draw(t, "deliver")
	case 6:
		// a region reports its server as stopping (connection-level class) while other regions of
		// the same multi-response succeed, and the results reach the batch some ms apart
		nr := rapid.IntRange(1, 2).Draw(t, "nstop")
		for k := 0; k < nr; k++ {
			c.RegionStop = append(c.RegionStop, rapid.IntRange(0, 4).Draw(t, "stopregion"))
		}
		c.SlowMS = rapid.SampledFrom([]int{0, 1, 5}).Draw(t, "slow")
		if rapid.IntRange(0, 2).Draw(t, "probestop") == 0 {
			c.ProbeStop, c.RegionStop = c.RegionStop, nil
			if rapid.Bool().Draw(t, "twice") {
				c.ProbeStop = append(c.ProbeStop, c.ProbeStop[0])
			}
		}
		if rapid.Bool().Draw(t, "scripts") {
			c.Scripts = genScripts(t, c.Batch, false)
		}
	case 0:
		c.Invalid = rapid.SampledFrom([]string{"table", "dup", "nonbatchable"}).Draw(t, "invalid")
		c.InvalidAt = rapid.IntRange(0, len(c.Batch)-1).Draw(t, "invalidat")
		if c.Invalid == "dup" && c.InvalidAt == 0 {
			c.InvalidAt = len(c.Batch) - 1
			if c.InvalidAt == 0 {
				c.Invalid = "table"
			}
		}
	case 1:
		c.Scripts = genScripts(t, c.Batch, false)
	case 2:
		if rapid.Bool().Draw(t, "regionfatal") {
			// a whole region action is refused with a class that is not retryable, the other regions of the
			// same multi-request succeed: the refused calls fail for good and nothing is sent twice
			c.FatalClass = rapid.SampledFrom([]string{sim.DoNotRetry, "org.apache.hadoop.hbase.security.AccessDeniedException",
				"java.io.IOException", "org.apache.hadoop.hbase.regionserver.NoSuchColumnFamilyException"}).Draw(t, "fatalclass")
			nr := rapid.IntRange(1, 2).Draw(t, "nfatal")
			for k := 0; k < nr; k++ {
				c.RegionFatal = append(c.RegionFatal, rapid.IntRange(0, 4).Draw(t, "fatalregion"))
			}
		} else {
			c.Scripts = genScripts(t, c.Batch, false)
		}
	case 3:
		c.Scripts = genScripts(t, c.Batch, true)
	case 4:
		// a call with its own context is cancelled while the multi-request that carries it
		// is in flight (its response is held at the server and released afterwards)
		c.Scripts = map[string][]sim.Outcome{}
		h := rapid.IntRange(0, len(c.Batch)-1).Draw(t, "held")
		c.Scripts[c.Batch[h].Marker] = []sim.Outcome{{Kind: "hold"}}
		na := rapid.IntRange(1, 2).Draw(t, "nown")
		for k := 0; k < na; k++ {
			c.OwnCtx = append(c.OwnCtx, rapid.IntRange(0, len(c.Batch)-1).Draw(t, "own"))
		}
		c.CancelOwnAtMS = rapid.SampledFrom([]int{25, 30, 60}).Draw(t, "cancelown")
		c.ReleaseAtMS = c.CancelOwnAtMS + rapid.SampledFrom([]int{1, 10, 100}).Draw(t, "releaseafter")
	}
	// (with a region reporting its server as stopping, a second batch sharing the connections could have
	// its multi-request killed in flight after execution: at-least-once, not what this check is about)
	if len(c.RegionStop) == 0 && len(c.ProbeStop) == 0 && !c.Sched && rapid.IntRange(0, 3).Draw(t, "other") == 0 {
		no := rapid.IntRange(1, 6).Draw(t, "nother")
		for i := 0; i < no; i++ {
			c.Other = append(c.Other, genOp(t, c.Layout, []string{"get", "put"}, &n))
		}
	}
	return c
}

func TestC12_BatchExecution(t *testing.T) {
	theT = t
	rec := evid.New("C12", "TestC12_BatchExecution",
		"rapid, virtual time: SendBatch of 1..16 marked calls over 1..5 regions on 1..3 simulated servers; a sixth of "+
			"the batches are invalid (second table / repeated call object / non-batchable call at a drawn position); "+
			"others carry per-(call, attempt) scripts of retryable and non-retryable exception classes, requests dropped "+
			"or connections reset BEFORE execution, or a region answering with a region-level RegionServerStoppedException while "+
			"other regions of the same multi-response succeed and the results are handed out 0/1/5 virtual ms apart; optionally a second batch runs concurrently on the same connections. "+
			"Oracle on the servers' log: invalid => every result has an error, ok=false and no marker of the batch "+
			"reached a server; valid => actions in each multi-request/region in batch order, fault-free per-region "+
			"execution order = batch order, executed at most once, success => executed exactly once, never sent again "+
			"after its success, sends = 1 + scripted retryable outcomes (exception-only scripts); where a region reports its server as stopping the client gives the "+
			"connection up, so other requests already executed on it may be sent again (at least once; the order and success => executed oracles remain). Non-trivial = >= 2 calls "+
			"on one region, a retryable outcome, or an invalid entry not in first position; distinct by case hash")
	Drive(t, rec, true, c12Gen, c12Run)
}

var _ = fmt.Sprint
