package props

import (
	"bytes"
	"testing"

	"github.com/tsuna/gohbase/pb"
	"pgregory.net/rapid"

	"verifharness/evid"
	"verifharness/wire"
)

// c10SeqCase: several mutations serialised one after the other into ONE growing list of
// cellblocks - the way a multi-request threads the list of a region action through its calls.
type c10SeqCase struct {
	Muts []c10Case `json:"muts"`
}

func c10SeqRun(c c10SeqCase) (out Outcome) {
	stage := "build"
	defer func() {
		if p := recover(); p != nil {
			out = viol("panic@"+stage, "panic in %s: %v", stage, p)
		}
	}()
	type part struct {
		spec  c10Case
		count int
		size  int
		alone []byte
	}
	var parts []part
	var cbs [][]byte
	var snapshot [][]byte // copies of the blocks as they were when they were appended
	valueless, afterCells := 0, false
	for i, spec := range c.Muts {
		m, err := c10Build(spec)
		if err != nil {
			out.Labels = append(out.Labels, "rejected_by_constructor")
			continue
		}
		// the same mutation serialised on its own (TestC10_Mutations holds that form against the specification)
		m2, _ := c10Build(spec)
		stage = "SerializeCellBlocks(alone)"
		_, aloneBlocks, _ := m2.SerializeCellBlocks(nil)
		var alone []byte
		for _, b := range aloneBlocks {
			alone = append(alone, b...)
		}
		stage = "SerializeCellBlocks(threaded)"
		before := len(cbs)
		msg, next, size := m.SerializeCellBlocks(cbs)
		if len(next) < before {
			return viol("blocks-dropped", "mutation %d (%s, %d bytes of cells on its own) was handed a list of %d cellblocks and returned one of %d: the cells of the mutations before it are gone",
				i, spec.Kind, len(alone), before, len(next))
		}
		for k := 0; k < before; k++ {
			if !bytes.Equal(next[k], snapshot[k]) {
				return viol("blocks-changed", "serialising mutation %d changed cellblock %d of an earlier mutation", i, k)
			}
		}
		var added []byte
		for _, b := range next[before:] {
			added = append(added, b...)
			snapshot = append(snapshot, append([]byte(nil), b...))
		}
		cbs = next
		if int(size) != len(added) {
			return viol("size-mismatch", "mutation %d declared %d bytes of cellblock, %d were appended", i, size, len(added))
		}
		cnt := int(msg.(*pb.MutateRequest).GetMutation().GetAssociatedCellCount())
		parts = append(parts, part{spec, cnt, len(added), alone})
		if cnt == 0 {
			valueless++
			if afterCells {
				out.Labels = append(out.Labels, "valueless_after_cells")
			}
		} else {
			afterCells = true
		}
	}
	// the whole list is what travels behind the request: it decodes into the mutations' cells, in order
	stage = "independent-decode"
	var all []byte
	for _, b := range cbs {
		all = append(all, b...)
	}
	cells, err := wire.DecodeAllCells(all)
	if err != nil {
		return viol("independent-decode-failed", "independent KeyValue decoder rejects the threaded cellblocks: %v", err)
	}
	at, off := 0, 0
	for i, p := range parts {
		if at+p.count > len(cells) {
			return viol("cell-count-mismatch", "mutation %d announces %d cells, the list holds %d in all and %d belong to earlier mutations", i, p.count, len(cells), at)
		}
		// (the order of a mutation's cells is the iteration order of its map: compare as sets)
		aloneCells, err := wire.DecodeAllCells(p.alone)
		if err != nil {
			return viol("independent-decode-failed", "mutation %d on its own: %v", i, err)
		}
		var mine, want []flatCell
		for _, ce := range cells[at : at+p.count] {
			if !bytes.Equal(ce.Row, p.spec.row()) {
				return viol("foreign-cells", "mutation %d (row of %d bytes) is associated with a cell of row %q", i, len(p.spec.row()), trunc(ce.Row))
			}
			mine = append(mine, flatCell{string(ce.Family), string(ce.Qualifier), string(ce.Value), ce.Timestamp, ce.Type})
		}
		for _, ce := range aloneCells {
			want = append(want, flatCell{string(ce.Family), string(ce.Qualifier), string(ce.Value), ce.Timestamp, ce.Type})
		}
		if p.size != len(p.alone) || !flatEqual(mine, want) {
			return viol("threaded-differs-from-alone", "mutation %d (%s): its cells in the threaded list (%d bytes) %s differ from what it serialises to on its own (%d bytes) %s", i, p.spec.Kind, p.size, flatStr(mine), len(p.alone), flatStr(want))
		}
		at += p.count
		off += p.size
	}
	if at != len(cells) || off != len(all) {
		return viol("cell-count-mismatch", "the mutations announce %d cells in %d bytes, the list holds %d cells in %d bytes", at, off, len(cells), len(all))
	}
	if len(parts) >= 2 && len(cells) > 0 {
		out.NonTrivial = true
	}
	if valueless > 0 {
		out.Labels = append(out.Labels, "valueless_mutation")
	}
	return out
}

func c10SeqGen(t *rapid.T) c10SeqCase {
	var c c10SeqCase
	n := rapid.IntRange(2, 6).Draw(t, "nmuts")
	for i := 0; i < n; i++ {
		m := c10Gen(t)
		if m.BigValue > 70000 {
			m.BigValue = 70000
		}
		if rapid.IntRange(0, 3).Draw(t, "valueless") == 0 {
			// a mutation without values: a whole-row delete, or any kind built from a nil map
			m.Fams = nil
			m.BigValue = 0
		}
		c.Muts = append(c.Muts, m)
	}
	return c
}

func TestC10_Sequence(t *testing.T) {
	rec := evid.New("C10", "TestC10_Sequence",
		"rapid: 2..6 mutation specifications (as in TestC10_Mutations; 1 in 4 without any value: whole-row deletes and "+
			"mutations built from a nil map) serialised one after the other into one growing list of cellblocks, the way "+
			"a multi-request threads the list of a region action through its calls. Oracle: no call shortens the list or "+
			"changes an earlier block; the declared size is what was appended; the appended cells are (as a set) what the mutation "+
			"serialises to on its own; the concatenation decodes (independent decoder) into exactly the announced number "+
			"of cells per mutation, each with its mutation's row. Non-trivial = >= 2 mutations and >= 1 cell; distinct by case hash")
	Drive(t, rec, false, c10SeqGen, c10SeqRun)
}

var _ = evid.B(nil)

// TestC10_BatchOnWire: the cellblock form of mutations as it leaves a real region client inside
// multi-requests (the C05 concurrent-senders scenario restricted to puts, a fifth of which are given
// up by their callers right after being queued): every cell on the wire belongs to an action of its
// frame and is the cell that action's put was built with.
func TestC10_BatchOnWire(t *testing.T) {
	theT = t
	rec := evid.New("C10", "TestC10_BatchOnWire",
		"rapid, virtual time: 1..8 goroutines queue 1..6 puts each (values of 0..300000 bytes; 1 in 5 given up by its caller "+
			"right after being queued, before the batch is flushed) on ONE real region client with batching (queue size 2..100, "+
			"flush 0..20 ms, snappy on/off); the byte stream is decoded with the independent codec. Oracle: every frame is "+
			"well-formed, the announced cell counts add up to the cells in the frame's cellblock, every cell belongs to an "+
			"action of its frame and is the cell that put was built with (row, qualifier, value), and every put that was not "+
			"given up appears exactly once. Non-trivial = >= 2 senders and >= 1 put; distinct by case hash")
	Drive(t, rec, true, func(t *rapid.T) c05bCase {
		c := c05bGen(t)
		if c.QueueSize == 1 {
			c.QueueSize = 2
		}
		for i := range c.Senders {
			for j := range c.Senders[i] {
				op := &c.Senders[i][j]
				if op.Kind != "put" {
					op.Kind, op.ValueLen = "put", rapid.SampledFrom([]int{0, 1, 10, 300, 5000, 70000}).Draw(t, "vlen2")
				}
				op.SkipBatch = false
				op.GiveUp = rapid.IntRange(0, 4).Draw(t, "giveup2") == 0
			}
		}
		return c
	}, c05bRun)
}
