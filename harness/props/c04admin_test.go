package props

import (
	"context"
	"fmt"
	"sort"
	"sync"
	"testing"
	"time"

	"github.com/tsuna/gohbase"
	"github.com/tsuna/gohbase/hrpc"
	"pgregory.net/rapid"

	"verifharness/evid"
	"verifharness/sim"
)

// c04aCase: administrative calls while the active master moves, restarts or is not ready.
type c04aEvent struct {
	AtMS int    `json:"at_ms"`
	Kind string `json:"kind"` // move | reset | down | stopping | notready | hold
	// Server the master moves to / which is affected (mod count)
	Server int `json:"server,omitempty"`
	DownMS int `json:"down_ms,omitempty"`
	Count  int `json:"count,omitempty"`
}

type c04aReq struct {
	AtMS int    `json:"at_ms"`
	Kind string `json:"kind"` // status | list | balancer
}

type c04aCase struct {
	NServers int         `json:"nservers"`
	Events   []c04aEvent `json:"events"`
	Reqs     []c04aReq   `json:"reqs"`
}

func c04aRun(c c04aCase) Outcome {
	var o Outcome
	res := inBubble(theT, func() { o = c04aInBubble(c) })
	if so, stuck := stuckVerdict(res); stuck {
		return so
	}
	if res.Panic != "" {
		return viol("panic@"+topFrame(res.Stack), "%s\n%s", res.Panic, res.Stack)
	}
	if res.Deadlock != "" && o.Sig == "" && !exitLeak(res.Deadlock) {
		return viol("fault-deadlock", "bubble deadlocked: %s\n%s", res.Deadlock, bubbleStacks(res.Stack))
	}
	return o
}

func c04aInBubble(c c04aCase) (out Outcome) {
	var addrs []string
	for i := 0; i < c.NServers; i++ {
		addrs = append(addrs, fmt.Sprintf("m%d:16000", i+1))
	}
	cl := sim.New(addrs...)
	ac := gohbase.VerifNewAdminClient(cl.ZK(), gohbase.RegionDialer(cl.Dial), gohbase.Logger(quietLogger))
	start := time.Now()
	evs := append([]c04aEvent(nil), c.Events...)
	sort.SliceStable(evs, func(i, j int) bool { return evs[i].AtMS < evs[j].AtMS })
	lastEvent := 0
	var wg sync.WaitGroup
	wg.Add(1)
	go func() {
		defer wg.Done()
		for _, ev := range evs {
			if d := time.Until(start.Add(time.Duration(ev.AtMS) * time.Millisecond)); d > 0 {
				time.Sleep(d)
			}
			addr := addrs[((ev.Server%len(addrs))+len(addrs))%len(addrs)]
			switch ev.Kind {
			case "move":
				// the active master changes: the old one answers ServerNotRunningYetException
				cl.Lock()
				cl.MasterAddr = addr
				cl.Unlock()
			case "reset":
				cl.Lock()
				cur := cl.MasterAddr
				cl.Unlock()
				cl.KillConns(cur)
			case "down":
				// the master restarts: connections drop, dials are refused for a while
				cl.Lock()
				cur := cl.MasterAddr
				cl.Unlock()
				cl.SetServer(cur, func(s *sim.ServerState) { s.Down = true })
				cl.KillConns(cur)
				down := time.Duration(ev.DownMS) * time.Millisecond
				go func() {
					time.Sleep(down)
					cl.SetServer(cur, func(s *sim.ServerState) { s.Down = false })
				}()
			case "stopping":
				// the master is stopping: every request is answered MasterStoppedException for a
				// while, then another server is the active master
				cl.Lock()
				cur := cl.MasterAddr
				cl.Unlock()
				cl.SetServer(cur, func(s *sim.ServerState) { s.Fatal = sim.MasterStopped })
				down := time.Duration(ev.DownMS) * time.Millisecond
				go func() {
					time.Sleep(down)
					cl.Lock()
					cl.MasterAddr = addr
					cl.Unlock()
					cl.SetServer(cur, func(s *sim.ServerState) { s.Fatal = "" })
				}()
			case "notready", "hold":
				class := sim.NotRunningYet
				if ev.Kind == "hold" {
					class = sim.PleaseHold
				}
				cl.Lock()
				for k := 0; k < ev.Count; k++ {
					cl.Script["master"] = append(cl.Script["master"], sim.Outcome{Kind: "exc", Class: class, Stack: "master is initializing"})
				}
				cl.Unlock()
			}
		}
	}()
	for _, ev := range evs {
		if end := ev.AtMS + ev.DownMS; end > lastEvent {
			lastEvent = end
		}
	}
	var mu sync.Mutex
	var first *Outcome
	fail := func(sig, format string, a ...any) {
		mu.Lock()
		if first == nil {
			o := viol(sig, format, a...)
			first = &o
		}
		mu.Unlock()
	}
	for i, rq := range c.Reqs {
		wg.Add(1)
		go func(i int, rq c04aReq) {
			defer wg.Done()
			if d := time.Until(start.Add(time.Duration(rq.AtMS) * time.Millisecond)); d > 0 {
				time.Sleep(d)
			}
			var err error
			switch rq.Kind {
			case "status":
				cs, e := ac.ClusterStatus()
				err = e
				if e == nil {
					// answered by whoever was the active master when it was executed
					host := cs.GetMaster().GetHostName()
					ok := false
					for _, a := range addrs {
						ok = ok || a == host
					}
					if !ok {
						fail("foreign-response", "ClusterStatus names master %q, which is not a server of the cluster", host)
					}
				}
			case "list":
				call, _ := hrpc.NewListTableNames(context.Background())
				_, err = ac.ListTableNames(call)
			default:
				call, _ := hrpc.NewSetBalancer(context.Background(), true)
				_, err = ac.SetBalancer(call)
			}
			if err != nil {
				fail("request-failed", "administrative call %d (%s at %dms) failed with %v although the master became available again", i, rq.Kind, rq.AtMS, err)
			}
		}(i, rq)
	}
	done := make(chan struct{})
	go func() { wg.Wait(); close(done) }()
	finished := waitOrHorizon(done, time.Duration(lastEvent)*time.Millisecond+10*time.Minute)
	stuck := ""
	if !finished {
		stuck = firstGohbaseStack(gohbaseGoroutines(), "SendRPC")
	}
	execs, _, problems := cl.Snapshot()
	gohbase.VerifCloseAdmin(ac)
	drainClient()
	cl.Stop()
	if finished {
		<-done
	}
	if first != nil {
		return *first
	}
	if !finished {
		return viol("request-stuck", "administrative calls were still blocked 10 virtual minutes after the last event; blocked at:\n%s", stuck)
	}
	if len(problems) > 0 {
		return viol("wire-problem", "the masters saw malformed traffic: %v", problems)
	}
	// every successful execution happened on the active master (the simulated masters refuse otherwise),
	// each call was executed exactly once unless a connection-level event could have lost its answer
	executed, metFault := 0, 0
	for _, e := range execs {
		if e.Marker != "master" {
			continue
		}
		if e.Executed {
			executed++
		} else {
			metFault++
		}
	}
	connLevel := false
	for _, ev := range evs {
		// (ServerNotRunningYet and MasterStopped make the client drop the connection too: calls in flight
		// on it may have been executed and are sent again)
		if ev.Kind != "hold" {
			connLevel = true
		}
	}
	if executed < len(c.Reqs) {
		return viol("success-without-execution", "%d administrative calls returned success, the active master executed %d", len(c.Reqs), executed)
	}
	if executed > len(c.Reqs) && !connLevel {
		return viol("executed-twice", "%d administrative calls were executed %d times without any connection-level event", len(c.Reqs), executed)
	}
	out.NonTrivial = metFault > 0 || len(evs) > 0
	if metFault > 0 {
		out.Labels = append(out.Labels, "call_met_a_fault")
	}
	return out
}

func TestC04_AdminSurvival(t *testing.T) {
	theT = t
	rec := evid.New("C04", "TestC04_AdminSurvival",
		"rapid, virtual time: an admin client against 1..3 simulated masters (the active one is published through the simulated "+
			"ZooKeeper) and 0..6 events - the active master moves (the old one answers ServerNotRunningYet), its connections are reset, it "+
			"restarts (dials refused for a while), it is stopping (MasterStoppedException on every request, then another master "+
			"takes over), it answers ServerNotRunningYet / PleaseHold k times - interleaved with 1..8 ClusterStatus / ListTableNames / "+
			"SetBalancer calls. Oracle: every call succeeds within 10 virtual minutes of the last event, executed by the active master "+
			"(the others refuse), exactly once unless a connection-level event could have lost the answer. Non-trivial = >= 1 event; "+
			"distinct by case hash")
	Drive(t, rec, true, func(t *rapid.T) c04aCase {
		var c c04aCase
		c.NServers = rapid.IntRange(1, 3).Draw(t, "nservers")
		times := []int{0, 0, 1, 5, 19, 45, 110, 600, 1500, 2500, 30000}
		ne := rapid.IntRange(0, 6).Draw(t, "nevents")
		for i := 0; i < ne; i++ {
			ev := c04aEvent{AtMS: rapid.SampledFrom(times).Draw(t, "at"),
				Kind:   rapid.SampledFrom([]string{"move", "move", "reset", "down", "stopping", "notready", "hold"}).Draw(t, "kind"),
				Server: rapid.IntRange(0, 2).Draw(t, "server")}
			switch ev.Kind {
			case "down", "stopping":
				ev.DownMS = rapid.SampledFrom([]int{10, 100, 1000, 20000}).Draw(t, "down")
			case "notready", "hold":
				ev.Count = rapid.IntRange(1, 4).Draw(t, "count")
			}
			c.Events = append(c.Events, ev)
		}
		nr := rapid.IntRange(1, 8).Draw(t, "nreqs")
		for i := 0; i < nr; i++ {
			c.Reqs = append(c.Reqs, c04aReq{AtMS: rapid.SampledFrom(times).Draw(t, "reqat"),
				Kind: rapid.SampledFrom([]string{"status", "list", "balancer"}).Draw(t, "rkind")})
		}
		return c
	}, c04aRun)
}
