package props

import (
	"encoding/json"
	"fmt"
	"runtime"
	"sync"
	"sync/atomic"
	"testing"
	"time"

	"github.com/tsuna/gohbase/hrpc"
	"github.com/tsuna/gohbase/region"
	"pgregory.net/rapid"

	"verifharness/evid"
)

// c09DumpCase: a state dump (what gohbase.DebugState does for every cached region: json.Marshal)
// taken while the region loses and regains its connection.
type c09DumpCase struct {
	Regions int `json:"regions"`
	Flips   int `json:"flips"`   // connection losses / re-establishments per region
	Dumpers int `json:"dumpers"` // goroutines dumping concurrently
	Yield   int `json:"yield"`   // 0: flip as fast as possible, n: yield every n-th flip
}

func c09DumpRun(c c09DumpCase) (out Outcome) {
	rc := region.NewClient("rs1:16020", region.RegionClient, 1, 0, "u", time.Second, nil, nil, quietLogger)
	var regs []hrpc.RegionInfo
	for i := 0; i < c.Regions; i++ {
		regs = append(regs, region.NewInfo(uint64(1000+i), nil, []byte("t"), []byte(fmt.Sprintf("t,%c,%d", 'a'+i, 1000+i)), []byte{byte('a' + i)}, []byte{byte('b' + i)}))
	}
	var stop atomic.Bool
	var panicked atomic.Value
	var wg sync.WaitGroup
	dumps := int64(0)
	for d := 0; d < c.Dumpers; d++ {
		wg.Add(1)
		go func() {
			defer wg.Done()
			defer func() {
				if p := recover(); p != nil {
					buf := make([]byte, 1<<14)
					panicked.Store(fmt.Sprintf("%v\n%s", p, buf[:runtime.Stack(buf, false)]))
				}
			}()
			for !stop.Load() {
				for _, r := range regs {
					if _, err := json.Marshal(r); err != nil {
						panicked.Store("json.Marshal: " + err.Error())
						return
					}
					atomic.AddInt64(&dumps, 1)
				}
			}
		}()
	}
	var fw sync.WaitGroup
	for _, r := range regs {
		fw.Add(1)
		go func(r hrpc.RegionInfo) {
			defer fw.Done()
			for k := 0; k < c.Flips && panicked.Load() == nil; k++ {
				r.SetClient(rc) // established
				if c.Yield > 0 && k%c.Yield == 0 {
					runtime.Gosched()
				}
				r.SetClient(nil) // its connection was lost (clientDown), or the region was replaced
			}
		}(r)
	}
	fw.Wait()
	stop.Store(true)
	wg.Wait()
	if p := panicked.Load(); p != nil {
		return viol("panic@debug-dump", "a state dump taken while regions lose their connection: %v", p)
	}
	out.NonTrivial = atomic.LoadInt64(&dumps) > int64(c.Regions)
	out.Labels = append(out.Labels, "dump_during_connection_loss")
	return out
}

func TestC09_DebugDump(t *testing.T) {
	rec := evid.New("C09", "TestC09_DebugDump",
		"rapid, real threads (no bubble): 1..8 cached region objects lose and regain their connection 200..5000 times each "+
			"(SetClient(nil) / SetClient(c), what clientDown and establishRegion do) while 1..4 goroutines take state dumps of them "+
			"(json.Marshal, what gohbase.DebugState does for every cached region). Oracle: no panic, no marshalling error. The "+
			"interleavings are chosen by the Go scheduler: sampling. Non-trivial = more dumps than regions were taken; distinct by case hash")
	Drive(t, rec, false, func(t *rapid.T) c09DumpCase {
		return c09DumpCase{Regions: rapid.IntRange(1, 8).Draw(t, "regions"), Flips: rapid.SampledFrom([]int{200, 1000, 5000}).Draw(t, "flips"),
			Dumpers: rapid.IntRange(1, 4).Draw(t, "dumpers"), Yield: rapid.SampledFrom([]int{0, 1, 7}).Draw(t, "yield")}
	}, c09DumpRun)
}
