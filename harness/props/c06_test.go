package props

import (
	"bytes"
	"context"
	"errors"
	"fmt"
	"io"
	"sort"
	"testing"
	"testing/synctest"
	"time"

	"github.com/tsuna/gohbase"
	"github.com/tsuna/gohbase/hrpc"
	"pgregory.net/rapid"

	"verifharness/evid"
	"verifharness/gen"
)

// scanEnding says how the scan is ended (C14); Kind "exhaust" is C06.
type scanEnding struct {
	Kind string `json:"kind"` // exhaust | close | error | cancel | cancelmid
	// MidReq (cancelmid): after After Next calls, the context is cancelled while the MidReq-th request
	// of the following Next call is being answered (the response still arrives)
	MidReq     int  `json:"mid_req,omitempty"`
	After      int  `json:"after,omitempty"`   // Next calls before Close / cancel
	FailOn     int  `json:"fail_on,omitempty"` // 1-based request number that fails
	CloseTwice bool `json:"close_twice,omitempty"`
	RenewMS    int  `json:"renew_ms,omitempty"` // renewal interval, 0 = off
	SleepMS    int  `json:"sleep_ms,omitempty"` // consumer pause between Next calls
	// IdleAfterEnd: after Close / cancel the consumer does not touch the scanner for 3 renewal intervals
	IdleAfterEnd bool `json:"idle_after_end,omitempty"`
	// RenewSilent (scans through the whole client, Kind close, RenewMS > 0): the servers never answer lease
	// renewals, and Close is called while one is in flight
	RenewSilent bool `json:"renew_silent,omitempty"`
}

type scanCase struct {
	Spec scanSpec   `json:"spec"`
	End  scanEnding `json:"end"`
}

var errInjected = errors.New("injected: org.apache.hadoop.hbase.DoNotRetryIOException: marker-c14")

// scanRun drives the real scanner against the model server and applies the
// C06 oracle (rows, order, wholeness) and the C14 oracle (error once, EOF
// afterwards, Close idempotent and immediate, no server-side scanner left).
func scanRun(c scanCase) (out Outcome) {
	var o Outcome
	res := inBubble(theT, func() { o = scanRunInBubble(c) })
	if o, stuck := stuckVerdict(res); stuck {
		return o
	}
	if res.Deadlock != "" {
		return viol("scan-hang", "bubble deadlocked or goroutines left behind: %s", res.Deadlock)
	}
	if res.Panic != "" {
		return viol("panic@"+topFrame(res.Stack), "%s\n%s", res.Panic, res.Stack)
	}
	return o
}

func scanRunInBubble(c scanCase) (out Outcome) {
	m := newScanModel(c.Spec)
	out = scanOnce(c, m)
	if out.Sig != "" || !c.Spec.Twice || c.End.Kind != "exhaust" {
		return out
	}
	m.reset()
	second := scanOnce(c, m)
	if second.Sig != "" {
		second.Sig = "second-scan:" + second.Sig
		second.Msg = "the same scan, run a second time against the same cached regions: " + second.Msg
		return second
	}
	out.Labels = append(out.Labels, "scanned_twice")
	return out
}

func scanOnce(c scanCase, m *scanModel) (out Outcome) {
	spec := c.Spec
	ctx, cancel := context.WithCancel(context.Background())
	defer cancel()
	var extra []func(hrpc.Call) error
	if c.End.RenewMS > 0 {
		extra = append(extra, hrpc.RenewInterval(time.Duration(c.End.RenewMS)*time.Millisecond))
	}
	call, err := newScanCall(ctx, spec, extra...)
	if err != nil {
		return viol("scan-constructor", "NewScanRange failed: %v", err)
	}
	if c.End.Kind == "error" {
		m.failOn = c.End.FailOn
		m.failErr = errInjected
	}
	sc := gohbase.VerifNewScanner(m, call)
	want := spec.expected()
	var acc rowAcc
	acc.skipEmpty = spec.EmptyFirst
	type step struct {
		res *hrpc.Result
		err error
	}
	var steps []step
	next := func() step {
		r, e := sc.Next()
		st := step{r, e}
		steps = append(steps, st)
		return st
	}
	pause := func() {
		if c.End.SleepMS > 0 {
			time.Sleep(time.Duration(c.End.SleepMS) * time.Millisecond)
		}
	}
	maxCalls := len(want)*8 + 20
	sawErr := false
	var firstErr error
	gotPartialWithErr := false

	// phase 1: consume
	calls := 0
	ended := false // EOF or error seen
	for calls < maxCalls {
		if (c.End.Kind == "close" || c.End.Kind == "cancel" || c.End.Kind == "cancelmid") && calls == c.End.After {
			break
		}
		st := next()
		calls++
		if st.err == io.EOF {
			if st.res != nil {
				return viol("eof-with-result", "Next returned a result together with io.EOF")
			}
			ended = true
			break
		}
		if st.err != nil {
			sawErr = true
			firstErr = st.err
			if st.res != nil && len(st.res.Cells) > 0 {
				gotPartialWithErr = true
				acc.add(st.res, false)
			}
			ended = true
			break
		}
		if st.res == nil {
			return viol("nil-result", "Next returned (nil, nil)")
		}
		acc.add(st.res, spec.Partials)
		pause()
	}
	if calls >= maxCalls && !ended {
		return viol("scan-too-many-results", "scanner produced %d results for %d expected rows without ending", calls, len(want))
	}

	// phase 2: the ending
	closeAt := time.Now()
	switch c.End.Kind {
	case "close":
		if !ended {
			if err := sc.Close(); err != nil {
				return viol("close-error", "Close returned %v", err)
			}
			if c.End.CloseTwice {
				if err := sc.Close(); err != nil {
					return viol("close-error", "second Close returned %v", err)
				}
			}
			if d := time.Since(closeAt); d != 0 {
				return viol("close-blocked", "Close took %v of virtual time", d)
			}
		}
	case "cancel":
		if !ended {
			cancel()
		}
	case "cancelmid":
		if !ended {
			m.mu.Lock()
			m.cancelAfter, m.cancelFn = m.requests+c.End.MidReq, cancel
			m.mu.Unlock()
			returnedBefore := len(acc.rows)
			st := next()
			m.mu.Lock()
			m.cancelFn = nil
			m.mu.Unlock()
			switch {
			case st.err == io.EOF:
				ended = true
			case st.err != nil:
				sawErr, firstErr, ended = true, st.err, true
				// the row being assembled when the cancellation was noticed: everything the servers
				// had sent of it is handed out together with the error
				if !spec.Partials && errors.Is(st.err, context.Canceled) && returnedBefore < len(want) {
					row := want[returnedBefore]
					m.mu.Lock()
					e := m.emitted[string(row.Key)]
					m.mu.Unlock()
					got := 0
					if st.res != nil {
						got = len(st.res.Cells)
					}
					if e > 0 && e < row.Cells && got != e {
						return viol("cancel-lost-assembled-row", "the scan was cancelled while row %q was being assembled: the servers had sent %d of its %d cells, "+
							"the cancellation was reported with %d cells", row.Key, e, row.Cells, got)
					}
					if e > 0 && e < row.Cells {
						out.Labels = append(out.Labels, "cancelled_mid_row")
					}
				}
				if st.res != nil && len(st.res.Cells) > 0 {
					gotPartialWithErr = true
					acc.add(st.res, false)
				}
			default:
				if st.res == nil {
					return viol("nil-result", "Next returned (nil, nil)")
				}
				acc.add(st.res, spec.Partials)
			}
			cancel()
		}
	}
	// the user walks away from the scanner for a while (no Next after Close / cancel): whatever
	// still runs in the background (lease renewer) gets several intervals to show itself
	if c.End.RenewMS > 0 && c.End.IdleAfterEnd {
		synctest.Wait()
		time.Sleep(3 * time.Duration(c.End.RenewMS) * time.Millisecond)
		synctest.Wait()
	}
	// phase 3: after the ending only buffered rows (after Close), at most one
	// error (after cancel), then io.EOF forever
	eofs := 0
	for i := 0; i < maxCalls && eofs < 3; i++ {
		st := next()
		switch {
		case st.err == io.EOF:
			if st.res != nil {
				return viol("eof-with-result", "Next returned a result together with io.EOF")
			}
			eofs++
		case st.err != nil:
			if eofs > 0 {
				return viol("error-after-eof", "Next returned %v after io.EOF", st.err)
			}
			if sawErr {
				return viol("error-reported-twice", "Next returned an error again (%v) after already reporting %v", st.err, firstErr)
			}
			sawErr = true
			firstErr = st.err
			if st.res != nil && len(st.res.Cells) > 0 {
				gotPartialWithErr = true
				acc.add(st.res, false)
			}
		default:
			if eofs > 0 {
				return viol("result-after-eof", "Next returned a result after io.EOF")
			}
			if sawErr {
				return viol("result-after-error", "Next returned a result after reporting error %v", firstErr)
			}
			acc.add(st.res, spec.Partials)
		}
	}
	if eofs < 3 {
		return viol("no-eof", "scanner did not settle on io.EOF after the scan ended")
	}
	if c.End.Kind == "close" && c.End.CloseTwice {
		if err := sc.Close(); err != nil {
			return viol("close-error", "Close after the end returned %v", err)
		}
	}
	m.end()
	// let asynchronous close requests and renewal goroutines drain
	synctest.Wait()
	if c.End.RenewMS > 0 {
		time.Sleep(3 * time.Duration(c.End.RenewMS) * time.Millisecond)
		synctest.Wait()
	}

	// ---- oracles
	if errors.Is(firstErr, errBudget) {
		return viol("scan-livelock", "scan did not terminate within %d requests; trace tail %v", m.budget, tail(m.trace, 6))
	}
	if len(m.problems) > 0 {
		return viol("protocol:"+firstWord(m.problems[0]), "client broke the scan protocol: %v", m.problems)
	}
	switch c.End.Kind {
	case "exhaust":
		if sawErr {
			return viol("unexpected-error", "scan failed with %v", firstErr)
		}
	case "error":
		if sawErr && !errors.Is(firstErr, errInjected) {
			return viol("unexpected-error", "scan failed with %v, injected %v", firstErr, errInjected)
		}
		if m.failOn <= m.requests && !sawErr {
			return viol("error-swallowed", "request %d failed but Next never reported an error", m.failOn)
		}
	case "cancel", "cancelmid":
		if sawErr && !errors.Is(firstErr, context.Canceled) {
			return viol("unexpected-error", "scan failed with %v after cancellation", firstErr)
		}
		if !ended && !sawErr {
			return viol("cancel-not-reported", "context cancelled before the end of the scan but Next never reported it")
		}
	case "close":
		if sawErr {
			return viol("unexpected-error", "scan failed with %v", firstErr)
		}
	}
	exact := !sawErr && (c.End.Kind == "exhaust" || ended && !sawErr)
	if c.End.Kind == "close" && !ended {
		exact = false
	}
	if sig, msg := comparePrefix(acc.rows, want, exact,
		// a row may be incomplete when it was handed out with the error, or when the user
		// closed the scanner while a fragment of it was buffered ("might still get buffered results")
		gotPartialWithErr || (spec.Partials && !exact) || (c.End.Kind == "close" && !exact)); sig != "" {
		return viol(sig, "%s (start=%q stop=%q reversed=%v bounds=%q)", msg, spec.Start, spec.Stop, spec.Reversed, spec.Bounds)
	}
	if open := m.openScanners(); len(open) > 0 {
		return viol("scanner-leak", "region scanners %v are still open at the server after the scan ended (%s); trace tail %v", open, c.End.Kind, tail(m.trace, 6))
	}

	// ---- classification
	nregions := 0
	for i := 0; i < spec.nRegions(); i++ {
		rs, re := spec.regionBounds(i)
		_ = rs
		_ = re
	}
	nregions = len(m.scanners)
	if nregions >= 2 {
		out.Labels = append(out.Labels, "multi_region")
	}
	if c.Spec.CloseOpt {
		out.Labels = append(out.Labels, "close_scanner_option")
	}
	if m.fragmented {
		out.Labels = append(out.Labels, "fragmented")
	}
	if m.heartbeats {
		out.Labels = append(out.Labels, "heartbeat")
	}
	if m.boundEqBoundary {
		out.Labels = append(out.Labels, "bound_eq_boundary")
	}
	if m.earlyNoMore {
		out.Labels = append(out.Labels, "early_no_more_results")
	}
	if spec.Reversed {
		out.Labels = append(out.Labels, "reversed")
	}
	if spec.Partials {
		out.Labels = append(out.Labels, "allow_partials")
	}
	if len(want) == 0 {
		out.Labels = append(out.Labels, "empty_result")
	}
	out.Labels = append(out.Labels, "end_"+c.End.Kind)
	if m.closeReqs > 0 {
		out.Labels = append(out.Labels, "explicit_close_sent")
	}
	if m.renewReqs > 0 {
		out.Labels = append(out.Labels, "renewed")
	}
	switch c.End.Kind {
	case "exhaust":
		out.NonTrivial = nregions >= 2 || m.fragmented || m.heartbeats || m.boundEqBoundary
	default:
		out.NonTrivial = m.closeReqs > 0 || (c.End.Kind == "error" && c.End.FailOn >= 2 && sawErr) || m.earlyNoMore
	}
	return out
}

func firstWord(s string) string {
	for i, c := range s {
		if c == ' ' {
			return s[:i]
		}
	}
	return s
}

func tail(s []string, n int) []string {
	if len(s) > n {
		return s[len(s)-n:]
	}
	return s
}

// ---- generator

// scanKey draws a key without a run of eight 0xff (runs of up to seven are
// constructed on purpose).
func scanKey(t *rapid.T, label string) []byte {
	var k []byte
	switch rapid.IntRange(0, 9).Draw(t, label+"_kind") {
	case 0:
		// a run of up to seven 0xff, possibly after a prefix
		k = append(k, gen.Key(2).Draw(t, label+"_pfx")...)
		n := rapid.IntRange(1, 7).Draw(t, label+"_ffs")
		for i := 0; i < n; i++ {
			k = append(k, 0xff)
		}
		k = append(k, gen.Key(1).Draw(t, label+"_sfx")...)
	default:
		k = gen.Key(5).Draw(t, label)
	}
	return capFF(k)
}

// capFF breaks any run of eight 0xff.
func capFF(k []byte) []byte {
	run := 0
	for i := range k {
		if k[i] == 0xff {
			run++
			if run == 8 {
				k[i] = 0xfe
				run = 0
			}
		} else {
			run = 0
		}
	}
	return k
}

func scanSpecGen(t *rapid.T) scanSpec {
	var s scanSpec
	nrows := rapid.IntRange(0, 12).Draw(t, "nrows")
	if rapid.IntRange(0, 9).Draw(t, "many") == 0 {
		nrows = rapid.IntRange(13, 30).Draw(t, "nrows2")
	}
	seen := map[string]bool{}
	var keys [][]byte
	for i := 0; i < nrows; i++ {
		var k []byte
		if len(keys) > 0 && rapid.IntRange(0, 2).Draw(t, "derive") == 0 {
			k = capFF(gen.Near(t, keys[rapid.IntRange(0, len(keys)-1).Draw(t, "from")]))
		} else {
			k = scanKey(t, "row")
		}
		if len(k) == 0 || seen[string(k)] {
			continue // HBase has no empty row key
		}
		seen[string(k)] = true
		keys = append(keys, k)
	}
	sort.Slice(keys, func(i, j int) bool { return bytes.Compare(keys[i], keys[j]) < 0 })
	for _, k := range keys {
		s.Rows = append(s.Rows, scanRow{Key: k, Cells: rapid.IntRange(1, 5).Draw(t, "cells")})
	}
	// boundaries from rows, their neighbours and fresh keys
	nb := rapid.IntRange(0, 5).Draw(t, "nbounds")
	bseen := map[string]bool{}
	var bounds [][]byte
	for i := 0; i < nb; i++ {
		var b []byte
		switch {
		case len(keys) > 0 && rapid.IntRange(0, 2).Draw(t, "bfrom") == 0:
			b = append([]byte(nil), keys[rapid.IntRange(0, len(keys)-1).Draw(t, "brow")]...)
		case len(keys) > 0 && rapid.IntRange(0, 1).Draw(t, "bnear") == 0:
			b = capFF(gen.Near(t, keys[rapid.IntRange(0, len(keys)-1).Draw(t, "brow2")]))
		default:
			b = scanKey(t, "bound")
		}
		if len(b) == 0 || bseen[string(b)] {
			continue
		}
		bseen[string(b)] = true
		bounds = append(bounds, b)
	}
	sort.Slice(bounds, func(i, j int) bool { return bytes.Compare(bounds[i], bounds[j]) < 0 })
	for _, b := range bounds {
		s.Bounds = append(s.Bounds, b)
	}
	pick := func(label string) []byte {
		switch rapid.IntRange(0, 5).Draw(t, label+"_k") {
		case 0:
			return nil
		case 1:
			if len(bounds) > 0 {
				return append([]byte(nil), bounds[rapid.IntRange(0, len(bounds)-1).Draw(t, label+"_b")]...)
			}
		case 2:
			if len(keys) > 0 {
				return append([]byte(nil), keys[rapid.IntRange(0, len(keys)-1).Draw(t, label+"_r")]...)
			}
		case 3:
			if len(keys) > 0 {
				return capFF(gen.Near(t, keys[rapid.IntRange(0, len(keys)-1).Draw(t, label+"_n")]))
			}
		}
		return scanKey(t, label)
	}
	s.Reversed = rapid.IntRange(0, 2).Draw(t, "reversed") == 0
	s.Start = pick("start")
	s.Stop = pick("stop")
	if s.Reversed && len(s.Start) == 0 {
		// the API documents reversed scans with an explicit start row
		if len(keys) > 0 {
			s.Start = append([]byte(nil), keys[len(keys)-1]...)
		} else {
			s.Start = []byte("zz")
		}
	}
	if len(s.Start) > 0 && bytes.Equal(s.Start, s.Stop) {
		// start == stop is read as a point get by servers; not a range
		s.Stop = nil
	}
	s.NumRows = rapid.SampledFrom([]uint32{0, 0, 1, 2, 3}).Draw(t, "numrows")
	s.Partials = rapid.IntRange(0, 3).Draw(t, "partials") == 0
	s.Tape = rapid.SliceOfN(rapid.Byte(), 0, 24).Draw(t, "tape")
	s.EmptyFragments = rapid.IntRange(0, 7).Draw(t, "emptyfrag") == 0
	s.Twice = rapid.IntRange(0, 3).Draw(t, "twice") == 0
	if rapid.IntRange(0, 7).Draw(t, "closeopt") == 0 {
		// the CloseScanner option ("if you know that your scan result fits into one response"): at most 8
		// rows in all and the plainest chunking, so that every region answers completely in its first response
		s.CloseOpt = true
		s.Tape, s.NumRows, s.Partials, s.EmptyFragments = nil, 0, false, false
		if len(s.Rows) > 8 {
			s.Rows = s.Rows[:8]
		}
	}
	return s
}

func TestC06_Scanner(t *testing.T) {
	theT = t
	rec := evid.New("C06", "TestC06_Scanner",
		"rapid: tables of 0..30 rows (1..5 cells; keys over the biased alphabet incl. runs of up to seven 0xff, "+
			"never eight), layouts of 1..6 regions with boundaries from rows/neighbours/fresh keys, [start,stop) with "+
			"empty bounds / equal to boundaries / between rows / start>=stop, both directions, NumberOfRows in "+
			"{default,1,2,3}, AllowPartialResults on/off, the CloseScanner option (1 in 8, only with <= 8 rows and the plainest chunking: every region answers completely in one response), and a server chunking tape (rows per response, rows cut "+
			"into fragments that may span responses, final fragment flagged partial or not, heartbeats, delayed or "+
			"early end-of-region / end-of-scan flags, optional zero-cell continuation fragments). The real scanner "+
			"runs against a model RPCClient that routes and validates requests like a regionserver; oracle = "+
			"sorted range-filtered model table, each row once and whole, then io.EOF. Non-trivial = >= 2 region "+
			"scanners, a fragmented row, a heartbeat, or a bound equal to a region boundary; distinct by case hash")
	Drive(t, rec, false, func(t *rapid.T) scanCase {
		c := scanCase{Spec: scanSpecGen(t), End: scanEnding{Kind: "exhaust"}}
		if rapid.IntRange(0, 5).Draw(t, "renew") == 0 {
			// a slow consumer with lease renewal: the renewer's requests run between the fetches
			c.End.RenewMS = rapid.SampledFrom([]int{5, 50, 1000}).Draw(t, "renewms")
			c.End.SleepMS = rapid.SampledFrom([]int{1, 7, 120, 3000}).Draw(t, "sleepms")
		}
		return c
	}, scanRun)
}

func TestC14_Scanner(t *testing.T) {
	theT = t
	rec := evid.New("C14", "TestC14_Scanner",
		"rapid: a C06 scan plus an ending: Close after n Next calls (once/twice), a non-retryable RPC error on "+
			"request j for drawn j, context cancellation between two Next calls, servers declaring no more results "+
			"while the region scanner stays open, optional renewal interval with a slow consumer (virtual time). "+
			"Oracle: results are a prefix of the model rows, at most one non-EOF error (with the partially "+
			"assembled row), io.EOF on every later call, Close returns nil in zero virtual time, and after the "+
			"asynchronous close requests drained the model server holds no open region scanner whose id reached the "+
			"client; no request after the end. Non-trivial = an explicit close was needed and observed, an error "+
			"on request >= 2, or early no-more-results; distinct by case hash")
	Drive(t, rec, false, func(t *rapid.T) scanCase {
		c := scanCase{Spec: scanSpecGen(t)}
		c.End.Kind = rapid.SampledFrom([]string{"exhaust", "close", "close", "error", "error", "cancel", "cancel", "cancelmid", "cancelmid"}).Draw(t, "ending")
		c.End.MidReq = rapid.IntRange(1, 3).Draw(t, "midreq")
		c.End.After = rapid.IntRange(0, 6).Draw(t, "after")
		c.End.FailOn = rapid.IntRange(1, 8).Draw(t, "failon")
		c.End.CloseTwice = rapid.Bool().Draw(t, "twice")
		if rapid.IntRange(0, 3).Draw(t, "renew") == 0 {
			c.End.RenewMS = rapid.SampledFrom([]int{5, 50, 1000}).Draw(t, "renewms")
			c.End.SleepMS = rapid.SampledFrom([]int{0, 1, 7, 120, 3000}).Draw(t, "sleepms")
			c.End.IdleAfterEnd = rapid.Bool().Draw(t, "idle")
		}
		return c
	}, scanRun)
}

var _ = fmt.Sprint
