package props

import (
	"bytes"
	"context"
	"errors"
	"fmt"
	"sync"
	"testing"
	"time"

	"github.com/tsuna/gohbase"
	"github.com/tsuna/gohbase/hrpc"
	"pgregory.net/rapid"

	"verifharness/evid"
	"verifharness/gen"
	"verifharness/sim"
)

type c01bTable struct {
	Name   string   `json:"name"`
	Bounds []evid.B `json:"bounds"`
	MD5    bool     `json:"md5,omitempty"`
}

type c01bStep struct {
	Table string   `json:"table"`
	Op    *opSpec  `json:"op,omitempty"`
	Batch []opSpec `json:"batch,omitempty"`
	// Concurrent: single-row operations issued by as many goroutines at the same instant
	// (regions first touched concurrently, in whatever order the scheduler gives)
	Concurrent []opSpec `json:"concurrent,omitempty"`
	// Relayout: before this step's operations (nothing of the workload in flight) the layout of the
	// table changes: the client's cached locations for the affected range are stale from here on
	Relayout *c01bRelayout `json:"relayout,omitempty"`
	Busy     *c01bBusy     `json:"busy,omitempty"`
	// Evict (a step of its own): a cached region R is merged with its right-hand neighbour (which the client
	// does not know) onto another server; a request for R's first row is refused by the old server and waits
	// for R to be re-established - whose hbase:meta lookup is held - while a request for the neighbour's first
	// row misses the cache, looks the merged region up and evicts R; then the held lookup is answered
	Evict *c01bEvict `json:"evict,omitempty"`
}

type c01bEvict struct {
	Region  int    `json:"region"`
	Server  int    `json:"server"`
	Marker  string `json:"marker"`
	Marker2 string `json:"marker2"`
	Marker3 string `json:"marker3"`
}

// c01bBusy: a request is told "retry later" Count times; while it sleeps between its attempts the region it
// was sent to is replaced (Relayout, applied 20 ms after it was issued; the index is ignored: the change hits
// the region of the request's row) and another request for the same row finds the new location out.
// The sleeping request's next attempt has no excuse for going to the old place.
type c01bBusy struct {
	Op       opSpec       `json:"op"`
	Class    string       `json:"class"`
	Count    int          `json:"count"`
	Relayout c01bRelayout `json:"relayout"`
	Learner  opSpec       `json:"learner"`
}

type c01bRelayout struct {
	Kind    string `json:"kind"`   // split | merge | move
	Region  int    `json:"region"` // index (modulo) into the table's regions in key order
	At      evid.B `json:"at"`     // split: the split key is the region's start key followed by these bytes
	Server  int    `json:"server"`
	Server2 int    `json:"server2"`
}

type c01bCase struct {
	Tables   []c01bTable `json:"tables"`
	NServers int         `json:"nservers"`
	Steps    []c01bStep  `json:"steps"`
	Queue    int         `json:"queue"`
	FlushMS  int         `json:"flush_ms"`
	Snappy   bool        `json:"snappy,omitempty"`
}

func c01bRun(c c01bCase) Outcome {
	var o Outcome
	res := inBubble(theT, func() { o = c01bRunInBubble(c) })
	if o, stuck := stuckVerdict(res); stuck {
		return o
	}
	if res.Panic != "" {
		return viol("panic@"+topFrame(res.Stack), "%s\n%s", res.Panic, res.Stack)
	}
	if res.Deadlock != "" && o.Sig == "" && !exitLeak(res.Deadlock) {
		return viol("deadlock", "bubble deadlocked: %s\n%s", res.Deadlock, bubbleStacks(res.Stack))
	}
	return o
}

func c01bRunInBubble(c c01bCase) (out Outcome) {
	resetRetained()
	var addrs []string
	for i := 0; i < c.NServers; i++ {
		addrs = append(addrs, serverAddr(i))
	}
	cl := sim.New(addrs...)
	exists := map[string]bool{}
	for i, tb := range c.Tables {
		var bounds [][]byte
		for _, b := range tb.Bounds {
			bounds = append(bounds, b)
		}
		cl.AddTable(tb.Name, bounds, append(addrs[i%len(addrs):], addrs[:i%len(addrs)]...), uint64(1000+100*i), tb.MD5)
		exists[tb.Name] = true
	}
	for _, st := range c.Steps {
		if st.Relayout != nil || st.Busy != nil || st.Evict != nil {
			// (refusals take a round trip: a client that never stops asking the wrong place runs into its deadline)
			cl.MinLatency = 2 * time.Millisecond
		}
	}
	opts := []gohbase.Option{gohbase.RpcQueueSize(c.Queue), gohbase.FlushInterval(time.Duration(c.FlushMS) * time.Millisecond)}
	if c.Snappy {
		opts = append(opts, gohbase.CompressionCodec("snappy"))
	}
	client := newSimClient(cl, opts...)
	defer func() {
		client.Close()
		drainClient()
		cl.Stop()
	}()
	touched := map[string]bool{}
	unknownLookups := 0
	boundaryKeys := 0
	multiRegion := false
	concurrentSteps := 0
	for _, tb := range c.Tables {
		if len(tb.Bounds) > 0 {
			multiRegion = true
		}
	}
	// stale: (region name @ server) pairs that were right once and are not any more; a request may arrive
	// at such a place once (the cache cannot know), after that it has to go where the layout says
	stale := map[string]bool{}
	staleArrivals := map[string]int{}
	seenExecs := 0
	relayouts, staleTouched := 0, 0
	var checkExecsSkipping func(skipResult string) *Outcome
	checkExecs := func() *Outcome { return checkExecsSkipping("") }
	checkExecsSkipping = func(skipResult string) *Outcome {
		execs, _, problems := cl.Snapshot()
		if len(problems) > 0 {
			o := viol("misrouted", "the simulated servers saw misrouted or malformed requests: %v", problems)
			return &o
		}
		for _, e := range execs[seenExecs:] {
			if e.Marker == "" || (skipResult != "" && e.Result == skipResult) {
				continue
			}
			if !e.Executed {
				// anything answered NotServing / WrongRegion was sent to the wrong place: only a location
				// that has been right before the layout changed may be tried, and only once per request
				if !stale[e.Region+"@"+e.Addr] {
					o := viol("misrouted", "request %s for row %q arrived at %s naming region %q and was answered %s (that region was never there)", e.Marker, e.Row, e.Addr, e.Region, e.Result)
					return &o
				}
				staleArrivals[e.Marker]++
				// (how quickly a client must get over a stale location the statement does not say - the pinned
				// code needs two refusals when the request was already waiting for the old region - only that
				// it does: more than 3 arrivals at places that are not right any more is a request going round in circles)
				if staleArrivals[e.Marker] > 3 {
					o := viol("stale-location-reused", "request %s for row %q arrived at %s naming region %q (a location that stopped being right %d layout change(s) ago) for the %d. time: after a refusal the request has to be addressed to the region that owns the row now (%v)",
						e.Marker, e.Row, e.Addr, e.Region, relayouts, staleArrivals[e.Marker], cl.Owner(tableOfRegion(e.Region), e.Row))
					return &o
				}
				continue
			}
			owner := cl.Owner(tableOfRegion(e.Region), e.Row)
			if owner == nil || string(owner.Name) != e.Region || owner.Addr != e.Addr {
				o := viol("misrouted", "request %s for row %q was executed under region %q on %s, the owner is %v", e.Marker, e.Row, e.Region, e.Addr, owner)
				return &o
			}
		}
		seenExecs = len(execs)
		return nil
	}
	applyRelayout := func(rl *c01bRelayout, table string, si int, onlyRegion *sim.Region) {
		regs := cl.TableRegions(table)
		id := uint64(5000 + 10*si)
		retire := func(r *sim.Region) {
			stale[string(r.Name)+"@"+r.Addr] = true
			// (the client may hold a region no step asked for: re-establishing a region that was split looks its
			// START key up and caches the first daughter, whatever row the waiting request was for)
			cached := touched[string(r.Name)]
			for _, cr := range gohbase.VerifCachedRegions(client) {
				cached = cached || string(cr.Name()) == string(r.Name)
			}
			if cached {
				staleTouched++
			}
		}
		pick := rl.Region % len(regs)
		if onlyRegion != nil {
			for i, r := range regs {
				if r == onlyRegion {
					pick = i
				}
			}
		}
		switch rl.Kind {
		case "move":
			r := regs[pick]
			if to := addrs[rl.Server%len(addrs)]; to != r.Addr {
				retire(r)
				delete(stale, string(r.Name)+"@"+to)
				delete(touched, string(r.Name))
				cl.Move(r, to)
				relayouts++
			}
		case "split":
			r := regs[pick]
			at := append(append([]byte{}, r.Start...), rl.At...)
			if len(rl.At) > 0 && (len(r.Stop) == 0 || bytes.Compare(at, r.Stop) < 0) {
				retire(r)
				cl.Split(r, at, id, addrs[rl.Server%len(addrs)], addrs[rl.Server2%len(addrs)])
				relayouts++
			}
		case "merge":
			if len(regs) >= 2 {
				i := rl.Region % (len(regs) - 1)
				if onlyRegion != nil {
					i = pick
					if i == len(regs)-1 {
						i--
					}
				}
				retire(regs[i])
				retire(regs[i+1])
				cl.Merge(regs[i], regs[i+1], id, addrs[rl.Server%len(addrs)])
				relayouts++
			}
		}
	}
	knewBetter := 0
	evictSteps := 0
	for si, st := range c.Steps {
		if rl := st.Relayout; rl != nil && exists[st.Table] {
			applyRelayout(rl, st.Table, si, nil)
		}
		if ev := st.Evict; ev != nil {
			if !exists[st.Table] {
				continue
			}
			if o := func() *Outcome {
				regs := cl.TableRegions(st.Table)
				if len(regs) < 2 || len(addrs) < 2 {
					return nil
				}
				i := ev.Region % (len(regs) - 1)
				r, q := regs[i], regs[i+1]
				// R known and in use, Q unknown to the client
				if err, cerr := doOp(client, context.Background(), st.Table, opSpec{Kind: "get", Key: evid.B(r.Start), Marker: ev.Marker3}); err != nil || cerr != nil {
					return violp("request-failed", "step %d (evict): warm-up %v %v", si, err, cerr)
				}
				touched[string(r.Name)] = true
				if o := checkExecs(); o != nil {
					return o
				}
				for _, cr := range gohbase.VerifCachedRegions(client) {
					if string(cr.Name()) == string(q.Name) {
						return nil
					}
				}
				to := addrs[ev.Server%len(addrs)]
				if to == r.Addr {
					to = addrs[(ev.Server+1)%len(addrs)]
				}
				hold := gohbase.VerifCreateRegionSearchKey([]byte(st.Table), r.Start)
				if bytes.HasPrefix(gohbase.VerifCreateRegionSearchKey([]byte(st.Table), q.Start), hold) {
					return nil
				}
				var srvIdx int
				for k, a := range addrs {
					if a == to {
						srvIdx = k
					}
				}
				applyRelayout(&c01bRelayout{Kind: "merge", Server: srvIdx}, st.Table, si, r)
				cl.Lock()
				cl.MetaHoldPrefix = hold
				cl.Unlock()
				bctx, cancel := context.WithTimeout(context.Background(), 3*time.Minute)
				defer cancel()
				var err, cerr error
				done := make(chan struct{})
				go func() {
					defer close(done)
					err, cerr = doOp(client, bctx, st.Table, opSpec{Kind: "get", Key: evid.B(r.Start), Marker: ev.Marker})
				}()
				time.Sleep(20 * time.Millisecond)
				lerr, lcerr := doOp(client, bctx, st.Table, opSpec{Kind: "get", Key: evid.B(q.Start), Marker: ev.Marker2})
				cl.Lock()
				cl.MetaHoldPrefix = nil
				cl.Unlock()
				<-done
				// the merged region is in the client's cache from the moment hbase:meta answered the neighbour's lookup
				// (the evicted region's waiters are woken right then, before the neighbour's own request is through)
				learnedAt := cl.Now()
				qKey := gohbase.VerifCreateRegionSearchKey([]byte(st.Table), q.Start)
				execs0, _, _ := cl.Snapshot()
				for _, e := range execs0[seenExecs:] {
					if e.Method == "MetaScan" && e.Executed && bytes.Equal(e.Row, qKey) {
						learnedAt = e.T
						break
					}
				}
				if lerr != nil || err != nil {
					return violp("request-failed", "step %d (evict): waiting request %v, neighbour's request %v", si, err, lerr)
				}
				if cerr != nil || lcerr != nil {
					return violp("foreign-response", "step %d (evict): %v %v", si, cerr, lcerr)
				}
				// (The waiting request may be addressed to the evicted region once more: in the code as it is, its waiters are
				// woken - through the region's establisher, whose lookup is cancelled when the region is marked dead - a few
				// instructions before the evicting lookup detaches the region's connection, and a waiter that gets in
				// between still finds that connection. C01 does not say how quickly a stale location has to be got over;
				// the general oracle bounds the arrivals at places that are not right any more.)
				_ = learnedAt
				evictSteps++
				return nil
			}(); o != nil {
				return *o
			}
			if o := checkExecs(); o != nil {
				return *o
			}
			for _, rr := range cl.TableRegions(st.Table) {
				for _, cr := range gohbase.VerifCachedRegions(client) {
					if string(cr.Name()) == string(rr.Name) {
						touched[string(rr.Name)] = true
					}
				}
			}
			continue
		}
		if b := st.Busy; b != nil && exists[st.Table] {
			// (a step of its own)
			if o := func() *Outcome {
				bctx, cancel := context.WithTimeout(context.Background(), 3*time.Minute)
				defer cancel()
				cl.Lock()
				for k := 0; k < b.Count; k++ {
					cl.Script[b.Op.Marker] = append(cl.Script[b.Op.Marker], sim.Outcome{Kind: "exc", Class: b.Class, Stack: "busy"})
				}
				cl.Unlock()
				var err, cerr error
				done := make(chan struct{})
				go func() { defer close(done); err, cerr = doOp(client, bctx, st.Table, b.Op) }()
				time.Sleep(20 * time.Millisecond)
				// (what arrived so far is judged by the layout as it was so far)
				if o := checkExecsSkipping(b.Class); o != nil {
					return o
				}
				before := relayouts
				applyRelayout(&b.Relayout, st.Table, si, cl.Owner(st.Table, b.Op.Key))
				time.Sleep(time.Millisecond)
				lerr, lcerr := doOp(client, bctx, st.Table, b.Learner)
				learnedAt := cl.Now()
				<-done
				if lerr != nil || err != nil {
					return violp("request-failed", "step %d (busy): request %v, learner %v", si, err, lerr)
				}
				if cerr != nil || lcerr != nil {
					return violp("foreign-response", "step %d (busy): %v %v", si, cerr, lcerr)
				}
				if relayouts > before {
					// from learnedAt on the client's own cache names the new location of the row
					execs, _, _ := cl.Snapshot()
					for _, e := range execs[seenExecs:] {
						if e.Marker == b.Op.Marker && !e.Executed && e.Result == "nsre" && e.T > learnedAt+5*time.Millisecond {
							return violp("stale-location-although-known", "step %d: request %s (row %q) was told %s %d time(s); meanwhile its region was replaced and another request for the same row was served at the new location by %v; yet its next attempt, at %v, went to %s naming region %q",
								si, b.Op.Marker, b.Op.Key, b.Class, b.Count, learnedAt, e.T, e.Addr, e.Region)
						}
					}
					knewBetter++
				}
				return nil
			}(); o != nil {
				return *o
			}
			// (scripted refusals are attempts that were not executed: not misrouting)
			if o := checkExecsSkipping(b.Class); o != nil {
				return *o
			}
			touched[string(cl.Owner(st.Table, b.Op.Key).Name)] = true
			continue
		}
		ops := st.Batch
		if st.Op != nil {
			ops = []opSpec{*st.Op}
		}
		if len(st.Concurrent) > 0 {
			ops = st.Concurrent
		}
		newRegions := map[string]bool{}
		for _, op := range ops {
			if r := cl.Owner(st.Table, op.Key); r != nil && !touched[string(r.Name)] {
				newRegions[string(r.Name)] = true
			}
			for _, tb := range c.Tables {
				for _, b := range tb.Bounds {
					if len(op.Key) >= len(b)-1 && len(op.Key) <= len(b)+1 {
						boundaryKeys++
					}
				}
			}
		}
		cl.Lock()
		meta0 := cl.MetaScans
		cl.Unlock()
		ctx := context.Background()
		if relayouts > 0 {
			// (a request that is never addressed correctly again must end the case, not hang it)
			var cancel context.CancelFunc
			ctx, cancel = context.WithTimeout(ctx, 3*time.Minute)
			defer cancel()
		}
		stepViol := func() *Outcome {
			if st.Op != nil {
				err, cerr := doOp(client, ctx, st.Table, *st.Op)
				if !exists[st.Table] {
					if !errors.Is(err, gohbase.TableNotFound) {
						return violp("unknown-table", "step %d: %s on table %q (which does not exist; its neighbours do) returned %v, expected TableNotFound", si, st.Op.Kind, st.Table, err)
					}
					unknownLookups++
				} else if err != nil {
					return violp("request-failed", "step %d: %s row %q on %q: %v", si, st.Op.Kind, st.Op.Key, st.Table, err)
				} else if cerr != nil {
					return violp("foreign-response", "step %d: %v", si, cerr)
				}
			} else if len(st.Concurrent) > 0 {
				concurrentSteps++
				errs := make([]error, len(st.Concurrent))
				cerrs := make([]error, len(st.Concurrent))
				var wg sync.WaitGroup
				start := make(chan struct{})
				for i, op := range st.Concurrent {
					wg.Add(1)
					go func(i int, op opSpec) {
						defer wg.Done()
						<-start
						errs[i], cerrs[i] = doOp(client, ctx, st.Table, op)
					}(i, op)
				}
				close(start)
				wg.Wait()
				for i, op := range st.Concurrent {
					if !exists[st.Table] {
						if !errors.Is(errs[i], gohbase.TableNotFound) {
							return violp("unknown-table", "step %d: concurrent %s on missing table %q returned %v", si, op.Kind, st.Table, errs[i])
						}
						continue
					}
					if errs[i] != nil {
						return violp("request-failed", "step %d: concurrent %s row %q on %q: %v", si, op.Kind, op.Key, st.Table, errs[i])
					}
					if cerrs[i] != nil {
						return violp("foreign-response", "step %d: %v", si, cerrs[i])
					}
				}
			} else {
				var calls []hrpc.Call
				for _, op := range st.Batch {
					call, err := buildCall(ctx, st.Table, op)
					if err != nil {
						return violp("harness", "buildCall: %v", err)
					}
					calls = append(calls, call)
				}
				rs, _ := client.SendBatch(ctx, calls)
				for i, op := range st.Batch {
					if !exists[st.Table] {
						if rs[i].Error == nil {
							return violp("unknown-table", "step %d: batch call on missing table %q succeeded", si, st.Table)
						}
						continue
					}
					if rs[i].Error != nil {
						return violp("request-failed", "step %d: batch call %d (%s row %q): %v", si, i, op.Kind, op.Key, rs[i].Error)
					}
					if err := checkOpResult(op, rs[i].Msg); err != nil {
						return violp("foreign-response", "step %d: batch call %d: %v", si, i, err)
					}
				}
			}
			return nil
		}()
		if o := checkExecs(); o != nil {
			return *o
		}
		if stepViol != nil {
			return *stepViol
		}
		cl.Lock()
		meta1 := cl.MetaScans
		cl.Unlock()
		if exists[st.Table] {
			// static layout, sequential steps: exactly one meta lookup per region first touched,
			// none for keys inside known regions
			if got, want := meta1-meta0, len(newRegions); relayouts > 0 {
				// locations that went stale cost one lookup each when they are found out (and that lookup may
				// bring a region the step did not ask for into the cache): an upper bound is what remains
				if got > want+staleTouched && len(st.Concurrent) == 0 {
					return viol("meta-lookups", "step %d on %q: %d meta lookup(s) for %d region(s) touched for the first time and %d cached location(s) invalidated so far; requests seen, most recent first:\n%s", si, st.Table, got, want, staleTouched, cl.RecentExecs(16))
				}
			} else if got != want && len(st.Concurrent) == 0 {
				return viol("meta-lookups", "step %d on %q: %d meta lookup(s), but %d region(s) were touched for the first time (keys inside known regions must come from the cache, others from hbase:meta)", si, st.Table, got, want)
			}
		}
		for n := range newRegions {
			touched[n] = true
		}
	}
	if n, err := recheckRetained(); err != nil {
		return viol("result-changed-later", "%v (%d results retained; snappy=%v)", err, n, c.Snappy)
	}
	if o := checkExecs(); o != nil {
		return *o
	}
	out.NonTrivial = (multiRegion || len(c.Tables) > 1) && boundaryKeys > 0
	if unknownLookups > 0 {
		out.Labels = append(out.Labels, "unknown_table_lookup")
	}
	if concurrentSteps > 0 {
		out.Labels = append(out.Labels, "concurrent_first_touches")
	}
	if relayouts > 0 {
		out.Labels = append(out.Labels, "layout_changed_under_a_warm_cache")
	}
	if knewBetter > 0 {
		out.Labels = append(out.Labels, "layout_changed_while_a_request_was_backing_off")
	}
	if evictSteps > 0 {
		out.Labels = append(out.Labels, "region_evicted_by_a_neighbours_lookup_while_requests_wait_for_it")
	}
	n := 0
	for _, k := range staleArrivals {
		n += k
	}
	if n > 0 {
		out.Labels = append(out.Labels, "stale_location_found_out")
	}
	if multiRegion {
		out.Labels = append(out.Labels, "multi_region")
	}
	if len(c.Tables) > 1 {
		out.Labels = append(out.Labels, "sibling_tables")
	}
	return out
}

func violp(sig, format string, a ...any) *Outcome {
	o := viol(sig, format, a...)
	return &o
}

func tableOfRegion(name string) string {
	for i := 0; i < len(name); i++ {
		if name[i] == ',' {
			return name[:i]
		}
	}
	return name
}

func c01bGen(t *rapid.T) c01bCase {
	var c c01bCase
	c.NServers = rapid.IntRange(1, 4).Draw(t, "nservers")
	c.Queue = rapid.SampledFrom([]int{1, 2, 8, 100}).Draw(t, "queue")
	c.FlushMS = rapid.SampledFrom([]int{0, 1}).Draw(t, "flush")
	c.Snappy = rapid.IntRange(0, 3).Draw(t, "snappy") == 0
	family := []string{"t", "t-", "t.", "t0", "tt", "ns:t", "ns:t-", "s", "ns:tt", "ns:at", "ns:ta", "at", "n:t"}
	nt := rapid.IntRange(1, 4).Draw(t, "ntables")
	used := map[string]bool{}
	for i := 0; i < nt; i++ {
		name := rapid.SampledFrom(family).Draw(t, "tname")
		if used[name] {
			continue
		}
		used[name] = true
		tb := c01bTable{Name: name, MD5: rapid.Bool().Draw(t, "md5")}
		for _, b := range gen.Boundaries(t, 5, 4) {
			tb.Bounds = append(tb.Bounds, b)
		}
		c.Tables = append(c.Tables, tb)
	}
	n := 0
	ns := rapid.IntRange(1, 40).Draw(t, "nsteps")
	kinds := []string{"get", "get", "put", "del", "app", "inc", "cas"}
	for i := 0; i < ns; i++ {
		tb := c.Tables[rapid.IntRange(0, len(c.Tables)-1).Draw(t, "tb")]
		l := layoutSpec{Table: tb.Name, Bounds: tb.Bounds}
		st := c01bStep{Table: tb.Name}
		if rapid.IntRange(0, 11).Draw(t, "unknown") == 0 {
			// a table that does not exist but whose name is a neighbour of existing ones
			var unusedNames []string
			for _, cand := range family {
				if !used[cand] {
					unusedNames = append(unusedNames, cand)
				}
			}
			if len(unusedNames) > 0 {
				st.Table = rapid.SampledFrom(unusedNames).Draw(t, "unknowntable")
			}
		}
		if rapid.IntRange(0, 4).Draw(t, "conc") == 0 {
			nb := rapid.IntRange(2, 8).Draw(t, "nconc")
			for k := 0; k < nb; k++ {
				op := genOp(t, l, kinds, &n)
				op.SkipBatch = op.Kind != "cas" && rapid.IntRange(0, 3).Draw(t, "skipbatch") == 0
				st.Concurrent = append(st.Concurrent, op)
			}
		} else if rapid.IntRange(0, 3).Draw(t, "batch") == 0 {
			nb := rapid.IntRange(1, 8).Draw(t, "nb")
			for k := 0; k < nb; k++ {
				st.Batch = append(st.Batch, genOp(t, l, []string{"get", "put", "del", "app", "inc"}, &n))
			}
		} else {
			op := genOp(t, l, kinds, &n)
			op.SkipBatch = op.Kind != "cas" && rapid.IntRange(0, 3).Draw(t, "skipbatch") == 0
			st.Op = &op
		}
		if i > 0 && rapid.IntRange(0, 9).Draw(t, "busy") == 0 {
			op := genOp(t, l, []string{"get", "put", "inc"}, &n)
			op.SkipBatch = rapid.Bool().Draw(t, "busyskip")
			n++
			st = c01bStep{Table: tb.Name, Busy: &c01bBusy{Op: op, Count: rapid.IntRange(4, 6).Draw(t, "busycount"),
				Class:   rapid.SampledFrom([]string{sim.TooBusy, sim.CallQueueBig, sim.Throttling, sim.RegionOpening}).Draw(t, "busyclass"),
				Learner: opSpec{Kind: "get", Key: op.Key, Marker: fmt.Sprintf("mk%d", n)},
				Relayout: c01bRelayout{Kind: rapid.SampledFrom([]string{"split", "merge", "move"}).Draw(t, "brlkind"), At: rapid.SliceOfN(rapid.Byte(), 1, 3).Draw(t, "brlat"),
					Server: rapid.IntRange(0, 3).Draw(t, "brlserver"), Server2: rapid.IntRange(0, 3).Draw(t, "brlserver2")}}}
			c.Steps = append(c.Steps, st)
			continue
		}
		if i > 0 && rapid.IntRange(0, 11).Draw(t, "evict") == 0 {
			n += 3
			c.Steps = append(c.Steps, c01bStep{Table: tb.Name, Evict: &c01bEvict{Region: rapid.IntRange(0, 7).Draw(t, "evregion"), Server: rapid.IntRange(0, 3).Draw(t, "evserver"),
				Marker: fmt.Sprintf("mk%d", n-2), Marker2: fmt.Sprintf("mk%d", n-1), Marker3: fmt.Sprintf("mk%d", n)}})
			continue
		}
		if i > 0 && rapid.IntRange(0, 7).Draw(t, "relayout") == 0 {
			st.Relayout = &c01bRelayout{Kind: rapid.SampledFrom([]string{"split", "split", "merge", "move"}).Draw(t, "rlkind"),
				Region: rapid.IntRange(0, 7).Draw(t, "rlregion"), At: rapid.SliceOfN(rapid.Byte(), 1, 3).Draw(t, "rlat"),
				Server: rapid.IntRange(0, 3).Draw(t, "rlserver"), Server2: rapid.IntRange(0, 3).Draw(t, "rlserver2")}
		}
		c.Steps = append(c.Steps, st)
	}
	return c
}

func TestC01_EndToEnd(t *testing.T) {
	theT = t
	rec := evid.New("C01", "TestC01_EndToEnd",
		"rapid, virtual time: 1..4 prefix-related tables (t, t-, t., t0, tt, ns:t, ns:t-, s) with 1..6 regions each on "+
			"1..4 simulated servers and a sequence of 1..40 operations (get, put, delete, append, increment, "+
			"check-and-put, SendBatch of 1..8, or 2..8 single operations issued concurrently; table names passed as slices with spare capacity shared by all calls) on keys constructed around the region boundaries, plus operations on a "+
			"neighbouring table name that does not exist; single calls optionally un-batched (SkipBatch); between steps the "+
			"layout may change (split at a drawn key, merge of two neighbours, move to another server) under the warm cache: "+
			"a request may then arrive (a few times) at a location that used to be right, afterwards it must name the owning region at its server; "+
			"or a request is told to retry later 4..6 times and, while it sleeps, its region is replaced and another request for the row is served at the new place: its next attempt must not go to the old one; "+
			"queue size / flush interval / snappy drawn; the cache starts "+
			"cold and warms up as regions are touched. Oracle at the servers: every request frame and every action of "+
			"every multi-request names the region that owns its row and arrives at the server hosting it (a static "+
			"layout: anything answered NotServing / WrongRegion is misrouted); every operation returns the key-derived "+
			"value; per sequential step the number of hbase:meta lookups equals the number of regions touched for the "+
			"first time; a missing table yields TableNotFound, never a request to a neighbour. Non-trivial = >= 2 "+
			"regions or tables and keys of boundary length; distinct by case hash")
	Drive(t, rec, true, c01bGen, c01bRun)
}
