package props

import (
	"context"
	"fmt"
	"runtime"
	"sync"
	"testing"
	"testing/synctest"
	"time"

	"github.com/tsuna/gohbase/hrpc"

	"github.com/tsuna/gohbase"
	"pgregory.net/rapid"

	"verifharness/evid"
	"verifharness/memconn"
	"verifharness/sim"
)

type c20Use struct {
	Table string `json:"table"`
	Op    opSpec `json:"op"`
}

type c20Phase struct {
	Uses []c20Use `json:"uses"` // issued concurrently at the same virtual instant
	// CacheRegions warms the cache for the table before the uses
	CacheRegions string `json:"cache_regions,omitempty"`
	// Fault after the phase: "" | reset | silent | fatal | multistop | actionstop, on server index FaultServer
	Fault       string `json:"fault,omitempty"`
	FaultServer int    `json:"fault_server,omitempty"`
	// Change of the layout after the phase (connections stay healthy): "" | split | merge | move
	Change       string `json:"change,omitempty"`
	ChangeRegion int    `json:"change_region,omitempty"`
	ChangeServer int    `json:"change_server,omitempty"`
	// for Change == "transient": the region answers its next ChangeCount requests (the probe, if it
	// is not established yet) with this retryable / not-serving exception; its server stays healthy
	ChangeClass string `json:"change_class,omitempty"`
	ChangeCount int    `json:"change_count,omitempty"`
	// LateBatch: a SendBatch spanning two servers is in flight; the connection to one of
	// them breaks and other traffic fails over first; only then does the batch get to see
	// the errors of its calls on the old connection.
	LateBatch bool `json:"late_batch,omitempty"`
	// DuringDial: two not yet used neighbouring regions are moved to a server the client has no
	// connection to; both are used at once while that server's dial is held; meanwhile the second one is
	// merged with its (unknown) successor and a request for the successor's range makes the client learn
	// the merged region (the second region is dead now, its establisher still waits for the dial); then
	// the dial completes.
	DuringDial bool `json:"during_dial,omitempty"`
	// DialerDies: of the two regions used at once, the one that is merged away is the one that got to dial;
	// LateDial: the held dial does not notice a cancellation any more, it completes with a good connection
	DialerDies bool `json:"dialer_dies,omitempty"`
	LateDial   bool `json:"late_dial,omitempty"`
	// MetaSlowMS > 0: while this phase's requests are issued hbase:meta does not answer for that long (longer
	// than the lookup time-out): lookups are given up and repeated - on a connection that is perfectly healthy
	MetaSlowMS int `json:"meta_slow_ms,omitempty"`
}

type c20Case struct {
	Layout  layoutSpec `json:"layout"`
	Phases  []c20Phase `json:"phases"`
	Queue   int        `json:"queue"`
	FlushMS int        `json:"flush_ms"`
}

func c20Run(c c20Case) Outcome {
	var o Outcome
	res := inBubble(theT, func() { o = c20RunInBubble(c) })
	if o, stuck := stuckVerdict(res); stuck {
		return o
	}
	if res.Panic != "" {
		return viol("panic@"+topFrame(res.Stack), "%s\n%s", res.Panic, res.Stack)
	}
	if res.Deadlock != "" && o.Sig == "" && !exitLeak(res.Deadlock) {
		return viol("deadlock", "bubble deadlocked: %s\n%s", res.Deadlock, bubbleStacks(res.Stack))
	}
	return o
}

func c20RunInBubble(c c20Case) (out Outcome) {
	cl := c.Layout.build()
	addrs := c.Layout.addrs()
	for _, ph := range c.Phases {
		if ph.Fault == "busygiveup" {
			// small pipes: a server that stops reading blocks the connection's writer at once
			cl.ConnOptions = func(addr string, k int) memconn.Options { return memconn.Options{Cap: 16} }
		}
	}
	readTimeout := 2 * time.Second
	for _, ph := range c.Phases {
		if ph.MetaSlowMS > 0 {
			// (a slow answer must not look like a silent server to the connection)
			readTimeout = 5 * time.Minute
		}
	}
	client := newSimClient(cl, gohbase.RpcQueueSize(c.Queue), gohbase.FlushInterval(time.Duration(c.FlushMS)*time.Millisecond),
		gohbase.RegionReadTimeout(readTimeout))
	defer func() {
		client.Close()
		drainClient()
		cl.Stop()
	}()
	anyFault := false
	slowLookups := false
	layoutChanged := false
	busyRegions := false
	concurrentFirst := false
	reuseAfterFailure := false
	busyGiveUp := false
	usedRegions := map[string]bool{}
	for pi, ph := range c.Phases {
		if ph.CacheRegions != "" {
			if err := client.CacheRegions([]byte(ph.CacheRegions)); err != nil {
				return viol("cache-regions-failed", "CacheRegions(%q): %v", ph.CacheRegions, err)
			}
		}
		// how many distinct, not yet used regions of one server are first used now
		perServer := map[string]int{}
		for _, u := range ph.Uses {
			if r := cl.Owner(u.Table, u.Op.Key); r != nil && !usedRegions[string(r.Name)] {
				usedRegions[string(r.Name)] = true
				perServer[r.Addr]++
			}
		}
		for _, n := range perServer {
			if n >= 2 {
				concurrentFirst = true
			}
		}
		if anyFault && len(ph.Uses) > 0 {
			reuseAfterFailure = true
		}
		if ph.MetaSlowMS > 0 {
			cl.Lock()
			cl.MetaHold = true
			m0 := cl.MetaScans
			cl.Unlock()
			hold := time.Duration(ph.MetaSlowMS) * time.Millisecond
			go func() {
				time.Sleep(hold)
				cl.Lock()
				cl.MetaHold = false
				if cl.MetaScans > m0 {
					slowLookups = true
				}
				cl.Unlock()
			}()
		}
		var wg sync.WaitGroup
		var mu sync.Mutex
		var firstErr error
		for _, u := range ph.Uses {
			wg.Add(1)
			go func(u c20Use) {
				defer wg.Done()
				err, cerr := doOp(client, context.Background(), u.Table, u.Op)
				mu.Lock()
				if firstErr == nil {
					if err != nil {
						firstErr = fmt.Errorf("call %s on %s: %v", u.Op.Marker, u.Table, err)
					} else if cerr != nil {
						firstErr = cerr
					}
				}
				mu.Unlock()
			}(u)
		}
		done := make(chan struct{})
		go func() { wg.Wait(); close(done) }()
		if !waitOrHorizon(done, 10*time.Minute) {
			return viol("request-stuck", "phase %d: requests still blocked after 10 virtual minutes", pi)
		}
		if firstErr != nil {
			return viol("request-failed", "phase %d: %v", pi, firstErr)
		}
		if ph.LateBatch {
			if o := c20LateBatch(cl, client, c.Layout.Table, pi); o != nil {
				return *o
			}
			anyFault = true
		}
		if ph.DuringDial {
			did, o := c20DuringDial(cl, client, c.Layout.Table, addrs, usedRegions, pi, ph)
			if o != nil {
				return *o
			}
			if did {
				layoutChanged = true
				out.Labels = append(out.Labels, "region_died_while_its_dial_was_held")
			}
		}
		addr := addrs[((ph.FaultServer%len(addrs))+len(addrs))%len(addrs)]
		switch ph.Fault {
		case "reset":
			if cl.KillConns(addr) > 0 {
				anyFault = true
			}
		case "silent":
			// the server stops answering for longer than the read timeout, then recovers
			cl.SetServer(addr, func(s *sim.ServerState) { s.Silent = true })
			anyFault = true
			// provoke the timeout with a request to that server, if it hosts anything
			for _, r := range cl.TableRegions(c.Layout.Table) {
				if r.Addr == addr {
					go doOp(client, context.Background(), c.Layout.Table, opSpec{Kind: "get", Key: r.Start, Marker: fmt.Sprintf("mksil%d", pi)})
					break
				}
			}
			time.Sleep(readTimeout + 500*time.Millisecond)
			cl.SetServer(addr, func(s *sim.ServerState) { s.Silent = false })
		case "multistop":
			// the regions of that server answer their next multi-request with a region-level
			// RegionServerStoppedException; the connection itself stays up
			n := 0
			cl.Lock()
			for _, r := range cl.Regions {
				if r.Addr == addr && r.Table == c.Layout.Table {
					r.MultiExc = append(r.MultiExc, sim.Exc{Class: sim.RSStopped, Stack: sim.RSStopped + ": Server is stopping"})
					n++
				}
			}
			cl.Unlock()
			if n > 0 {
				anyFault = true
				for _, r := range cl.TableRegions(c.Layout.Table) {
					if r.Addr == addr {
						go doOp(client, context.Background(), c.Layout.Table, opSpec{Kind: "put", Key: r.Start, Marker: fmt.Sprintf("mkms%d", pi)})
						break
					}
				}
				time.Sleep(50 * time.Millisecond)
			}
		case "actionstop":
			// a batch of two calls for one region of that server: the first is refused with an application
			// exception, the second with RegionServerStoppedException - as results of single actions of one
			// multi-response; the connection itself stays up
			for _, r := range cl.TableRegions(c.Layout.Table) {
				if r.Addr != addr {
					continue
				}
				ma, mb := fmt.Sprintf("mkas%da", pi), fmt.Sprintf("mkas%db", pi)
				cl.Lock()
				cl.Script[ma] = []sim.Outcome{{Kind: "exc", Class: appExc, Stack: "no such column family"}}
				cl.Script[mb] = []sim.Outcome{{Kind: "exc", Class: sim.RSStopped, Stack: "Server is stopping"}, {Kind: "ok"}}
				cl.Unlock()
				ca, _ := buildCall(context.Background(), c.Layout.Table, opSpec{Kind: "put", Key: r.Start, Marker: ma})
				cb, _ := buildCall(context.Background(), c.Layout.Table, opSpec{Kind: "put", Key: r.Start, Marker: mb})
				go client.SendBatch(context.Background(), []hrpc.Call{ca, cb})
				anyFault = true
				time.Sleep(50 * time.Millisecond)
				break
			}
		case "busygiveup":
			// the server stops reading for a moment: its connection's batching goroutine blocks in Write, the send
			// queue fills up, and a batch with a deadline gives up waiting for room in it. Nothing is wrong with the
			// connection: once the server reads again everything is served over it
			var onAddr []*sim.Region
			for _, r := range cl.TableRegions(c.Layout.Table) {
				if r.Addr == addr && usedRegions[string(r.Name)] {
					onAddr = append(onAddr, r)
				}
			}
			// (only on a settled client: a region still being established would send its probe - an unbatched write -
			// into the stalled connection and queue on the write lock behind the blocked writer, which freezes the
			// bubble's clock)
			settled := !anyFault && !layoutChanged
			for _, r := range gohbase.VerifCachedRegions(client) {
				if r.IsUnavailable() || r.Client() == nil {
					settled = false
				}
			}
			if c.Queue < 2 || len(onAddr) == 0 || cl.MetaAddr == addr || !settled {
				break
			}
			cl.SetServer(addr, func(s *sim.ServerState) { s.Stall = true })
			var fillers sync.WaitGroup
			for i := 0; i < 3; i++ {
				mk := fmt.Sprintf("mkfill%d_%d", pi, i)
				fillers.Add(1)
				go func() {
					defer fillers.Done()
					p, _ := hrpc.NewPut(context.Background(), []byte(c.Layout.Table), onAddr[0].Start, map[string]map[string][]byte{"f": {mk: make([]byte, 200)}})
					client.Put(p)
				}()
				time.Sleep(time.Duration(c.FlushMS+1) * time.Millisecond)
				synctest.Wait()
			}
			gctx, gcancel := context.WithTimeout(context.Background(), 100*time.Millisecond)
			gp, _ := hrpc.NewPut(gctx, []byte(c.Layout.Table), onAddr[len(onAddr)-1].Start, map[string]map[string][]byte{"f": {fmt.Sprintf("mkgiveup%d", pi): []byte("v")}})
			gres, gok := client.SendBatch(gctx, []hrpc.Call{gp})
			gcancel()
			cl.SetServer(addr, func(s *sim.ServerState) { s.Stall = false })
			fillers.Wait()
			synctest.Wait()
			if gok || gres[0].Error == nil {
				// (the queue was not full after all: nothing was given up)
				break
			}
			out.Labels = append(out.Labels, "batch_gave_up_on_a_busy_connection")
			busyGiveUp = true
			_ = busyGiveUp
		case "fatal":
			cl.SetServer(addr, func(s *sim.ServerState) { s.Fatal = sim.RSStopped })
			anyFault = true
			for _, r := range cl.TableRegions(c.Layout.Table) {
				if r.Addr == addr {
					go doOp(client, context.Background(), c.Layout.Table, opSpec{Kind: "get", Key: r.Start, Marker: fmt.Sprintf("mkfat%d", pi)})
					break
				}
			}
			time.Sleep(50 * time.Millisecond)
			cl.SetServer(addr, func(s *sim.ServerState) { s.Fatal = "" })
		}
		if ph.Change != "" {
			c04Apply(cl, c.Layout.Table, addrs, c04Event{Kind: ph.Change, Region: ph.ChangeRegion, Server: ph.ChangeServer, Class: ph.ChangeClass, Count: ph.ChangeCount}, 50+pi)
			if ph.Change == "transient" {
				busyRegions = true
			} else {
				layoutChanged = true
			}
		}
		time.Sleep(time.Duration(1+pi) * 10 * time.Millisecond)
	}
	time.Sleep(2 * time.Minute) // let stragglers (provoking requests, re-establishments) finish
	_, dials, problems := cl.Snapshot()
	if len(problems) > 0 {
		return viol("wire-problem", "servers saw malformed or misrouted traffic: %v", problems)
	}
	okDials := map[string]int{}
	closedAt := cl.ClientCloseTimes()
	connAddr := cl.ConnAddrs()
	for _, d := range dials {
		if d.Result != "ok" {
			continue
		}
		okDials[d.Addr]++
		// every earlier connection to this address must have been given up by the client
		// by the (virtual) instant of this dial
		for id, a := range connAddr {
			if a != d.Addr || id >= d.Conn {
				continue
			}
			if t, ok := closedAt[id]; !ok || t > d.T {
				return viol("second-connection", "server %s was dialled at %v (connection %d, dial #%d to that address) while the client still held connection %d to it (closed: %v at %v)", d.Addr, d.T, d.Conn, okDials[d.Addr], id, ok, t)
			}
		}
	}
	if layoutChanged {
		out.Labels = append(out.Labels, "layout_changed")
	}
	cl.Lock()
	if slowLookups {
		out.Labels = append(out.Labels, "lookups_timed_out_on_a_healthy_connection")
	}
	cl.Unlock()
	if !anyFault {
		for addr, n := range okDials {
			if n > 1 {
				return viol("redundant-dial", "server %s was dialled %d times although no connection ever failed", addr, n)
			}
		}
	}
	out.NonTrivial = concurrentFirst || reuseAfterFailure || layoutChanged || busyRegions
	if busyRegions {
		out.Labels = append(out.Labels, "region_answers_retryable_exceptions")
	}
	if concurrentFirst {
		out.Labels = append(out.Labels, "concurrent_first_use")
	}
	if reuseAfterFailure {
		out.Labels = append(out.Labels, "reuse_after_failure")
	}
	if !anyFault {
		out.Labels = append(out.Labels, "no_failure")
	}
	return out
}

func c20Gen(t *rapid.T) c20Case {
	var c c20Case
	c.Layout = genLayout(t, 12, 4)
	c.Layout.Siblings = []string{"t", "t-", "tt", "s"}
	c.Queue = rapid.SampledFrom([]int{1, 2, 100}).Draw(t, "queue")
	c.FlushMS = rapid.SampledFrom([]int{0, 1, 20}).Draw(t, "flush")
	tables := append([]string{c.Layout.Table}, "t", "t-", "tt", "s")
	n := 0
	np := rapid.IntRange(1, 4).Draw(t, "nphases")
	for p := 0; p < np; p++ {
		var ph c20Phase
		nu := rapid.IntRange(1, 12).Draw(t, "nuses")
		if rapid.IntRange(0, 5).Draw(t, "many") == 0 {
			nu = rapid.IntRange(13, 32).Draw(t, "nuses2")
		}
		for i := 0; i < nu; i++ {
			tb := c.Layout.Table
			if rapid.IntRange(0, 3).Draw(t, "sibling") == 0 {
				tb = rapid.SampledFrom(tables).Draw(t, "tb")
			}
			ph.Uses = append(ph.Uses, c20Use{Table: tb, Op: genOp(t, c.Layout, []string{"get", "put"}, &n)})
		}
		if rapid.IntRange(0, 4).Draw(t, "cache") == 0 {
			ph.CacheRegions = c.Layout.Table
		}
		ph.Fault = rapid.SampledFrom([]string{"", "", "", "reset", "silent", "fatal", "multistop", "actionstop", "busygiveup"}).Draw(t, "fault")
		ph.FaultServer = rapid.IntRange(0, 3).Draw(t, "faultserver")
		if rapid.IntRange(0, 5).Draw(t, "metaslow") == 0 {
			ph.MetaSlowMS = rapid.SampledFrom([]int{30500, 31000, 45000, 70000}).Draw(t, "metaslowms")
		}
		ph.LateBatch = rapid.IntRange(0, 3).Draw(t, "latebatch") == 0
		ph.DuringDial = rapid.IntRange(0, 3).Draw(t, "duringdial") == 0
		if ph.DuringDial {
			ph.DialerDies = rapid.Bool().Draw(t, "dialerdies")
			ph.LateDial = rapid.Bool().Draw(t, "latedial")
		}
		ph.Change = rapid.SampledFrom([]string{"", "", "split", "merge", "move", "transient"}).Draw(t, "change")
		if ph.Change == "transient" {
			ph.ChangeClass = rapid.SampledFrom(c04TransientClasses).Draw(t, "class")
			ph.ChangeCount = rapid.IntRange(1, 3).Draw(t, "count")
		}
		ph.ChangeRegion = rapid.IntRange(0, 11).Draw(t, "changeregion")
		ph.ChangeServer = rapid.IntRange(0, 3).Draw(t, "changeserver")
		c.Phases = append(c.Phases, ph)
	}
	return c
}

func TestC20_OneConnection(t *testing.T) {
	theT = t
	rec := evid.New("C20", "TestC20_OneConnection",
		"rapid, virtual time: 1..4 simulated servers hosting 1..12 regions of one table plus single-region sibling "+
			"tables (hbase:meta co-located on the first server); 1..4 phases in each of which 1..32 callers use regions "+
			"concurrently at the same virtual instant (first uses of several regions of one server, later discoveries, "+
			"optional CacheRegions warm-up), followed by an optional connection failure (reset, silence past the read "+
			"timeout, server-stopped exception + drop) and an optional change that leaves connections healthy (split, merge, move, "+
			"or a region answering its next 1..3 requests - the probe included - with a retryable / not-serving exception). Oracle on the servers' dial log: every successful dial to an "+
			"address finds no earlier connection to that address still open on the client side, and without failures "+
			"each address is dialled exactly once; all requests succeed. Non-trivial = >= 2 regions of one server first "+
			"used concurrently, or a failure followed by reuse; distinct by case hash")
	Drive(t, rec, true, c20Gen, c20Run)
}

// c20DuringDial plays the schedule described at c20Phase.DuringDial. No virtual time may pass and no
// synctest.Wait may be used while the dial is held: establishers queue on the region client's dial-once
// lock, which is not a durable block.
func c20DuringDial(cl *sim.Cluster, client gohbase.Client, table string, addrs []string, used map[string]bool, pi int, ph c20Phase) (bool, *Outcome) {
	if len(addrs) < 2 {
		return false, nil
	}
	_, dials, _ := cl.Snapshot()
	dialled := map[string]bool{}
	for _, d := range dials {
		dialled[d.Addr] = true
	}
	target := ""
	for _, a := range addrs[1:] { // (not the server of hbase:meta)
		if !dialled[a] {
			target = a
			break
		}
	}
	regs := cl.TableRegions(table)
	i := -1
	for k := 0; k+2 < len(regs); k++ {
		if !used[string(regs[k].Name)] && !used[string(regs[k+1].Name)] && !used[string(regs[k+2].Name)] {
			i = k
			break
		}
	}
	if target == "" || i < 0 {
		return false, nil
	}
	ra, rb, rc := regs[i], regs[i+1], regs[i+2]
	cl.Move(ra, target)
	cl.Move(rb, target)
	for _, r := range []*sim.Region{ra, rb, rc} {
		used[string(r.Name)] = true
	}
	cl.SetServer(target, func(s *sim.ServerState) { s.DialHold, s.DialLate = true, ph.LateDial })
	defer cl.SetServer(target, func(s *sim.ServerState) { s.DialLate = false })
	mk := func(x string) string { return fmt.Sprintf("mkdd%d%s", pi, x) }
	var wg sync.WaitGroup
	errs := make([]error, 3)
	use := func(k int, key []byte, m string) {
		wg.Add(1)
		go func() {
			defer wg.Done()
			err, cerr := doOp(client, context.Background(), table, opSpec{Kind: "get", Key: key, Marker: m})
			if err == nil {
				err = cerr
			}
			errs[k] = err
		}()
	}
	keyC := append([]byte(nil), rc.Start...)
	if ph.DialerDies {
		// the region that will be merged away goes first: it is the one that carries out the dial
		use(1, rb.Start, mk("b"))
		select {
		case <-cl.DialHeld:
			cl.DialHeld <- struct{}{}
		case <-time.After(time.Minute):
		}
		use(0, ra.Start, mk("a"))
	} else {
		use(0, ra.Start, mk("a"))
		use(1, rb.Start, mk("b"))
	}
	select {
	case <-cl.DialHeld:
	case <-time.After(time.Minute):
		cl.SetServer(target, func(s *sim.ServerState) { s.DialHold = false })
		wg.Wait()
		return false, nil
	}
	// (let the second establisher reach the held dial too, without the clock)
	for k := 0; k < 3000; k++ {
		runtime.Gosched()
	}
	cl.Lock()
	before := cl.MetaScans
	cl.Unlock()
	cl.Merge(rb, rc, uint64(5000+10*(50+pi)-5), target) // (region ids grow with time: below the id of this phase's own change)
	use(2, keyC, mk("c"))
	for k := 0; k < 2000000; k++ {
		cl.Lock()
		n := cl.MetaScans
		cl.Unlock()
		if n > before {
			break
		}
		runtime.Gosched()
	}
	for k := 0; k < 5000; k++ {
		runtime.Gosched()
	}
	cl.SetServer(target, func(s *sim.ServerState) { s.DialHold = false })
	done := make(chan struct{})
	go func() { wg.Wait(); close(done) }()
	if !waitOrHorizon(done, 10*time.Minute) {
		o := viol("request-stuck", "during-dial phase %d: requests still blocked 10 virtual minutes after the dial completed", pi)
		return true, &o
	}
	for k, err := range errs {
		if err != nil {
			o := viol("request-failed", "during-dial phase %d: request %d: %v", pi, k, err)
			return true, &o
		}
	}
	return true, nil
}

// c20LateBatch plays the late-error schedule; returns a violation or nil.
func c20LateBatch(cl *sim.Cluster, client gohbase.Client, table string, pi int) *Outcome {
	regs := cl.TableRegions(table)
	var ra, rb *sim.Region
	for _, r := range regs {
		for _, q := range regs {
			if r.Addr != q.Addr && q.Addr != cl.MetaAddr {
				ra, rb = r, q
			}
		}
	}
	if ra == nil {
		return nil // the layout has no two servers to span
	}
	mk := func(s string) string { return fmt.Sprintf("mklate%d%s", pi, s) }
	cl.Lock()
	for _, m := range []string{mk("a"), mk("b1"), mk("b2")} {
		cl.Script[m] = []sim.Outcome{{Kind: "hold"}}
	}
	cl.Unlock()
	ctx := context.Background()
	var calls []hrpc.Call
	for _, x := range []struct {
		r *sim.Region
		m string
	}{{ra, mk("a")}, {rb, mk("b1")}, {rb, mk("b2")}} {
		call, _ := buildCall(ctx, table, opSpec{Kind: "get", Key: x.r.Start, Marker: x.m})
		calls = append(calls, call)
	}
	done := make(chan struct{})
	var results []hrpc.RPCResult
	go func() {
		defer close(done)
		results, _ = client.SendBatch(ctx, calls)
	}()
	time.Sleep(30 * time.Millisecond) // flushed and held at both servers
	synctest.Wait()
	cl.KillConns(rb.Addr)
	synctest.Wait()
	// other traffic notices the dead connection and fails over
	err, cerr := doOp(client, ctx, table, opSpec{Kind: "get", Key: rb.Start, Marker: mk("other")})
	if err != nil || cerr != nil {
		o := viol("request-failed", "late-batch phase %d: get after the connection broke: %v %v", pi, err, cerr)
		return &o
	}
	synctest.Wait()
	// now the slow server answers and the batch gets to its calls on the old connection
	for _, m := range []string{mk("a"), mk("b1"), mk("b2")} {
		cl.Release(m)
	}
	if !waitOrHorizon(done, 10*time.Minute) {
		o := viol("request-stuck", "late-batch phase %d: SendBatch did not finish", pi)
		return &o
	}
	for i, r := range results {
		if r.Error != nil {
			o := viol("request-failed", "late-batch phase %d: batch call %d: %v", pi, i, r.Error)
			return &o
		}
	}
	return nil
}
