package props

import (
	"context"
	"fmt"
	"sync"
	"testing"
	"testing/synctest"
	"time"

	"github.com/tsuna/gohbase/hrpc"

	"github.com/tsuna/gohbase"
	"pgregory.net/rapid"

	"verifharness/evid"
	"verifharness/sim"
)

type c20Use struct {
	Table string `json:"table"`
	Op    opSpec `json:"op"`
}

type c20Phase struct {
	Uses []c20Use `json:"uses"` // issued concurrently at the same virtual instant
	// CacheRegions warms the cache for the table before the uses
	CacheRegions string `json:"cache_regions,omitempty"`
	// Fault after the phase: "" | reset | silent | fatal, on server index FaultServer
	Fault       string `json:"fault,omitempty"`
	FaultServer int    `json:"fault_server,omitempty"`
	// Change of the layout after the phase (connections stay healthy): "" | split | merge | move
	Change       string `json:"change,omitempty"`
	ChangeRegion int    `json:"change_region,omitempty"`
	ChangeServer int    `json:"change_server,omitempty"`
	// for Change == "transient": the region answers its next ChangeCount requests (the probe, if it
	// is not established yet) with this retryable / not-serving exception; its server stays healthy
	ChangeClass string `json:"change_class,omitempty"`
	ChangeCount int    `json:"change_count,omitempty"`
	// LateBatch: a SendBatch spanning two servers is in flight; the connection to one of
	// them breaks and other traffic fails over first; only then does the batch get to see
	// the errors of its calls on the old connection.
	LateBatch bool `json:"late_batch,omitempty"`
}

type c20Case struct {
	Layout  layoutSpec `json:"layout"`
	Phases  []c20Phase `json:"phases"`
	Queue   int        `json:"queue"`
	FlushMS int        `json:"flush_ms"`
}

func c20Run(c c20Case) Outcome {
	var o Outcome
	res := inBubble(theT, func() { o = c20RunInBubble(c) })
	if o, stuck := stuckVerdict(res); stuck {
		return o
	}
	if res.Panic != "" {
		return viol("panic@"+topFrame(res.Stack), "%s\n%s", res.Panic, res.Stack)
	}
	if res.Deadlock != "" && o.Sig == "" && !exitLeak(res.Deadlock) {
		return viol("deadlock", "bubble deadlocked: %s\n%s", res.Deadlock, bubbleStacks(res.Stack))
	}
	return o
}

func c20RunInBubble(c c20Case) (out Outcome) {
	cl := c.Layout.build()
	addrs := c.Layout.addrs()
	client := newSimClient(cl, gohbase.RpcQueueSize(c.Queue), gohbase.FlushInterval(time.Duration(c.FlushMS)*time.Millisecond),
		gohbase.RegionReadTimeout(2*time.Second))
	defer func() {
		client.Close()
		drainClient()
		cl.Stop()
	}()
	anyFault := false
	layoutChanged := false
	busyRegions := false
	concurrentFirst := false
	reuseAfterFailure := false
	usedRegions := map[string]bool{}
	for pi, ph := range c.Phases {
		if ph.CacheRegions != "" {
			if err := client.CacheRegions([]byte(ph.CacheRegions)); err != nil {
				return viol("cache-regions-failed", "CacheRegions(%q): %v", ph.CacheRegions, err)
			}
		}
		// how many distinct, not yet used regions of one server are first used now
		perServer := map[string]int{}
		for _, u := range ph.Uses {
			if r := cl.Owner(u.Table, u.Op.Key); r != nil && !usedRegions[string(r.Name)] {
				usedRegions[string(r.Name)] = true
				perServer[r.Addr]++
			}
		}
		for _, n := range perServer {
			if n >= 2 {
				concurrentFirst = true
			}
		}
		if anyFault && len(ph.Uses) > 0 {
			reuseAfterFailure = true
		}
		var wg sync.WaitGroup
		var mu sync.Mutex
		var firstErr error
		for _, u := range ph.Uses {
			wg.Add(1)
			go func(u c20Use) {
				defer wg.Done()
				err, cerr := doOp(client, context.Background(), u.Table, u.Op)
				mu.Lock()
				if firstErr == nil {
					if err != nil {
						firstErr = fmt.Errorf("call %s on %s: %v", u.Op.Marker, u.Table, err)
					} else if cerr != nil {
						firstErr = cerr
					}
				}
				mu.Unlock()
			}(u)
		}
		done := make(chan struct{})
		go func() { wg.Wait(); close(done) }()
		if !waitOrHorizon(done, 10*time.Minute) {
			return viol("request-stuck", "phase %d: requests still blocked after 10 virtual minutes", pi)
		}
		if firstErr != nil {
			return viol("request-failed", "phase %d: %v", pi, firstErr)
		}
		if ph.LateBatch {
			if o := c20LateBatch(cl, client, c.Layout.Table, pi); o != nil {
				return *o
			}
			anyFault = true
		}
		addr := addrs[((ph.FaultServer%len(addrs))+len(addrs))%len(addrs)]
		switch ph.Fault {
		case "reset":
			if cl.KillConns(addr) > 0 {
				anyFault = true
			}
		case "silent":
			// the server stops answering for longer than the read timeout, then recovers
			cl.SetServer(addr, func(s *sim.ServerState) { s.Silent = true })
			anyFault = true
			// provoke the timeout with a request to that server, if it hosts anything
			for _, r := range cl.TableRegions(c.Layout.Table) {
				if r.Addr == addr {
					go doOp(client, context.Background(), c.Layout.Table, opSpec{Kind: "get", Key: r.Start, Marker: fmt.Sprintf("mksil%d", pi)})
					break
				}
			}
			time.Sleep(2500 * time.Millisecond)
			cl.SetServer(addr, func(s *sim.ServerState) { s.Silent = false })
		case "fatal":
			cl.SetServer(addr, func(s *sim.ServerState) { s.Fatal = sim.RSStopped })
			anyFault = true
			for _, r := range cl.TableRegions(c.Layout.Table) {
				if r.Addr == addr {
					go doOp(client, context.Background(), c.Layout.Table, opSpec{Kind: "get", Key: r.Start, Marker: fmt.Sprintf("mkfat%d", pi)})
					break
				}
			}
			time.Sleep(50 * time.Millisecond)
			cl.SetServer(addr, func(s *sim.ServerState) { s.Fatal = "" })
		}
		if ph.Change != "" {
			c04Apply(cl, c.Layout.Table, addrs, c04Event{Kind: ph.Change, Region: ph.ChangeRegion, Server: ph.ChangeServer, Class: ph.ChangeClass, Count: ph.ChangeCount}, 50+pi)
			if ph.Change == "transient" {
				busyRegions = true
			} else {
				layoutChanged = true
			}
		}
		time.Sleep(time.Duration(1+pi) * 10 * time.Millisecond)
	}
	time.Sleep(2 * time.Minute) // let stragglers (provoking requests, re-establishments) finish
	_, dials, problems := cl.Snapshot()
	if len(problems) > 0 {
		return viol("wire-problem", "servers saw malformed or misrouted traffic: %v", problems)
	}
	okDials := map[string]int{}
	closedAt := cl.ClientCloseTimes()
	connAddr := cl.ConnAddrs()
	for _, d := range dials {
		if d.Result != "ok" {
			continue
		}
		okDials[d.Addr]++
		// every earlier connection to this address must have been given up by the client
		// by the (virtual) instant of this dial
		for id, a := range connAddr {
			if a != d.Addr || id >= d.Conn {
				continue
			}
			if t, ok := closedAt[id]; !ok || t > d.T {
				return viol("second-connection", "server %s was dialled at %v (connection %d, dial #%d to that address) while the client still held connection %d to it (closed: %v at %v)", d.Addr, d.T, d.Conn, okDials[d.Addr], id, ok, t)
			}
		}
	}
	if layoutChanged {
		out.Labels = append(out.Labels, "layout_changed")
	}
	if !anyFault {
		for addr, n := range okDials {
			if n > 1 {
				return viol("redundant-dial", "server %s was dialled %d times although no connection ever failed", addr, n)
			}
		}
	}
	out.NonTrivial = concurrentFirst || reuseAfterFailure || layoutChanged || busyRegions
	if busyRegions {
		out.Labels = append(out.Labels, "region_answers_retryable_exceptions")
	}
	if concurrentFirst {
		out.Labels = append(out.Labels, "concurrent_first_use")
	}
	if reuseAfterFailure {
		out.Labels = append(out.Labels, "reuse_after_failure")
	}
	if !anyFault {
		out.Labels = append(out.Labels, "no_failure")
	}
	return out
}

func c20Gen(t *rapid.T) c20Case {
	var c c20Case
	c.Layout = genLayout(t, 12, 4)
	c.Layout.Siblings = []string{"t", "t-", "tt", "s"}
	c.Queue = rapid.SampledFrom([]int{1, 2, 100}).Draw(t, "queue")
	c.FlushMS = rapid.SampledFrom([]int{0, 1, 20}).Draw(t, "flush")
	tables := append([]string{c.Layout.Table}, "t", "t-", "tt", "s")
	n := 0
	np := rapid.IntRange(1, 4).Draw(t, "nphases")
	for p := 0; p < np; p++ {
		var ph c20Phase
		nu := rapid.IntRange(1, 12).Draw(t, "nuses")
		if rapid.IntRange(0, 5).Draw(t, "many") == 0 {
			nu = rapid.IntRange(13, 32).Draw(t, "nuses2")
		}
		for i := 0; i < nu; i++ {
			tb := c.Layout.Table
			if rapid.IntRange(0, 3).Draw(t, "sibling") == 0 {
				tb = rapid.SampledFrom(tables).Draw(t, "tb")
			}
			ph.Uses = append(ph.Uses, c20Use{Table: tb, Op: genOp(t, c.Layout, []string{"get", "put"}, &n)})
		}
		if rapid.IntRange(0, 4).Draw(t, "cache") == 0 {
			ph.CacheRegions = c.Layout.Table
		}
		ph.Fault = rapid.SampledFrom([]string{"", "", "", "reset", "silent", "fatal"}).Draw(t, "fault")
		ph.FaultServer = rapid.IntRange(0, 3).Draw(t, "faultserver")
		ph.LateBatch = rapid.IntRange(0, 3).Draw(t, "latebatch") == 0
		ph.Change = rapid.SampledFrom([]string{"", "", "split", "merge", "move", "transient"}).Draw(t, "change")
		if ph.Change == "transient" {
			ph.ChangeClass = rapid.SampledFrom(c04TransientClasses).Draw(t, "class")
			ph.ChangeCount = rapid.IntRange(1, 3).Draw(t, "count")
		}
		ph.ChangeRegion = rapid.IntRange(0, 11).Draw(t, "changeregion")
		ph.ChangeServer = rapid.IntRange(0, 3).Draw(t, "changeserver")
		c.Phases = append(c.Phases, ph)
	}
	return c
}

func TestC20_OneConnection(t *testing.T) {
	theT = t
	rec := evid.New("C20", "TestC20_OneConnection",
		"rapid, virtual time: 1..4 simulated servers hosting 1..12 regions of one table plus single-region sibling "+
			"tables (hbase:meta co-located on the first server); 1..4 phases in each of which 1..32 callers use regions "+
			"concurrently at the same virtual instant (first uses of several regions of one server, later discoveries, "+
			"optional CacheRegions warm-up), followed by an optional connection failure (reset, silence past the read "+
			"timeout, server-stopped exception + drop) and an optional change that leaves connections healthy (split, merge, move, "+
			"or a region answering its next 1..3 requests - the probe included - with a retryable / not-serving exception). Oracle on the servers' dial log: every successful dial to an "+
			"address finds no earlier connection to that address still open on the client side, and without failures "+
			"each address is dialled exactly once; all requests succeed. Non-trivial = >= 2 regions of one server first "+
			"used concurrently, or a failure followed by reuse; distinct by case hash")
	Drive(t, rec, true, c20Gen, c20Run)
}

// c20LateBatch plays the late-error schedule; returns a violation or nil.
func c20LateBatch(cl *sim.Cluster, client gohbase.Client, table string, pi int) *Outcome {
	regs := cl.TableRegions(table)
	var ra, rb *sim.Region
	for _, r := range regs {
		for _, q := range regs {
			if r.Addr != q.Addr && q.Addr != cl.MetaAddr {
				ra, rb = r, q
			}
		}
	}
	if ra == nil {
		return nil // the layout has no two servers to span
	}
	mk := func(s string) string { return fmt.Sprintf("mklate%d%s", pi, s) }
	cl.Lock()
	for _, m := range []string{mk("a"), mk("b1"), mk("b2")} {
		cl.Script[m] = []sim.Outcome{{Kind: "hold"}}
	}
	cl.Unlock()
	ctx := context.Background()
	var calls []hrpc.Call
	for _, x := range []struct {
		r *sim.Region
		m string
	}{{ra, mk("a")}, {rb, mk("b1")}, {rb, mk("b2")}} {
		call, _ := buildCall(ctx, table, opSpec{Kind: "get", Key: x.r.Start, Marker: x.m})
		calls = append(calls, call)
	}
	done := make(chan struct{})
	var results []hrpc.RPCResult
	go func() {
		defer close(done)
		results, _ = client.SendBatch(ctx, calls)
	}()
	time.Sleep(30 * time.Millisecond) // flushed and held at both servers
	synctest.Wait()
	cl.KillConns(rb.Addr)
	synctest.Wait()
	// other traffic notices the dead connection and fails over
	err, cerr := doOp(client, ctx, table, opSpec{Kind: "get", Key: rb.Start, Marker: mk("other")})
	if err != nil || cerr != nil {
		o := viol("request-failed", "late-batch phase %d: get after the connection broke: %v %v", pi, err, cerr)
		return &o
	}
	synctest.Wait()
	// now the slow server answers and the batch gets to its calls on the old connection
	for _, m := range []string{mk("a"), mk("b1"), mk("b2")} {
		cl.Release(m)
	}
	if !waitOrHorizon(done, 10*time.Minute) {
		o := viol("request-stuck", "late-batch phase %d: SendBatch did not finish", pi)
		return &o
	}
	for i, r := range results {
		if r.Error != nil {
			o := viol("request-failed", "late-batch phase %d: batch call %d: %v", pi, i, r.Error)
			return &o
		}
	}
	return nil
}
