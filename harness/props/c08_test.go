package props

import (
	"bytes"
	"fmt"
	"sort"
	"sync"
	"testing"

	"github.com/tsuna/gohbase"
	"github.com/tsuna/gohbase/hrpc"
	"github.com/tsuna/gohbase/region"
	"pgregory.net/rapid"

	"verifharness/evid"
	"verifharness/gen"
)

// regSpec describes a region; the hrpc.RegionInfo is built through the
// public constructor.
type regSpec struct {
	NS    string `json:"ns,omitempty"`
	Table string `json:"table"`
	Start evid.B `json:"start"`
	Stop  evid.B `json:"stop"`
	ID    uint64 `json:"id"`
	MD5   bool   `json:"md5,omitempty"`
}

func (r regSpec) fq() string {
	if r.NS != "" {
		return r.NS + ":" + r.Table
	}
	return r.Table
}

func (r regSpec) name() []byte {
	s := fmt.Sprintf("%s,%s,%d", r.fq(), r.Start, r.ID)
	if r.MD5 {
		s += ".0123456789abcdef0123456789abcdef."
	}
	return []byte(s)
}

func (r regSpec) info() hrpc.RegionInfo {
	var ns []byte
	if r.NS != "" {
		ns = []byte(r.NS)
	}
	return region.NewInfo(r.ID, ns, []byte(r.Table), r.name(), []byte(r.Start), []byte(r.Stop))
}

// specOverlap: [s1,e1) and [s2,e2) intersect, empty stop = +infinity, same table.
func specOverlap(a, b regSpec) bool {
	if a.fq() != b.fq() {
		return false
	}
	aBeforeBEnd := len(b.Stop) == 0 || bytes.Compare(a.Start, b.Stop) < 0
	bBeforeAEnd := len(a.Stop) == 0 || bytes.Compare(b.Start, a.Stop) < 0
	return aBeforeBEnd && bBeforeAEnd
}

func specContains(r regSpec, table string, key []byte) bool {
	return r.fq() == table && bytes.Compare(r.Start, key) <= 0 &&
		(len(r.Stop) == 0 || bytes.Compare(key, r.Stop) < 0)
}

type c08Op struct {
	Kind  string  `json:"kind"` // put | del | get
	Reg   regSpec `json:"reg,omitempty"`
	Ref   int     `json:"ref,omitempty"` // del: index of the put op whose object is removed
	Table string  `json:"table,omitempty"`
	Key   evid.B  `json:"key,omitempty"`
}

type c08Case struct {
	Ops []c08Op `json:"ops"`
}

// c08Model is the brute-force reference: the list of cached put-op indices.
type c08Model struct {
	specs  map[int]regSpec
	cached map[int]bool
	dead   map[int]bool
}

func newC08Model() *c08Model {
	return &c08Model{specs: map[int]regSpec{}, cached: map[int]bool{}, dead: map[int]bool{}}
}

func (m *c08Model) cachedSorted() []int {
	var out []int
	for i := range m.cached {
		out = append(out, i)
	}
	sort.Ints(out)
	return out
}

// put returns (exists index or -1, overlaps, verdict) where verdict is
// "replace", "refuse" or "tie".
func (m *c08Model) classify(r regSpec) (exists int, overlaps []int, verdict string) {
	exists = -1
	for _, i := range m.cachedSorted() {
		if bytes.Equal(m.specs[i].name(), r.name()) {
			exists = i
		}
		if specOverlap(m.specs[i], r) {
			overlaps = append(overlaps, i)
		}
	}
	if exists >= 0 {
		return exists, overlaps, "refuse"
	}
	verdict = "replace"
	for _, i := range overlaps {
		if m.specs[i].ID > r.ID {
			return exists, overlaps, "refuse"
		}
		if m.specs[i].ID == r.ID {
			verdict = "tie"
		}
	}
	return exists, overlaps, verdict
}

func (m *c08Model) apply(idx int, r regSpec, overlaps []int) {
	m.specs[idx] = r
	for _, o := range overlaps {
		delete(m.cached, o)
		m.dead[o] = true
	}
	m.cached[idx] = true
}

func c08Run(c c08Case) (out Outcome) {
	defer func() {
		if p := recover(); p != nil {
			out = viol("panic@cache", "panic: %v", p)
		}
	}()
	cache := gohbase.VerifNewRegionCache()
	m := newC08Model()
	objs := map[int]hrpc.RegionInfo{}
	idxOf := map[hrpc.RegionInfo]int{}

	checkState := func(step int) *Outcome {
		snap := cache.Snapshot()
		got := map[int]bool{}
		for _, r := range snap {
			i, ok := idxOf[r]
			if !ok {
				o := viol("cache-unknown-object", "step %d: cache holds an object that was never put: %s", step, r)
				return &o
			}
			got[i] = true
		}
		for i := range m.cached {
			if !got[i] {
				o := viol("cache-lost-region", "step %d: region %q should be cached but is not", step, m.specs[i].name())
				return &o
			}
		}
		for i := range got {
			if !m.cached[i] {
				o := viol("cache-stale-region", "step %d: region %q is cached but should have been evicted/removed", step, m.specs[i].name())
				return &o
			}
		}
		// direct invariant on the implementation's contents, independent of the model
		for a := 0; a < len(snap); a++ {
			for b := a + 1; b < len(snap); b++ {
				if specOverlap(m.specs[idxOf[snap[a]]], m.specs[idxOf[snap[b]]]) {
					o := viol("cache-overlap", "step %d: cached regions %q and %q overlap", step, snap[a].Name(), snap[b].Name())
					return &o
				}
			}
		}
		for i, r := range objs {
			isDead := r.Context().Err() != nil
			if m.dead[i] && !isDead {
				o := viol("evicted-not-dead", "step %d: region %q was evicted/removed but is not marked dead", step, r.Name())
				return &o
			}
			if m.cached[i] && isDead {
				o := viol("cached-but-dead", "step %d: region %q is cached but marked dead", step, r.Name())
				return &o
			}
		}
		return nil
	}

	for step, op := range c.Ops {
		switch op.Kind {
		case "put":
			exists, overlaps, verdict := m.classify(op.Reg)
			obj := op.Reg.info()
			objs[step] = obj
			idxOf[obj] = step
			m.specs[step] = op.Reg
			gotOv, replaced := cache.Put(obj)
			switch len(overlaps) {
			case 0:
				out.Labels = append(out.Labels, "put_overlap_0")
			case 1:
				out.Labels = append(out.Labels, "put_overlap_1")
			case 2:
				out.Labels = append(out.Labels, "put_overlap_2")
			default:
				out.Labels = append(out.Labels, "put_overlap_3plus")
			}
			if len(overlaps) > 0 {
				out.NonTrivial = true
			}
			out.Labels = append(out.Labels, "verdict_"+verdict)
			if exists >= 0 {
				out.Labels = append(out.Labels, "put_same_name")
			}
			switch {
			case verdict == "refuse" && replaced:
				if exists >= 0 {
					return viol("replaced-existing-name", "step %d: put of already cached name %q reported replaced", step, op.Reg.name())
				}
				return viol("replaced-despite-newer", "step %d: put %q (id %d) replaced although a newer overlapping region is cached", step, op.Reg.name(), op.Reg.ID)
			case verdict == "replace" && !replaced:
				return viol("not-replaced", "step %d: put %q (newer than its %d overlaps) was refused", step, op.Reg.name(), len(overlaps))
			}
			if replaced {
				want := map[int]bool{}
				for _, o := range overlaps {
					want[o] = true
				}
				if len(gotOv) != len(overlaps) {
					return viol("overlaps-mismatch", "step %d: put %q returned %d overlaps, brute force finds %d", step, op.Reg.name(), len(gotOv), len(overlaps))
				}
				for _, g := range gotOv {
					if !want[idxOf[g]] {
						return viol("overlaps-mismatch", "step %d: put %q returned overlap %q that does not overlap", step, op.Reg.name(), g.Name())
					}
				}
				m.apply(step, op.Reg, overlaps)
			}
		case "del":
			obj, ok := objs[op.Ref]
			if !ok {
				continue
			}
			// only objects that were accepted into the cache at some point and whose
			// name is not currently held by a different object (see DESIGN C08)
			if !m.cached[op.Ref] {
				if !m.dead[op.Ref] {
					continue
				}
				clash := false
				for i := range m.cached {
					if bytes.Equal(m.specs[i].name(), m.specs[op.Ref].name()) {
						clash = true
					}
				}
				if clash {
					continue
				}
			}
			cache.Del(obj)
			if m.cached[op.Ref] {
				out.Labels = append(out.Labels, "del_cached")
			} else {
				out.Labels = append(out.Labels, "del_uncached")
			}
			delete(m.cached, op.Ref)
			m.dead[op.Ref] = true
		case "get":
			got := cache.Lookup([]byte(op.Table), op.Key)
			want := -1
			for i := range m.cached {
				if specContains(m.specs[i], op.Table, op.Key) {
					want = i
				}
			}
			if want >= 0 {
				out.Labels = append(out.Labels, "get_hit")
			} else {
				out.Labels = append(out.Labels, "get_miss")
			}
			if got == nil && want >= 0 {
				return viol("lookup-miss", "step %d: lookup(%q,%q) = nil, but cached region %q contains the key", step, op.Table, op.Key, m.specs[want].name())
			}
			if got != nil && (want < 0 || idxOf[got] != want) {
				return viol("lookup-wrong-region", "step %d: lookup(%q,%q) = %q which does not contain the key", step, op.Table, op.Key, got.Name())
			}
		}
		if o := checkState(step); o != nil {
			return *o
		}
	}
	return out
}

var c08Tables = []regSpec{{Table: "t"}, {Table: "t-"}, {NS: "n", Table: "t"}, {Table: "tt"}}

func c08Gen(t *rapid.T) c08Case {
	nops := rapid.IntRange(1, 40).Draw(t, "nops")
	_ = nops
	m := newC08Model()
	var c c08Case
	alpha := []byte{0x00, '+', ',', '-', 'a', 'b', 'c', 0xff}
	key := func(label string) []byte {
		if rapid.IntRange(0, 4).Draw(t, "hotkey") == 0 {
			return gen.Key(4).Draw(t, label)
		}
		return gen.KeyFrom(alpha, 2).Draw(t, label)
	}
	// optional prologue: discover one or two whole tables as contiguous layouts, so
	// that later spanning puts overlap many cached regions
	nlay := rapid.IntRange(0, 2).Draw(t, "nlayouts")
	for l := 0; l < nlay; l++ {
		tb := c08Tables[rapid.IntRange(0, 1).Draw(t, "laytbl")]
		bounds := gen.Boundaries(t, 6, 3)
		var prev []byte
		for i := 0; i <= len(bounds); i++ {
			r := regSpec{NS: tb.NS, Table: tb.Table, Start: prev, ID: uint64(rapid.IntRange(1, 5).Draw(t, "lid"))}
			if i < len(bounds) {
				r.Stop = bounds[i]
				prev = bounds[i]
			}
			step := len(c.Ops)
			_, ov, verdict := m.classify(r)
			m.specs[step] = r
			if verdict != "refuse" {
				m.apply(step, r, ov)
			}
			c.Ops = append(c.Ops, c08Op{Kind: "put", Reg: r})
		}
	}
	for len(c.Ops) < nops+0 || len(c.Ops) == 0 {
		step := len(c.Ops)
		kind := rapid.SampledFrom([]string{"put", "put", "put", "put", "get", "get", "del"}).Draw(t, "kind")
		cached := m.cachedSorted()
		switch kind {
		case "put":
			tb := rapid.SampledFrom(c08Tables).Draw(t, "tbl")
			r := regSpec{NS: tb.NS, Table: tb.Table, MD5: rapid.Bool().Draw(t, "md5")}
			// candidates of the same table, sorted by start
			var same []int
			for _, i := range cached {
				if m.specs[i].fq() == r.fq() {
					same = append(same, i)
				}
			}
			sort.Slice(same, func(a, b int) bool {
				return bytes.Compare(m.specs[same[a]].Start, m.specs[same[b]].Start) < 0
			})
			shape := rapid.IntRange(0, 9).Draw(t, "shape")
			switch {
			case len(same) >= 1 && shape <= 3:
				// constructed: span from one cached region to a later one
				a := rapid.IntRange(0, len(same)-1).Draw(t, "from")
				b := rapid.IntRange(a, len(same)-1).Draw(t, "to")
				if len(same) >= 2 && a == b && rapid.IntRange(0, 3).Draw(t, "widen") > 0 {
					a = rapid.IntRange(0, len(same)-2).Draw(t, "from2")
					b = rapid.IntRange(a+1, len(same)-1).Draw(t, "to2")
				}
				r.Start = m.specs[same[a]].Start
				r.Stop = m.specs[same[b]].Stop
				switch rapid.IntRange(0, 5).Draw(t, "adj") {
				case 0:
					r.Start = gen.Near(t, r.Start)
				case 1:
					r.Stop = gen.Near(t, r.Stop)
				case 2:
					// touching neighbour on the right
					r.Start = m.specs[same[b]].Stop
					r.Stop = nil
					if len(r.Start) == 0 {
						r.Start = m.specs[same[a]].Start
					}
				case 3:
					// touching neighbour on the left
					r.Stop = m.specs[same[a]].Start
					r.Start = nil
				}
			case len(same) >= 1 && shape == 4:
				// identical range, other id
				o := m.specs[same[rapid.IntRange(0, len(same)-1).Draw(t, "same")]]
				r.Start, r.Stop = o.Start, o.Stop
			case len(same) >= 1 && shape == 5:
				// identical name
				o := m.specs[same[rapid.IntRange(0, len(same)-1).Draw(t, "same")]]
				r = o
			default:
				r.Start = key("start")
				r.Stop = key("stop")
			}
			if len(r.Stop) != 0 && bytes.Compare(r.Start, r.Stop) >= 0 {
				if rapid.Bool().Draw(t, "swap") {
					r.Start, r.Stop = r.Stop, r.Start
				}
				if bytes.Compare(r.Start, r.Stop) >= 0 {
					r.Stop = nil
				}
			}
			if shape != 5 {
				// id relative to what it overlaps
				_, ov, _ := m.classify(r)
				base := uint64(rapid.IntRange(1, 9).Draw(t, "id"))
				if len(ov) > 0 {
					o := m.specs[ov[rapid.IntRange(0, len(ov)-1).Draw(t, "rel")]]
					switch rapid.IntRange(0, 4).Draw(t, "age") {
					case 0:
						if o.ID > 0 {
							base = o.ID - 1
						}
					case 1:
						base = o.ID
					case 2:
						base = o.ID + 1
					case 3:
						mx := uint64(0)
						for _, i := range ov {
							if m.specs[i].ID > mx {
								mx = m.specs[i].ID
							}
						}
						base = mx + 1
					}
				}
				r.ID = base
			}
			_, ov, verdict := m.classify(r)
			m.specs[step] = r
			if verdict == "replace" || verdict == "tie" {
				// the model follows "replace" on ties for generation purposes only;
				// the oracle accepts both
				m.apply(step, r, ov)
			}
			c.Ops = append(c.Ops, c08Op{Kind: "put", Reg: r})
		case "del":
			if step == 0 {
				c.Ops = append(c.Ops, c08Op{Kind: "get", Table: "t", Key: evid.B(key("k"))})
				continue
			}
			ref := rapid.IntRange(0, step-1).Draw(t, "ref")
			if len(cached) > 0 && rapid.IntRange(0, 2).Draw(t, "delcached") > 0 {
				ref = cached[rapid.IntRange(0, len(cached)-1).Draw(t, "which")]
			}
			if m.cached[ref] {
				delete(m.cached, ref)
				m.dead[ref] = true
			}
			c.Ops = append(c.Ops, c08Op{Kind: "del", Ref: ref})
		case "get":
			tb := rapid.SampledFrom(c08Tables).Draw(t, "tbl")
			k := key("k")
			if len(cached) > 0 && rapid.IntRange(0, 2).Draw(t, "nearb") > 0 {
				o := m.specs[cached[rapid.IntRange(0, len(cached)-1).Draw(t, "o")]]
				tb = regSpec{NS: o.NS, Table: o.Table}
				if rapid.Bool().Draw(t, "stopside") {
					k = gen.Near(t, o.Stop)
				} else {
					k = gen.Near(t, o.Start)
				}
			}
			c.Ops = append(c.Ops, c08Op{Kind: "get", Table: tb.fq(), Key: evid.B(k)})
		}
	}
	return c
}

func TestC08_StateMachine(t *testing.T) {
	rec := evid.New("C08", "TestC08_StateMachine",
		"rapid: histories of 1..40 put/del/get operations on the real location cache; puts are constructed "+
			"from the current (model) contents: spanning several cached regions, nested, touching, identical "+
			"range/other id, identical name, other table/namespace, ids older/equal/newer than what they "+
			"overlap. After every step the cache contents, returned (overlaps, replaced), dead marks and lookups "+
			"are compared with a brute-force interval model and pairwise non-overlap is asserted on the cache "+
			"itself. Non-trivial = history with a put overlapping >= 1 cached region; distinct by history hash")
	Drive(t, rec, false, c08Gen, c08Run)
}

// TestC08_Exhaustive enumerates all histories of <= 4 puts over a tiny scope.
func TestC08_Exhaustive(t *testing.T) {
	rec := evid.New("C08", "TestC08_Exhaustive",
		"exhaustive small scope: every history of 1..4 puts with start,stop over {empty,a,b,c} (start<stop or "+
			"stop empty) and ids {1,2,3}, table t, each followed by the full state check; non-trivial = some put "+
			"overlaps a cached region; distinct by construction")
	defer rec.Flush()
	if evid.ReplayPath() != "" {
		var c c08Case
		if _, err := evid.LoadReplay(evid.ReplayPath(), &c); err != nil {
			t.Fatal(err)
		}
		if out := c08Run(c); out.Sig != "" {
			rec.Fail(out.Sig, out.Msg, c)
			t.Errorf("%s: %s", out.Sig, out.Msg)
		}
		return
	}
	bs := [][]byte{nil, []byte("a"), []byte("b"), []byte("c")}
	var regs []regSpec
	for _, s := range bs {
		for _, e := range bs {
			if len(e) != 0 && bytes.Compare(s, e) >= 0 {
				continue
			}
			for id := uint64(1); id <= 3; id++ {
				regs = append(regs, regSpec{Table: "t", Start: s, Stop: e, ID: id})
			}
		}
	}
	maxLen := 3
	if evid.Thorough() {
		maxLen = 4
	}
	var n, nontriv int64
	var rec1 func(prefix []c08Op)
	failed := false
	rec1 = func(prefix []c08Op) {
		if failed {
			return
		}
		if len(prefix) > 0 {
			c := c08Case{Ops: prefix}
			out := c08Run(c)
			n++
			if out.NonTrivial {
				nontriv++
				if nontriv%50000 == 1 {
					rec.Sample(c)
				}
			}
			if out.Sig != "" {
				rec.Fail(out.Sig, out.Msg, c)
				t.Errorf("%s: %s", out.Sig, out.Msg)
				failed = true
				return
			}
		}
		if len(prefix) == maxLen {
			return
		}
		for _, r := range regs {
			rec1(append(append([]c08Op(nil), prefix...), c08Op{Kind: "put", Reg: r}))
		}
	}
	rec1(nil)
	rec.Evals(n)
	rec.DistinctN(nontriv)
	rec.Label("regions_in_scope", int64(len(regs)))
	rec.Label("max_history_len", int64(maxLen))
	rec.SetExhaustive(!failed)
}

// ---- concurrent discoveries

type c08ConcCase struct {
	Initial []regSpec `json:"initial"`    // put sequentially first
	Conc    []regSpec `json:"concurrent"` // put by one goroutine each, released together
	Reps    int       `json:"reps"`
}

func c08ConcRun(c c08ConcCase) (out Outcome) {
	defer func() {
		if p := recover(); p != nil {
			out = viol("panic@cache", "panic: %v", p)
		}
	}()
	overlapping := false
	for i := range c.Conc {
		for j := i + 1; j < len(c.Conc); j++ {
			if specOverlap(c.Conc[i], c.Conc[j]) {
				overlapping = true
			}
		}
	}
	for rep := 0; rep < c.Reps; rep++ {
		cache := gohbase.VerifNewRegionCache()
		specOf := map[hrpc.RegionInfo]regSpec{}
		var all []hrpc.RegionInfo
		for _, r := range c.Initial {
			o := r.info()
			specOf[o] = r
			all = append(all, o)
			cache.Put(o)
		}
		objs := make([]hrpc.RegionInfo, len(c.Conc))
		replaced := make([]bool, len(c.Conc))
		for i, r := range c.Conc {
			objs[i] = r.info()
			specOf[objs[i]] = r
			all = append(all, objs[i])
		}
		start := make(chan struct{})
		var wg sync.WaitGroup
		for i := range objs {
			wg.Add(1)
			go func(i int) {
				defer wg.Done()
				<-start
				_, replaced[i] = cache.Put(objs[i])
			}(i)
		}
		close(start)
		wg.Wait()
		snap := cache.Snapshot()
		in := map[hrpc.RegionInfo]bool{}
		for _, r := range snap {
			in[r] = true
		}
		for a := 0; a < len(snap); a++ {
			for b := a + 1; b < len(snap); b++ {
				if specOverlap(specOf[snap[a]], specOf[snap[b]]) {
					return viol("cache-overlap-concurrent", "after %d concurrent discoveries (repetition %d) the cache holds overlapping regions %q and %q", len(c.Conc), rep, snap[a].Name(), snap[b].Name())
				}
			}
			if snap[a].Context().Err() != nil {
				return viol("cached-but-dead", "region %q is cached but marked dead after concurrent discoveries", snap[a].Name())
			}
		}
		for i, o := range objs {
			if replaced[i] && !in[o] && o.Context().Err() == nil {
				return viol("evicted-not-dead", "region %q was accepted, is no longer cached, and is not marked dead (concurrent discoveries)", o.Name())
			}
		}
		for _, o := range all[:len(c.Initial)] {
			if !in[o] && o.Context().Err() == nil && wasAccepted(c.Initial, specOf[o]) {
				// an initial region that was cached and has been displaced must be dead
				return viol("evicted-not-dead", "region %q was displaced by a concurrent discovery but is not marked dead", o.Name())
			}
		}
	}
	out.NonTrivial = overlapping
	if overlapping {
		out.Labels = append(out.Labels, "concurrent_overlapping")
	}
	return out
}

// wasAccepted replays the initial sequence on the model to tell whether r was in the
// cache before the concurrent phase.
func wasAccepted(initial []regSpec, r regSpec) bool {
	m := newC08Model()
	accepted := false
	for i, x := range initial {
		_, ov, verdict := m.classify(x)
		m.specs[i] = x
		if verdict != "refuse" {
			m.apply(i, x, ov)
		}
		if bytes.Equal(x.name(), r.name()) && x.ID == r.ID {
			accepted = verdict != "refuse"
		}
	}
	if !accepted {
		return false
	}
	for i := range m.cached {
		if bytes.Equal(m.specs[i].name(), r.name()) {
			return true
		}
	}
	return false
}

func TestC08_Concurrent(t *testing.T) {
	rec := evid.New("C08", "TestC08_Concurrent",
		"rapid + real goroutines: 0..4 regions are cached, then 2..4 further regions - overlapping each other and the "+
			"cached ones (split parent vs daughters, nested, identical ranges with other ids) - are discovered by one "+
			"goroutine each, released together, 20..60 repetitions per case on fresh caches. Oracle at the end of each "+
			"repetition: no two cached regions of a table intersect, cached regions are alive, accepted-and-displaced "+
			"regions are dead. Non-trivial = the concurrent regions overlap each other; distinct by case hash. "+
			"Interleavings are chosen by the Go scheduler (sampling)")
	Drive(t, rec, false, func(t *rapid.T) c08ConcCase {
		var c c08ConcCase
		alpha := []byte{'a', 'b', 'c', 'd'}
		mk := func(id uint64) regSpec {
			r := regSpec{Table: "t", ID: id}
			r.Start = gen.KeyFrom(alpha, 1).Draw(t, "start")
			r.Stop = gen.KeyFrom(alpha, 1).Draw(t, "stop")
			if len(r.Stop) != 0 && bytes.Compare(r.Start, r.Stop) >= 0 {
				r.Stop = nil
			}
			return r
		}
		ni := rapid.IntRange(0, 4).Draw(t, "ninitial")
		for i := 0; i < ni; i++ {
			c.Initial = append(c.Initial, mk(uint64(1+i)))
		}
		nc := rapid.IntRange(2, 4).Draw(t, "nconc")
		for i := 0; i < nc; i++ {
			c.Conc = append(c.Conc, mk(uint64(10+rapid.IntRange(0, 3).Draw(t, "cid"))))
		}
		c.Reps = rapid.SampledFrom([]int{20, 40, 60}).Draw(t, "reps")
		return c
	}, c08ConcRun)
}
