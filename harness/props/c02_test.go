package props

import (
	"context"
	"errors"
	"fmt"
	"strings"
	"sync"
	"testing"
	"time"

	"github.com/tsuna/gohbase"
	"github.com/tsuna/gohbase/hrpc"
	"pgregory.net/rapid"

	"verifharness/evid"
	"verifharness/sim"
)

type c02Step struct {
	Op    *opSpec  `json:"op,omitempty"`
	Batch []opSpec `json:"batch,omitempty"`
}

type c02Case struct {
	Layout     layoutSpec        `json:"layout"`
	Callers    [][]c02Step       `json:"callers"`
	JitterMS   []int             `json:"jitter_ms"`
	QueueSize  int               `json:"queue_size"`
	FlushMS    int               `json:"flush_ms"`
	Tape       evid.B            `json:"tape"`
	CellBlocks bool              `json:"cellblocks"`
	Snappy     bool              `json:"snappy"`
	Exc        map[string]string `json:"exc,omitempty"` // marker -> application exception class
	// RegionExc: indices of regions that answer their next request (a whole region action
	// of a multi-request) with an application exception naming the region.
	RegionExc []int `json:"region_exc,omitempty"`
	// Expire: markers of single calls whose caller cancels its context 1ms after issuing
	// them (before the flush): the client leaves them out of the multi-request.
	Expire map[string]bool `json:"expire,omitempty"`
	// Junk: markers of calls whose first multi-response carries bytes behind its (sound) cellblock: the client
	// refuses that response as a whole and the calls in it are sent again
	Junk map[string]bool `json:"junk,omitempty"`
}

const appExc = "com.example.ApplicationException"

func c02Run(c c02Case) Outcome {
	var o Outcome
	res := inBubble(theT, func() { o = c02RunInBubble(c) })
	if o, stuck := stuckVerdict(res); stuck {
		return o
	}
	if res.Deadlock != "" && !exitLeak(res.Deadlock) {
		return viol("deadlock", "bubble deadlocked: %s\n%s", res.Deadlock, bubbleStacks(res.Stack))
	}
	if res.Panic != "" {
		return viol("panic@"+topFrame(res.Stack), "%s\n%s", res.Panic, res.Stack)
	}
	if res.Deadlock != "" {
		o.Labels = append(o.Labels, "goroutines_left_at_exit")
	}
	return o
}

func c02RunInBubble(c c02Case) (out Outcome) {
	resetRetained()
	cl := c.Layout.build()
	cl.Tape = c.Tape
	cl.LatencyTape = true
	cl.PermuteMulti = true
	cl.UseCellBlocks = c.CellBlocks
	for mk, class := range c.Exc {
		cl.Script[mk] = []sim.Outcome{{Kind: "exc", Class: class, Stack: "scripted"}}
		// (a response that is refused as a whole takes the exceptions in it along; the calls are sent again
		// and the server answers the same way)
		for k := 0; k < 2*len(c.Junk); k++ {
			cl.Script[mk] = append(cl.Script[mk], sim.Outcome{Kind: "exc", Class: class, Stack: "scripted"})
		}
	}
	for mk := range c.Junk {
		if _, other := c.Exc[mk]; !other {
			cl.Script[mk] = []sim.Outcome{{Kind: "junk"}, {Kind: "ok"}}
		}
	}
	regs := cl.TableRegions(c.Layout.Table)
	for _, ri := range c.RegionExc {
		r := regs[((ri%len(regs))+len(regs))%len(regs)]
		r.Transient = append(r.Transient, sim.Exc{Class: appExc, Stack: fmt.Sprintf("%s: region exception region=<%s>", appExc, r.Name)})
	}
	regionOf := func(key []byte) string {
		if r := cl.Owner(c.Layout.Table, key); r != nil {
			return string(r.Name)
		}
		return "?"
	}
	opts := []gohbase.Option{gohbase.RpcQueueSize(c.QueueSize), gohbase.FlushInterval(time.Duration(c.FlushMS) * time.Millisecond)}
	if c.Snappy {
		opts = append(opts, gohbase.CompressionCodec("snappy"))
	}
	client := newSimClient(cl, opts...)
	var mu sync.Mutex
	var first *Outcome
	fail := func(sig, format string, a ...any) {
		mu.Lock()
		if first == nil {
			o := viol(sig, format, a...)
			first = &o
		}
		mu.Unlock()
	}
	checkErr := func(op opSpec, err error) {
		if op.Kind == "badget" {
			if err == nil {
				fail("bad-call-succeeded", "a Get without a row (%s) succeeded", op.Marker)
			}
			return
		}
		class, scripted := c.Exc[op.Marker]
		if err != nil && strings.Contains(err.Error(), "region exception region=<") {
			// a whole-region exception: it must be the one of the region that owns my row
			if !strings.Contains(err.Error(), "region=<"+regionOf(op.Key)+">") {
				fail("foreign-error", "call %s (row %q, region %q) received the exception another region produced: %v", op.Marker, op.Key, regionOf(op.Key), err)
			}
			return
		}
		if c.Expire[op.Marker] && (errors.Is(err, context.Canceled) || err == nil) {
			return
		}
		if err != nil && strings.Contains(err.Error(), "no result for the action in multi response") {
			fail("foreign-error", "call %s (row %q) was told the server sent no result for it, although the server answered its region: %v", op.Marker, op.Key, err)
			return
		}
		switch {
		case err == nil && scripted:
			fail("exception-lost", "call %s (row %q) was answered with %s by the server but the caller got success", op.Marker, op.Key, class)
		case err != nil && !scripted:
			fail("foreign-error", "call %s (row %q) failed with %v although the server executed it successfully", op.Marker, op.Key, err)
		case err != nil:
			mks := errMarkers(err)
			if len(mks) != 1 || mks[0] != op.Marker || !strings.Contains(err.Error(), class) {
				fail("foreign-error", "call %s got an error that is not its own: %v", op.Marker, err)
			}
		}
	}
	var wg sync.WaitGroup
	done := make(chan struct{})
	for ci, steps := range c.Callers {
		wg.Add(1)
		go func(ci int, steps []c02Step) {
			defer wg.Done()
			if ci < len(c.JitterMS) && c.JitterMS[ci] > 0 {
				time.Sleep(time.Duration(c.JitterMS[ci]) * time.Millisecond)
			}
			ctx := context.Background()
			for _, st := range steps {
				if st.Op != nil {
					ctx := ctx
					if c.Expire[st.Op.Marker] {
						cctx, cancel := context.WithCancel(ctx)
						tm := time.AfterFunc(time.Millisecond, cancel)
						defer tm.Stop()
						defer cancel()
						ctx = cctx
					}
					err, cerr := doOp(client, ctx, c.Layout.Table, *st.Op)
					checkErr(*st.Op, err)
					if cerr != nil {
						fail("foreign-response", "caller %d call %s: %v", ci, st.Op.Marker, cerr)
					}
					continue
				}
				var calls []hrpc.Call
				for _, op := range st.Batch {
					call, err := buildCall(ctx, c.Layout.Table, op)
					if err != nil {
						fail("harness", "buildCall: %v", err)
						return
					}
					calls = append(calls, call)
				}
				results, _ := client.SendBatch(ctx, calls)
				if len(results) != len(calls) {
					fail("batch-result-count", "batch of %d returned %d results", len(calls), len(results))
					continue
				}
				for i, op := range st.Batch {
					checkErr(op, results[i].Error)
					if results[i].Error == nil && op.Kind != "badget" {
						if err := checkOpResult(op, results[i].Msg); err != nil {
							fail("foreign-response", "caller %d batch call %d (%s): %v", ci, i, op.Marker, err)
						}
					}
				}
			}
		}(ci, steps)
	}
	go func() { wg.Wait(); close(done) }()
	finished := waitOrHorizon(done, 10*time.Minute)
	client.Close()
	drainClient()
	maxInFlight, outOfOrder := 0, 0
	cl.Lock()
	for _, sc := range cl.Conns {
		if sc.MaxInFlight > maxInFlight {
			maxInFlight = sc.MaxInFlight
		}
		outOfOrder += sc.OutOfOrder
	}
	cl.Unlock()
	execs, _, problems := cl.Snapshot()
	cl.Stop()
	if finished {
		<-done
	}
	if first != nil {
		return *first
	}
	if n, err := recheckRetained(); err != nil {
		return viol("result-changed-later", "%v (%d results retained; cellblocks=%v snappy=%v)", err, n, c.CellBlocks, c.Snappy)
	}
	if len(problems) > 0 {
		return viol("wire-problem", "the simulated servers saw malformed traffic: %v", problems)
	}
	if !finished {
		out.Labels = append(out.Labels, "horizon_exceeded")
		return out
	}
	multis, permutable := 0, 0
	perCall := map[string]int{}
	for _, e := range execs {
		if e.InMulti {
			perCall[fmt.Sprintf("%d/%d/%s", e.Conn, e.CallID, e.Region)]++
		}
	}
	for _, n := range perCall {
		multis++
		if n >= 2 {
			permutable++
		}
	}
	if maxInFlight >= 2 {
		out.Labels = append(out.Labels, "inflight_ge2")
	}
	if outOfOrder > 0 {
		out.Labels = append(out.Labels, "responses_out_of_order")
	}
	if permutable > 0 {
		out.Labels = append(out.Labels, "multi_with_ge2_results")
	}
	if len(c.Exc) > 0 {
		out.Labels = append(out.Labels, "with_exceptions")
	}
	for _, steps := range c.Callers {
		for _, st := range steps {
			if st.Op != nil && st.Op.Kind == "badget" {
				out.Labels = append(out.Labels, "unserialisable_call_among_others")
			}
			for _, op := range st.Batch {
				if op.Kind == "badget" {
					out.Labels = append(out.Labels, "unserialisable_call_among_others")
				}
			}
		}
	}
	cl.Lock()
	if cl.JunkSent > 0 {
		out.Labels = append(out.Labels, "multi_response_refused_for_trailing_bytes")
	}
	cl.Unlock()
	out.NonTrivial = outOfOrder > 0 || permutable > 0
	return out
}

func c02Gen(t *rapid.T) c02Case {
	var c c02Case
	c.Layout = genLayout(t, 6, 3)
	c.QueueSize = rapid.SampledFrom([]int{1, 2, 5, 100}).Draw(t, "queue")
	c.FlushMS = rapid.SampledFrom([]int{0, 1, 20}).Draw(t, "flush")
	c.Tape = rapid.SliceOfN(rapid.Byte(), 0, 16).Draw(t, "tape")
	c.CellBlocks = rapid.Bool().Draw(t, "cellblocks")
	c.Snappy = rapid.Bool().Draw(t, "snappy")
	c.Exc = map[string]string{}
	ncallers := rapid.IntRange(1, 8).Draw(t, "ncallers")
	if rapid.IntRange(0, 9).Draw(t, "many") == 0 {
		ncallers = rapid.IntRange(9, 32).Draw(t, "ncallers2")
	}
	n := 0
	kinds := []string{"get", "get", "get", "put", "app", "inc", "del"}
	for i := 0; i < ncallers; i++ {
		var steps []c02Step
		ns := rapid.IntRange(1, 5).Draw(t, "nsteps")
		for s := 0; s < ns; s++ {
			if rapid.IntRange(0, 2).Draw(t, "batch") == 0 {
				var b []opSpec
				nb := rapid.IntRange(1, 8).Draw(t, "nbatch")
				for k := 0; k < nb; k++ {
					b = append(b, genOp(t, c.Layout, kinds, &n))
				}
				steps = append(steps, c02Step{Batch: b})
			} else {
				op := genOp(t, c.Layout, kinds, &n)
				steps = append(steps, c02Step{Op: &op})
			}
		}
		c.Callers = append(c.Callers, steps)
		c.JitterMS = append(c.JitterMS, rapid.SampledFrom([]int{0, 0, 0, 1, 3, 19, 21}).Draw(t, "jitter"))
	}
	if rapid.IntRange(0, 2).Draw(t, "regionexc") == 0 {
		// whole-region exceptions and callers that give up before the flush; everybody
		// starts in the same flush window
		nre := rapid.IntRange(1, 3).Draw(t, "nregionexc")
		for i := 0; i < nre; i++ {
			c.RegionExc = append(c.RegionExc, rapid.IntRange(0, 5).Draw(t, "excregion"))
		}
		c.Expire = map[string]bool{}
		for _, steps := range c.Callers {
			if len(steps) > 0 && steps[0].Op != nil && rapid.IntRange(0, 2).Draw(t, "expire") == 0 {
				c.Expire[steps[0].Op.Marker] = true
			}
		}
		for i := range c.JitterMS {
			c.JitterMS[i] = 0
		}
		if c.QueueSize == 1 {
			c.QueueSize = 100
		}
		c.FlushMS = 20
	}
	if rapid.IntRange(0, 4).Draw(t, "withbad") == 0 {
		// one or two callers issue a call that cannot be serialised, among everybody else's
		nb := rapid.IntRange(1, 2).Draw(t, "nbad")
		for k := 0; k < nb; k++ {
			ci := rapid.IntRange(0, len(c.Callers)-1).Draw(t, "badcaller")
			si := rapid.IntRange(0, len(c.Callers[ci])-1).Draw(t, "badstep")
			st := &c.Callers[ci][si]
			if st.Op != nil {
				st.Op.Kind = "badget"
			} else if len(st.Batch) > 0 {
				st.Batch[rapid.IntRange(0, len(st.Batch)-1).Draw(t, "badidx")].Kind = "badget"
			}
		}
	}
	if c.CellBlocks && rapid.IntRange(0, 3).Draw(t, "withjunk") == 0 {
		c.Junk = map[string]bool{}
		nj := rapid.IntRange(1, 4).Draw(t, "njunk")
		for i := 0; i < nj; i++ {
			c.Junk[fmt.Sprintf("mk%d", rapid.IntRange(1, n).Draw(t, "junkmk"))] = true
		}
	}
	if rapid.IntRange(0, 2).Draw(t, "withexc") == 0 {
		ne := rapid.IntRange(1, 4).Draw(t, "nexc")
		for i := 0; i < ne; i++ {
			c.Exc[fmt.Sprintf("mk%d", rapid.IntRange(1, n).Draw(t, "excmk"))] = appExc
		}
	}
	return c
}

func TestC02_OwnResponse(t *testing.T) {
	theT = t
	rec := evid.New("C02", "TestC02_OwnResponse",
		"rapid, virtual time: 1..32 concurrent callers issuing single gets/puts/appends/increments/deletes and "+
			"SendBatch calls over 1..6 regions on 1..3 simulated servers; queue size in {1,2,5,100}, flush interval in "+
			"{0,1,20ms}; per-response latencies from a tape (reordering on a connection), permuted results inside "+
			"multi-responses, cellblock or protobuf result encoding, snappy on/off, scripted per-call application "+
			"exceptions carrying the call's marker, calls that cannot be serialised (a Get without a row) issued among the others, multi-responses with bytes behind their cellblock (refused as a whole, the calls retried). The servers derive every response from (row, marker); the caller "+
			"must get exactly that (or the error carrying its own marker). Non-trivial = responses left a connection in "+
			"another order than the requests arrived, or a multi-response region result held >= 2 results; distinct by "+
			"case hash")
	Drive(t, rec, true, c02Gen, c02Run)
}
