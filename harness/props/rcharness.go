package props

import (
	"bytes"
	"context"
	"fmt"
	"net"
	"time"

	"github.com/tsuna/gohbase/compression"
	"github.com/tsuna/gohbase/hrpc"
	"github.com/tsuna/gohbase/pb"
	"github.com/tsuna/gohbase/region"
	"google.golang.org/protobuf/proto"

	"verifharness/memconn"
	"verifharness/wire"
)

// rcEnv is one region client connected to a harness-owned memconn.
type rcEnv struct {
	rc   hrpc.RegionClient
	pair *memconn.Pair
	reg  hrpc.RegionInfo
}

// newRCEnv creates and dials a region client over a fresh memconn pair. The
// server side is pair.Server; the hello has been written by the time this
// returns (the caller reads it).
func newRCEnv(queueSize int, flush, readTimeout time.Duration, snappy bool, opts memconn.Options) (*rcEnv, error) {
	opts.Addr = "rs1:16020"
	pair := memconn.NewPair(opts)
	var codec compression.Codec
	if snappy {
		codec = compression.New("snappy")
	}
	dialer := func(ctx context.Context, network, addr string) (net.Conn, error) { return pair.Client, nil }
	rc := region.NewClient("rs1:16020", region.RegionClient, queueSize, flush, "verif", readTimeout, codec, dialer, envLogger())
	env := &rcEnv{rc: rc, pair: pair,
		reg: region.NewInfo(1, nil, []byte("t"), []byte("t,,1"), nil, nil)}
	if err := rc.Dial(context.Background()); err != nil {
		return env, err
	}
	return env, nil
}

// decodedReq is a request frame decoded by the independent codec.
type decodedReq struct {
	CallID  uint32
	Method  string
	Param   []byte
	Cells   []wire.Cell // all cells of the (decompressed) cellblock
	Markers []string    // markers found in the request, in order
	Rows    [][]byte
	Prio    uint32
}

// decodeStream parses everything the client wrote: hello, then frames.
func decodeStream(stream []byte, snappy bool) (hello *wire.Hello, reqs []decodedReq, err error) {
	r := bytes.NewReader(stream)
	hello, err = wire.ReadHello(r)
	if err != nil {
		return nil, nil, fmt.Errorf("hello: %w", err)
	}
	for r.Len() > 0 {
		off := len(stream) - r.Len()
		req, err := wire.ReadRequest(r)
		if err != nil {
			return hello, reqs, fmt.Errorf("frame %d at offset %d: %w", len(reqs), off, err)
		}
		d, err := decodeRequest(req, snappy, len(reqs))
		if err != nil {
			return hello, reqs, err
		}
		reqs = append(reqs, d)
	}
	return hello, reqs, nil
}

func markerOfPBGet(g *pb.Get) string {
	for _, col := range g.GetColumn() {
		for _, q := range col.GetQualifier() {
			if bytes.HasPrefix(q, []byte("mk")) {
				return string(q)
			}
		}
	}
	return ""
}

func markerOfPBMutation(m *pb.MutationProto, cells []wire.Cell) string {
	for _, c := range cells {
		if bytes.HasPrefix(c.Qualifier, []byte("mk")) {
			return string(c.Qualifier)
		}
	}
	for _, cv := range m.GetColumnValue() {
		for _, qv := range cv.GetQualifierValue() {
			if bytes.HasPrefix(qv.GetQualifier(), []byte("mk")) {
				return string(qv.GetQualifier())
			}
		}
	}
	return ""
}

// decodeRequest decodes one request frame with the independent codec.
func decodeRequest(req *wire.Request, snappy bool, idx int) (decodedReq, error) {
	d := decodedReq{CallID: req.Header.GetCallId(), Method: req.Header.GetMethodName(), Param: req.Param, Prio: req.Header.GetPriority()}
	if req.Header.CallId == nil {
		return d, fmt.Errorf("frame %d: no call id", idx)
	}
	cb := req.CellBlock
	if len(cb) > 0 && snappy {
		plain, _, err := wire.ReadBlocks(cb)
		if err != nil {
			return d, fmt.Errorf("frame %d: compressed cellblock: %w", idx, err)
		}
		cb = plain
	}
	cells, err := wire.DecodeAllCells(cb)
	if err != nil {
		return d, fmt.Errorf("frame %d (call %d): cellblock: %w", idx, d.CallID, err)
	}
	d.Cells = cells
	switch d.Method {
	case "Get":
		m := &pb.GetRequest{}
		if err := proto.Unmarshal(req.Param, m); err != nil {
			return d, fmt.Errorf("frame %d: GetRequest: %w", idx, err)
		}
		d.Rows = append(d.Rows, m.GetGet().GetRow())
		d.Markers = append(d.Markers, markerOfPBGet(m.GetGet()))
	case "Mutate":
		m := &pb.MutateRequest{}
		if err := proto.Unmarshal(req.Param, m); err != nil {
			return d, fmt.Errorf("frame %d: MutateRequest: %w", idx, err)
		}
		if int(m.GetMutation().GetAssociatedCellCount()) != len(cells) {
			return d, fmt.Errorf("frame %d: associated_cell_count=%d, cellblock holds %d cells", idx, m.GetMutation().GetAssociatedCellCount(), len(cells))
		}
		d.Rows = append(d.Rows, m.GetMutation().GetRow())
		d.Markers = append(d.Markers, markerOfPBMutation(m.GetMutation(), cells))
	case "Multi":
		m := &pb.MultiRequest{}
		if err := proto.Unmarshal(req.Param, m); err != nil {
			return d, fmt.Errorf("frame %d: MultiRequest: %w", idx, err)
		}
		off := 0
		for _, ra := range m.GetRegionAction() {
			for _, a := range ra.GetAction() {
				if a.Get != nil {
					d.Rows = append(d.Rows, a.Get.GetRow())
					d.Markers = append(d.Markers, markerOfPBGet(a.Get))
					continue
				}
				n := int(a.GetMutation().GetAssociatedCellCount())
				if off+n > len(cells) {
					return d, fmt.Errorf("frame %d: multi actions need more cells than the cellblock holds (%d)", idx, len(cells))
				}
				mine := cells[off : off+n]
				off += n
				for _, ce := range mine {
					if !bytes.Equal(ce.Row, a.GetMutation().GetRow()) {
						return d, fmt.Errorf("frame %d: cell row %q under mutation for row %q", idx, ce.Row, a.GetMutation().GetRow())
					}
				}
				d.Rows = append(d.Rows, a.GetMutation().GetRow())
				d.Markers = append(d.Markers, markerOfPBMutation(a.GetMutation(), mine))
			}
		}
		if off != len(cells) {
			return d, fmt.Errorf("frame %d: multi cell counts cover %d of %d cells", idx, off, len(cells))
		}
	case "Scan":
		m := &pb.ScanRequest{}
		if err := proto.Unmarshal(req.Param, m); err != nil {
			return d, fmt.Errorf("frame %d: ScanRequest: %w", idx, err)
		}
		d.Rows = append(d.Rows, m.GetScan().GetStartRow())
		mk := ""
		for _, at := range m.GetScan().GetAttribute() {
			if at.GetName() == "marker" {
				mk = string(at.GetValue())
			}
		}
		d.Markers = append(d.Markers, mk)
	default:
		return d, fmt.Errorf("frame %d: unknown method %q", idx, d.Method)
	}
	return d, nil
}
