package props

import (
	"bytes"
	"context"
	"fmt"
	"sort"
	"testing"
	"testing/synctest"
	"time"

	"github.com/tsuna/gohbase"
	"github.com/tsuna/gohbase/hrpc"
	"pgregory.net/rapid"

	"verifharness/evid"
	"verifharness/sim"
)

// c08cCase: the location cache as the whole client fills it: hbase:meta comes to list OLDER regions
// (smaller ids: a table restored from a snapshot) over ranges the client holds newer regions for.
type c08cCase struct {
	Bounds []evid.B `json:"bounds"` // layout of table t, regions with ids 1000+i
	Warm   []evid.B `json:"warm"`   // rows used first (their regions are cached)
	// Restore: regions From..To (indices, inclusive, clamped) are replaced in hbase:meta by ONE region
	// covering their ranges with id OldID (< 1000)
	From  int `json:"from"`
	To    int `json:"to"`
	OldID int `json:"old_id"`
	// Probe: rows requested afterwards (each with a 2 s deadline); Kill: the connections break first
	Probe []evid.B `json:"probe"`
	Kill  bool     `json:"kill"`
	// WarmScan: after the warm-up gets the whole table is scanned ("scan" forward, "rscan" reversed from a
	// drawn start row): scans discover regions too, and walk from region to region by their cached keys
	WarmScan  string `json:"warm_scan,omitempty"`
	ScanStart evid.B `json:"scan_start,omitempty"`
	// Listing: the first thing the (cold) client does is Client.CacheRegions on a table whose hbase:meta listing
	// itself holds an OLDER region (id OldID) next to the newer ones over regions From..To (a split parent
	// still listed beside its daughters): the newest wins, whatever the order and the state of the cache
	Listing bool `json:"listing,omitempty"`
}

func c08cRun(c c08cCase) Outcome {
	var o Outcome
	res := inBubble(theT, func() { o = c08cInBubble(c) })
	if o, stuck := stuckVerdict(res); stuck {
		return o
	}
	if res.Panic != "" {
		return viol("panic@"+topFrame(res.Stack), "%s\n%s", res.Panic, res.Stack)
	}
	if res.Deadlock != "" && o.Sig == "" && !exitLeak(res.Deadlock) {
		return viol("deadlock", "bubble deadlocked: %s\n%s", res.Deadlock, bubbleStacks(res.Stack))
	}
	return o
}

func cachedNames(client gohbase.Client, table string) (names []string, dead map[string]bool) {
	dead = map[string]bool{}
	for _, r := range gohbase.VerifCachedRegions(client) {
		if string(r.Table()) != table {
			continue
		}
		names = append(names, string(r.Name()))
		if r.Context().Err() != nil {
			dead[string(r.Name())] = true
		}
	}
	sort.Strings(names)
	return
}

func c08cInBubble(c c08cCase) (out Outcome) {
	l := layoutSpec{Table: "t", Bounds: c.Bounds, NServers: 2}
	cl := l.build()
	cl.MinLatency = time.Millisecond
	var scanRows []sim.ScanRow
	for _, k := range c.Warm {
		dup := false
		for _, r := range scanRows {
			dup = dup || bytes.Equal(r.Key, k)
		}
		if !dup && len(k) > 0 {
			scanRows = append(scanRows, sim.ScanRow{Key: k, Cells: 1})
		}
	}
	sort.Slice(scanRows, func(i, j int) bool { return bytes.Compare(scanRows[i].Key, scanRows[j].Key) < 0 })
	cl.ScanHandler = sim.NewScanServer(scanRows, nil).Handle
	client := newSimClient(cl)
	defer func() {
		client.Close()
		drainClient()
		cl.Stop()
	}()
	if c.Listing {
		regs := cl.TableRegions("t")
		from, to := c.From%len(regs), c.To%len(regs)
		if from > to {
			from, to = to, from
		}
		older := &sim.Region{Table: "t", Start: regs[from].Start, Stop: regs[to].Stop, ID: uint64(c.OldID), Addr: regs[from].Addr}
		older.Name = sim.RegionName("t", older.Start, older.ID, false)
		cl.Lock()
		cl.Regions = append(cl.Regions, older)
		cl.Unlock()
		if err := client.CacheRegions([]byte("t")); err != nil {
			return viol("harness", "CacheRegions: %v", err)
		}
		synctest.Wait()
		if o := c08cNoOverlap(client); o.Sig != "" {
			o.Msg += fmt.Sprintf(" after CacheRegions on a cold client; hbase:meta lists %q (id %d) beside the newer regions of its range", older.Name, c.OldID)
			return o
		}
		names, _ := cachedNames(client, "t")
		for _, n := range names {
			if n == string(older.Name) {
				return viol("older-region-admitted", "hbase:meta lists %q (id %d) beside newer regions of its range; after CacheRegions the cache holds it: %v", older.Name, c.OldID, names)
			}
		}
		out.NonTrivial = true
		out.Labels = append(out.Labels, "listing_with_an_older_overlapping_region")
		return out
	}
	for i, k := range c.Warm {
		if err, cerr := doOp(client, context.Background(), "t", opSpec{Kind: "get", Key: k, Marker: fmt.Sprintf("mkw%d", i)}); err != nil || cerr != nil {
			return viol("harness", "warm-up: %v %v", err, cerr)
		}
	}
	if c.WarmScan != "" {
		var sopts []func(hrpc.Call) error
		var start []byte
		if c.WarmScan == "rscan" {
			sopts = append(sopts, hrpc.Reversed())
			start = c.ScanStart
		}
		ctx, cancel := context.WithTimeout(context.Background(), time.Minute)
		scan, _ := hrpc.NewScanRange(ctx, []byte("t"), start, nil, sopts...)
		sc := client.Scan(scan)
		for n := 0; n < 1000; n++ {
			if _, err := sc.Next(); err != nil {
				break
			}
		}
		sc.Close()
		cancel()
		out.Labels = append(out.Labels, "warm_"+c.WarmScan)
	}
	// what the cache holds is what hbase:meta said: name, start and stop key of every cached region are those
	// of the cluster's region of that name (nothing has changed in the cluster so far)
	for _, r := range gohbase.VerifCachedRegions(client) {
		if string(r.Table()) != "t" {
			continue
		}
		var sr *sim.Region
		for _, x := range cl.TableRegions("t") {
			if bytes.Equal(x.Name, r.Name()) {
				sr = x
			}
		}
		if sr == nil {
			return viol("cached-region-unknown", "the cache holds region %q which hbase:meta never listed", r.Name())
		}
		if !bytes.Equal(sr.Start, r.StartKey()) || !bytes.Equal(sr.Stop, r.StopKey()) {
			return viol("cached-range-changed", "cached region %q has range [%q, %q); hbase:meta listed it as [%q, %q) (warm-up: gets %q, %s from %q)", r.Name(), r.StartKey(), r.StopKey(), sr.Start, sr.Stop, c.Warm, c.WarmScan, c.ScanStart)
		}
	}
	if o := c08cNoOverlap(client); o.Sig != "" {
		return o
	}
	regs := cl.TableRegions("t")
	from, to := c.From%len(regs), c.To%len(regs)
	if from > to {
		from, to = to, from
	}
	before, _ := cachedNames(client, "t")
	// which cached regions does the restored (older) region overlap?
	overlapsCached := false
	for _, r := range regs[from : to+1] {
		for _, n := range before {
			if n == string(r.Name) {
				overlapsCached = true
			}
		}
	}
	older := &sim.Region{Table: "t", Start: regs[from].Start, Stop: regs[to].Stop, ID: uint64(c.OldID), Addr: regs[from].Addr}
	older.Name = sim.RegionName("t", older.Start, older.ID, false)
	cl.Lock()
	var keep []*sim.Region
	for _, r := range cl.Regions {
		gone := false
		for _, x := range regs[from : to+1] {
			gone = gone || r == x
		}
		if !gone {
			keep = append(keep, r)
		}
	}
	cl.Regions = append(keep, older)
	cl.Unlock()
	if c.Kill {
		cl.KillConns("rs1:16020")
		cl.KillConns("rs2:16020")
		synctest.Wait()
	}
	for i, k := range c.Probe {
		ctx, cancel := context.WithTimeout(context.Background(), 2*time.Second)
		doOp(client, ctx, "t", opSpec{Kind: "get", Key: k, Marker: fmt.Sprintf("mkp%d", i)})
		cancel()
	}
	after, dead := cachedNames(client, "t")
	// the newest wins: a region discovered from hbase:meta that overlaps a NEWER cached region leaves the cache
	// unchanged - the newer regions stay (alive), the older one is not admitted. Regions of ranges the restored one
	// does not touch may come and go (they are discovered normally).
	inRange := func(name string) bool {
		for _, r := range regs[from : to+1] {
			if name == string(r.Name) {
				return true
			}
		}
		return false
	}
	for _, n := range after {
		if n == string(older.Name) && overlapsCached {
			return viol("older-region-admitted", "hbase:meta lists %q (id %d) over the range of cached regions with ids >= 1000; after requests for rows %q the cache holds it: %v (before: %v)", older.Name, c.OldID, c.Probe, after, before)
		}
	}
	for _, n := range before {
		if !inRange(n) {
			continue
		}
		found := false
		for _, m := range after {
			found = found || m == n
		}
		if !found || dead[n] {
			return viol("newer-region-evicted", "cached region %q (newer than what hbase:meta lists now, %q) is gone from the cache or marked dead after requests for rows %q: %v (before: %v)", n, older.Name, c.Probe, after, before)
		}
	}
	if o := c08cNoOverlap(client); o.Sig != "" {
		return o
	}
	out.NonTrivial = overlapsCached
	if overlapsCached {
		out.Labels = append(out.Labels, "older_region_over_cached_newer_ones")
	}
	if to > from {
		out.Labels = append(out.Labels, "older_region_spans_several")
	}
	return out
}

// c08cNoOverlap: no two cached regions of table t overlap.
func c08cNoOverlap(client gohbase.Client) Outcome {
	cached := gohbase.VerifCachedRegions(client)
	for i, a := range cached {
		for _, b := range cached[i+1:] {
			if string(a.Table()) == "t" && string(b.Table()) == "t" && rangesOverlap(a.StartKey(), a.StopKey(), b.StartKey(), b.StopKey()) {
				return viol("cache-overlap", "cached regions %q [%q, %q) and %q [%q, %q) overlap", a.Name(), a.StartKey(), a.StopKey(), b.Name(), b.StartKey(), b.StopKey())
			}
		}
	}
	return Outcome{}
}

func rangesOverlap(as, ae, bs, be []byte) bool {
	// [as, ae) and [bs, be) with empty end = unbounded
	if len(ae) != 0 && bytes.Compare(ae, bs) <= 0 {
		return false
	}
	if len(be) != 0 && bytes.Compare(be, as) <= 0 {
		return false
	}
	return true
}

func TestC08_ClientDiscovery(t *testing.T) {
	theT = t
	rec := evid.New("C08", "TestC08_ClientDiscovery",
		"rapid, virtual time, whole client against the simulated cluster: a table of 1..6 regions (ids 1000+i), some of them used "+
			"(cached) by gets and optionally by a forward or reversed whole-table scan - after which every cached region must have the name and the range hbase:meta listed, and none overlap; then hbase:meta lists ONE older region (id below 1000) over the ranges of 1..n neighbouring regions (a table "+
			"restored from a snapshot), optionally all connections break, and rows inside and around that range are requested with a "+
			"deadline. Oracle on the client's cache (hook VerifCachedRegions): the older region is not admitted while it overlaps a "+
			"newer cached region, the newer cached regions stay cached and alive, no two cached regions overlap. Or (listing): the cold client's first act is CacheRegions while the listing itself holds the older region beside the newer ones - same oracle. Non-trivial = the "+
			"older region overlaps at least one cached region; distinct by case hash")
	Drive(t, rec, true, func(t *rapid.T) c08cCase {
		var c c08cCase
		l := genLayout(t, 6, 2)
		c.Bounds = l.Bounds
		lay := layoutSpec{Table: "t", Bounds: c.Bounds}
		nw := rapid.IntRange(1, 6).Draw(t, "nwarm")
		for i := 0; i < nw; i++ {
			c.Warm = append(c.Warm, genKeyFor(t, lay))
		}
		c.From = rapid.IntRange(0, 5).Draw(t, "from")
		c.To = rapid.IntRange(0, 5).Draw(t, "to")
		c.OldID = rapid.IntRange(1, 999).Draw(t, "oldid")
		np := rapid.IntRange(1, 4).Draw(t, "nprobe")
		for i := 0; i < np; i++ {
			if rapid.Bool().Draw(t, "probewarm") {
				c.Probe = append(c.Probe, c.Warm[rapid.IntRange(0, len(c.Warm)-1).Draw(t, "pw")])
			} else {
				c.Probe = append(c.Probe, genKeyFor(t, lay))
			}
		}
		c.Kill = rapid.Bool().Draw(t, "kill")
		c.Listing = rapid.IntRange(0, 4).Draw(t, "listing") == 0
		c.WarmScan = rapid.SampledFrom([]string{"", "scan", "rscan", "rscan"}).Draw(t, "warmscan")
		if c.WarmScan == "rscan" {
			c.ScanStart = append(evid.B{}, genKeyFor(t, lay)...)
			if len(c.ScanStart) == 0 || rapid.Bool().Draw(t, "fromend") {
				c.ScanStart = evid.B("\xff\xff\xff")
			}
		}
		return c
	}, c08cRun)
}
