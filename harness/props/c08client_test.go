package props

import (
	"bytes"
	"context"
	"fmt"
	"sort"
	"testing"
	"testing/synctest"
	"time"

	"github.com/tsuna/gohbase"
	"pgregory.net/rapid"

	"verifharness/evid"
	"verifharness/sim"
)

// c08cCase: the location cache as the whole client fills it: hbase:meta comes to list OLDER regions
// (smaller ids: a table restored from a snapshot) over ranges the client holds newer regions for.
type c08cCase struct {
	Bounds []evid.B `json:"bounds"` // layout of table t, regions with ids 1000+i
	Warm   []evid.B `json:"warm"`   // rows used first (their regions are cached)
	// Restore: regions From..To (indices, inclusive, clamped) are replaced in hbase:meta by ONE region
	// covering their ranges with id OldID (< 1000)
	From  int `json:"from"`
	To    int `json:"to"`
	OldID int `json:"old_id"`
	// Probe: rows requested afterwards (each with a 2 s deadline); Kill: the connections break first
	Probe []evid.B `json:"probe"`
	Kill  bool     `json:"kill"`
}

func c08cRun(c c08cCase) Outcome {
	var o Outcome
	res := inBubble(theT, func() { o = c08cInBubble(c) })
	if o, stuck := stuckVerdict(res); stuck {
		return o
	}
	if res.Panic != "" {
		return viol("panic@"+topFrame(res.Stack), "%s\n%s", res.Panic, res.Stack)
	}
	if res.Deadlock != "" && o.Sig == "" && !exitLeak(res.Deadlock) {
		return viol("deadlock", "bubble deadlocked: %s\n%s", res.Deadlock, bubbleStacks(res.Stack))
	}
	return o
}

func cachedNames(client gohbase.Client, table string) (names []string, dead map[string]bool) {
	dead = map[string]bool{}
	for _, r := range gohbase.VerifCachedRegions(client) {
		if string(r.Table()) != table {
			continue
		}
		names = append(names, string(r.Name()))
		if r.Context().Err() != nil {
			dead[string(r.Name())] = true
		}
	}
	sort.Strings(names)
	return
}

func c08cInBubble(c c08cCase) (out Outcome) {
	l := layoutSpec{Table: "t", Bounds: c.Bounds, NServers: 2}
	cl := l.build()
	cl.MinLatency = time.Millisecond
	client := newSimClient(cl)
	defer func() {
		client.Close()
		drainClient()
		cl.Stop()
	}()
	for i, k := range c.Warm {
		if err, cerr := doOp(client, context.Background(), "t", opSpec{Kind: "get", Key: k, Marker: fmt.Sprintf("mkw%d", i)}); err != nil || cerr != nil {
			return viol("harness", "warm-up: %v %v", err, cerr)
		}
	}
	regs := cl.TableRegions("t")
	from, to := c.From%len(regs), c.To%len(regs)
	if from > to {
		from, to = to, from
	}
	before, _ := cachedNames(client, "t")
	// which cached regions does the restored (older) region overlap?
	overlapsCached := false
	for _, r := range regs[from : to+1] {
		for _, n := range before {
			if n == string(r.Name) {
				overlapsCached = true
			}
		}
	}
	older := &sim.Region{Table: "t", Start: regs[from].Start, Stop: regs[to].Stop, ID: uint64(c.OldID), Addr: regs[from].Addr}
	older.Name = sim.RegionName("t", older.Start, older.ID, false)
	cl.Lock()
	var keep []*sim.Region
	for _, r := range cl.Regions {
		gone := false
		for _, x := range regs[from : to+1] {
			gone = gone || r == x
		}
		if !gone {
			keep = append(keep, r)
		}
	}
	cl.Regions = append(keep, older)
	cl.Unlock()
	if c.Kill {
		cl.KillConns("rs1:16020")
		cl.KillConns("rs2:16020")
		synctest.Wait()
	}
	for i, k := range c.Probe {
		ctx, cancel := context.WithTimeout(context.Background(), 2*time.Second)
		doOp(client, ctx, "t", opSpec{Kind: "get", Key: k, Marker: fmt.Sprintf("mkp%d", i)})
		cancel()
	}
	after, dead := cachedNames(client, "t")
	// the newest wins: a region discovered from hbase:meta that overlaps a NEWER cached region leaves the cache
	// unchanged - the newer regions stay (alive), the older one is not admitted. Regions of ranges the restored one
	// does not touch may come and go (they are discovered normally).
	inRange := func(name string) bool {
		for _, r := range regs[from : to+1] {
			if name == string(r.Name) {
				return true
			}
		}
		return false
	}
	for _, n := range after {
		if n == string(older.Name) && overlapsCached {
			return viol("older-region-admitted", "hbase:meta lists %q (id %d) over the range of cached regions with ids >= 1000; after requests for rows %q the cache holds it: %v (before: %v)", older.Name, c.OldID, c.Probe, after, before)
		}
	}
	for _, n := range before {
		if !inRange(n) {
			continue
		}
		found := false
		for _, m := range after {
			found = found || m == n
		}
		if !found || dead[n] {
			return viol("newer-region-evicted", "cached region %q (newer than what hbase:meta lists now, %q) is gone from the cache or marked dead after requests for rows %q: %v (before: %v)", n, older.Name, c.Probe, after, before)
		}
	}
	// no two cached regions of the table overlap
	cached := gohbase.VerifCachedRegions(client)
	for i, a := range cached {
		for _, b := range cached[i+1:] {
			if string(a.Table()) == "t" && string(b.Table()) == "t" && rangesOverlap(a.StartKey(), a.StopKey(), b.StartKey(), b.StopKey()) {
				return viol("cache-overlap", "cached regions %q and %q overlap", a.Name(), b.Name())
			}
		}
	}
	out.NonTrivial = overlapsCached
	if overlapsCached {
		out.Labels = append(out.Labels, "older_region_over_cached_newer_ones")
	}
	if to > from {
		out.Labels = append(out.Labels, "older_region_spans_several")
	}
	return out
}

func rangesOverlap(as, ae, bs, be []byte) bool {
	// [as, ae) and [bs, be) with empty end = unbounded
	if len(ae) != 0 && bytes.Compare(ae, bs) <= 0 {
		return false
	}
	if len(be) != 0 && bytes.Compare(be, as) <= 0 {
		return false
	}
	return true
}

func TestC08_ClientDiscovery(t *testing.T) {
	theT = t
	rec := evid.New("C08", "TestC08_ClientDiscovery",
		"rapid, virtual time, whole client against the simulated cluster: a table of 1..6 regions (ids 1000+i), some of them used "+
			"(cached); then hbase:meta lists ONE older region (id below 1000) over the ranges of 1..n neighbouring regions (a table "+
			"restored from a snapshot), optionally all connections break, and rows inside and around that range are requested with a "+
			"deadline. Oracle on the client's cache (hook VerifCachedRegions): the older region is not admitted while it overlaps a "+
			"newer cached region, the newer cached regions stay cached and alive, no two cached regions overlap. Non-trivial = the "+
			"older region overlaps at least one cached region; distinct by case hash")
	Drive(t, rec, true, func(t *rapid.T) c08cCase {
		var c c08cCase
		l := genLayout(t, 6, 2)
		c.Bounds = l.Bounds
		lay := layoutSpec{Table: "t", Bounds: c.Bounds}
		nw := rapid.IntRange(1, 6).Draw(t, "nwarm")
		for i := 0; i < nw; i++ {
			c.Warm = append(c.Warm, genKeyFor(t, lay))
		}
		c.From = rapid.IntRange(0, 5).Draw(t, "from")
		c.To = rapid.IntRange(0, 5).Draw(t, "to")
		c.OldID = rapid.IntRange(1, 999).Draw(t, "oldid")
		np := rapid.IntRange(1, 4).Draw(t, "nprobe")
		for i := 0; i < np; i++ {
			if rapid.Bool().Draw(t, "probewarm") {
				c.Probe = append(c.Probe, c.Warm[rapid.IntRange(0, len(c.Warm)-1).Draw(t, "pw")])
			} else {
				c.Probe = append(c.Probe, genKeyFor(t, lay))
			}
		}
		c.Kill = rapid.Bool().Draw(t, "kill")
		return c
	}, c08cRun)
}
