package props

import (
	"context"
	"errors"
	"testing"
	"testing/synctest"
	"time"

	"github.com/tsuna/gohbase"
	"github.com/tsuna/gohbase/hrpc"
	"pgregory.net/rapid"

	"verifharness/evid"
	"verifharness/sim"
)

// c13aCase: an administrative call is cancelled (or its deadline expires) while the admin client waits.
type c13aCase struct {
	State string `json:"state"` // zk | dialrefused | hold | notready | silent
	Mode  string `json:"mode"`  // cancel | deadline
	Kind  string `json:"kind"`  // list | balancer
	AtMS  int    `json:"at_ms"` // when the context ends
}

func c13aRun(c c13aCase) Outcome {
	var o Outcome
	res := inBubble(theT, func() { o = c13aInBubble(c) })
	if so, stuck := stuckVerdict(res); stuck {
		return so
	}
	if res.Panic != "" {
		return viol("panic@"+topFrame(res.Stack), "%s\n%s", res.Panic, res.Stack)
	}
	if res.Deadlock != "" && o.Sig == "" && !exitLeak(res.Deadlock) {
		return viol("cancel-deadlock@admin/"+c.State, "bubble deadlocked: %s\n%s", res.Deadlock, bubbleStacks(res.Stack))
	}
	return o
}

func c13aInBubble(c c13aCase) (out Outcome) {
	cl := sim.New("m1:16000", "m2:16000")
	switch c.State {
	case "zk":
		cl.ZKHold = true
	case "dialrefused":
		cl.Servers["m1:16000"].Down = true
	case "hold", "notready":
		class := sim.PleaseHold
		if c.State == "notready" {
			class = sim.NotRunningYet
		}
		for k := 0; k < 200; k++ {
			cl.Script["master"] = append(cl.Script["master"], sim.Outcome{Kind: "exc", Class: class, Stack: "master is initializing"})
		}
	case "silent":
		cl.Servers["m1:16000"].Silent = true
	}
	ac := gohbase.VerifNewAdminClient(cl.ZK(), gohbase.RegionDialer(cl.Dial), gohbase.Logger(quietLogger),
		gohbase.RegionReadTimeout(time.Hour))
	defer func() {
		cl.Lock()
		cl.ZKHold = false
		cl.Unlock()
		gohbase.VerifCloseAdmin(ac)
		cl.SetServer("m1:16000", func(s *sim.ServerState) { s.Down, s.Silent = false, false })
		cl.Lock()
		cl.Script["master"] = nil
		cl.Unlock()
		drainClient()
		cl.Stop()
	}()
	at := time.Duration(c.AtMS) * time.Millisecond
	var ctx context.Context
	var cancel context.CancelFunc
	if c.Mode == "deadline" {
		ctx, cancel = context.WithTimeout(context.Background(), at)
	} else {
		ctx, cancel = context.WithCancel(context.Background())
	}
	defer cancel()
	done := make(chan error, 1)
	var returnedAt time.Time
	start := time.Now()
	go func() {
		var err error
		if c.Kind == "list" {
			call, _ := hrpc.NewListTableNames(ctx)
			_, err = ac.ListTableNames(call)
		} else {
			call, _ := hrpc.NewSetBalancer(ctx, true)
			_, err = ac.SetBalancer(call)
		}
		returnedAt = time.Now()
		done <- err
	}()
	time.Sleep(at)
	if c.Mode == "cancel" {
		cancel()
	}
	synctest.Wait()
	select {
	case err := <-done:
		if returnedAt.Sub(start) < at {
			return viol("returned-early@admin/"+c.State, "the call returned %v after %v although the state persists and its context was alive until %v", err, returnedAt.Sub(start), at)
		}
		if !errors.Is(err, context.Canceled) && !errors.Is(err, context.DeadlineExceeded) {
			return viol("cancel-wrong-error@admin/"+c.State, "the call returned %v, not a context error", err)
		}
	default:
		time.Sleep(100 * time.Millisecond)
		synctest.Wait()
		select {
		case err := <-done:
			if returnedAt.Sub(start) > at+100*time.Millisecond {
				return viol("cancel-ignored@admin/"+c.State, "the call returned %v after its context ended (err %v)", returnedAt.Sub(start)-at, err)
			}
		default:
			stack := firstGohbaseStack(gohbaseGoroutines(), "SendRPC")
			go func() { <-done }()
			return viol("cancel-ignored@admin/"+c.State, "an administrative call (%s) was still blocked 100 virtual ms after its context ended (%s, state %s); blocked at:\n%s", c.Kind, c.Mode, c.State, stack)
		}
	}
	out.NonTrivial = true
	out.Labels = append(out.Labels, "admin_state_"+c.State)
	return out
}

func TestC13_AdminCancellation(t *testing.T) {
	theT = t
	rec := evid.New("C13", "TestC13_AdminCancellation",
		"rapid, virtual time: an administrative call (ListTableNames / SetBalancer) on an admin client is waiting on a held "+
			"ZooKeeper lookup of the master, a master that refuses connections, one that answers PleaseHold / ServerNotRunningYet "+
			"for ever (retry back-off, re-lookup), or one that is silent, when its context is cancelled or its deadline expires at a "+
			"drawn virtual time. Oracle: the call does not return before that (the state persists), returns within 100 virtual ms "+
			"after it, with a context error. Every case is non-trivial; distinct by case hash")
	Drive(t, rec, true, func(t *rapid.T) c13aCase {
		return c13aCase{
			State: rapid.SampledFrom([]string{"zk", "dialrefused", "hold", "notready", "silent"}).Draw(t, "state"),
			Mode:  rapid.SampledFrom([]string{"cancel", "deadline"}).Draw(t, "mode"),
			Kind:  rapid.SampledFrom([]string{"list", "balancer"}).Draw(t, "kind"),
			AtMS:  rapid.SampledFrom([]int{1, 10, 17, 40, 100, 500, 3000, 20000, 100000}).Draw(t, "at"),
		}
	}, c13aRun)
}
