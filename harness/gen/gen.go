// Package gen holds rapid generators shared by the property checks.
package gen

import (
	"bytes"
	"sort"

	"pgregory.net/rapid"
)

// Hot is the biased alphabet for row keys: bytes around the separators the
// client's search keys and comparator care about.
var Hot = []byte{0x00, 0x01, '+', ',', '-', '.', ':', '0', '9', 'a', 'b', 0xfe, 0xff}

// KeyByte draws one key byte: mostly from Hot, sometimes uniform.
func KeyByte() *rapid.Generator[byte] {
	return rapid.Custom(func(t *rapid.T) byte {
		if rapid.IntRange(0, 9).Draw(t, "u") == 0 {
			return rapid.Byte().Draw(t, "b")
		}
		return rapid.SampledFrom(Hot).Draw(t, "h")
	})
}

// Key draws a row key of length 0..maxLen (biased to short).
func Key(maxLen int) *rapid.Generator[[]byte] {
	return rapid.Custom(func(t *rapid.T) []byte {
		n := rapid.IntRange(0, maxLen).Draw(t, "len")
		if rapid.IntRange(0, 3).Draw(t, "short") > 0 && n > 3 {
			n = n % 4
		}
		out := make([]byte, n)
		for i := range out {
			out[i] = KeyByte().Draw(t, "kb")
		}
		return out
	})
}

// LongKey draws a key of up to maxLen bytes made of a prefix of a block-aligned or
// block-straddling length (0,1,7,8,9,15,16,17,31,32,33 bytes, all the same filler byte or a
// counting pattern) followed by a short tail over all byte values: keys that agree over whole
// machine words and differ at any offset inside or across a word, with any byte distance
// (salted / hashed / binary row keys; word-at-a-time comparison loops).
func LongKey(maxLen int) *rapid.Generator[[]byte] {
	return rapid.Custom(func(t *rapid.T) []byte {
		pl := rapid.SampledFrom([]int{0, 1, 7, 8, 9, 15, 16, 17, 31, 32, 33}).Draw(t, "plen")
		if pl > maxLen {
			pl = maxLen
		}
		fill := rapid.SampledFrom([]byte{0x00, 'k', 0x7f, 0x80, 0xff}).Draw(t, "fill")
		count := rapid.Bool().Draw(t, "count")
		out := make([]byte, 0, maxLen)
		for i := 0; i < pl; i++ {
			if count {
				out = append(out, fill+byte(i))
			} else {
				out = append(out, fill)
			}
		}
		n := rapid.IntRange(0, min(9, maxLen-pl)).Draw(t, "tail")
		for i := 0; i < n; i++ {
			if rapid.Bool().Draw(t, "hotb") {
				out = append(out, rapid.SampledFrom([]byte{0x00, 0x01, 0x7f, 0x80, 0x81, 0xfe, 0xff, ',', 'a'}).Draw(t, "hb"))
			} else {
				out = append(out, rapid.Byte().Draw(t, "b"))
			}
		}
		return out
	})
}

// Perturb changes one byte of k (any position) to a drawn value, or flips its top bit.
func Perturb(t *rapid.T, k []byte) []byte {
	out := append([]byte(nil), k...)
	if len(out) == 0 {
		return out
	}
	i := rapid.IntRange(0, len(out)-1).Draw(t, "pos")
	switch rapid.IntRange(0, 3).Draw(t, "how") {
	case 0:
		out[i] ^= 0x80
	case 1:
		out[i] = rapid.Byte().Draw(t, "to")
	case 2:
		out[i]++
	case 3:
		out[i]--
	}
	return out
}

// KeyFrom draws a key over a fixed alphabet.
func KeyFrom(alpha []byte, maxLen int) *rapid.Generator[[]byte] {
	return rapid.Custom(func(t *rapid.T) []byte {
		n := rapid.IntRange(0, maxLen).Draw(t, "len")
		out := make([]byte, n)
		for i := range out {
			out[i] = rapid.SampledFrom(alpha).Draw(t, "kb")
		}
		return out
	})
}

// Near derives a key equal or adjacent to k: k itself, k+0x00, k with the
// last byte +-1, a prefix of k, k followed by 0xff bytes, k followed by a
// drawn byte.
func Near(t *rapid.T, k []byte) []byte {
	out := append([]byte(nil), k...)
	switch rapid.IntRange(0, 7).Draw(t, "near") {
	case 0:
	case 1:
		out = append(out, 0x00)
	case 2:
		if len(out) > 0 {
			if out[len(out)-1] > 0 {
				out[len(out)-1]--
			} else {
				out = out[:len(out)-1]
			}
		}
	case 3:
		if len(out) > 0 && out[len(out)-1] < 0xff {
			out[len(out)-1]++
		} else {
			out = append(out, 0x00)
		}
	case 4:
		if len(out) > 0 {
			out = out[:rapid.IntRange(0, len(out)-1).Draw(t, "pfx")]
		}
	case 5:
		n := rapid.IntRange(1, 3).Draw(t, "ffs")
		for i := 0; i < n; i++ {
			out = append(out, 0xff)
		}
	case 6:
		out = append(out, KeyByte().Draw(t, "sfx"))
	case 7:
		if len(out) > 0 {
			out[len(out)-1]--
			out = append(out, 0xff)
		}
	}
	return out
}

// Boundaries draws a sorted list of 0..n distinct non-empty keys (region
// split points).
func Boundaries(t *rapid.T, n int, keyMax int) [][]byte {
	k := rapid.IntRange(0, n).Draw(t, "nbound")
	set := map[string]bool{}
	var out [][]byte
	for i := 0; i < k; i++ {
		var b []byte
		if len(out) > 0 && rapid.IntRange(0, 2).Draw(t, "derive") == 0 {
			b = Near(t, out[rapid.IntRange(0, len(out)-1).Draw(t, "from")])
		} else if keyMax >= 3 && rapid.IntRange(0, 5).Draw(t, "longb") == 0 {
			b = LongKey(24).Draw(t, "bkeylong")
		} else {
			b = Key(keyMax).Draw(t, "bkey")
		}
		if len(b) == 0 || set[string(b)] {
			continue
		}
		set[string(b)] = true
		out = append(out, b)
	}
	sort.Slice(out, func(i, j int) bool { return bytes.Compare(out[i], out[j]) < 0 })
	return out
}

// TableFamily is a set of table names that are prefixes of / adjacent to
// each other under the legal alphabet.
var TableFamily = []string{"t", "t-", "t.", "t0", "tt", "t_", "T", "ns:t", "ns:t-", "n:t", "s", "u",
	// same namespace, qualifiers that are suffixes / substrings of one another
	"ns:tt", "ns:at", "ns:ta", "n:tt", "n:at", "at", "ta"}

// Table draws a table name from TableFamily or a fresh legal one.
func Table() *rapid.Generator[string] {
	return rapid.Custom(func(t *rapid.T) string {
		if rapid.IntRange(0, 5).Draw(t, "fresh") == 0 {
			s := rapid.StringMatching(`[A-Za-z0-9_][A-Za-z0-9_.\-]{0,5}`).Draw(t, "tbl")
			if rapid.IntRange(0, 3).Draw(t, "ns") == 0 {
				s = rapid.StringMatching(`[A-Za-z0-9_]{1,3}`).Draw(t, "nsname") + ":" + s
			}
			return s
		}
		return rapid.SampledFrom(TableFamily).Draw(t, "tbl")
	})
}
