"""Per-property configuration of the checks: which test functions decide a property, with
which budgets per tier. ./check reads this; ./check --manifest turns it into MANIFEST.json."""

HOOKS = {
    "guard": "verif",
    "enable": "go1.26.8 test -tags verif (harness module /verif/harness, replace github.com/tsuna/gohbase => /repo); "
              "if the hook files are absent from /repo the driver injects copies with -overlay",
    "baseline_off_cmd": "cd /repo && go test -vet=off -count=1 -timeout 25m ./...",
    "source_commits": ["4fc7d7a"],
    "add_only": True,
}

ENGINES = [
    {"name": "rapid+harness", "path": "/verif/harness",
     "serves_properties": ["C%02d" % i for i in range(1, 21)],
     "kind_free_text": "pgregory.net/rapid v1.3.0 generators and state machines, native go fuzzing, an independent "
                       "HBase wire codec and simulated cluster, in-memory connections and testing/synctest virtual "
                       "time (Go 1.26.8); python3 driver /verif/check"},
]

NOTES = ("All checks are property-based tests / fuzzers with explicit oracles; see DESIGN.md. "
         "Exit 2 + INCONCLUSIVE means an infrastructure problem, never a violation.")

NOT_APPLICABLE = []

PROPS = {}


def prop(pid, level, technique, level_text, level_note, units, assumptions=()):
    PROPS[pid] = {"level": level, "technique": technique, "level_text": level_text,
                  "level_note": level_note, "units": units, "assumptions": list(assumptions)}


prop("C16", "exploration",
     "property-based testing (rapid) of region.Compare against a tuple-order oracle + exhaustive small-scope "
     "enumeration + order laws",
     "Generated and exhaustively enumerated region-name pairs/triples are compared with a component-wise "
     "(table, start key, id) oracle; also antisymmetry, transitivity and sortedness. Exhaustive only within the "
     "stated small scope; otherwise sampling.",
     "Trusted: bytes.Compare; my reading of 'well-formed region name' (table over the legal alphabet, no comma "
     "in the id suffix).",
     [
         {"test": "TestC16_Generated", "quick": {"checks": 150000, "timeout": 120},
          "thorough": {"checks": 1500000, "shards": 16, "timeout": 900}},
         {"test": "TestC16_Exhaustive", "quick": {"checks": 1, "timeout": 60},
          "thorough": {"checks": 1, "timeout": 60}},
     ],
     ["region names are well-formed: table over [A-Za-z0-9_.-] with optional ns:, id suffix without commas"])
