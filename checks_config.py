"""Per-property configuration of the checks: which test functions decide a property, with
which budgets per tier. ./check reads this; ./check --manifest turns it into MANIFEST.json."""

HOOKS = {
    "guard": "verif",
    "enable": "go1.26.8 test -tags verif (harness module /verif/harness, replace github.com/tsuna/gohbase => /repo); "
              "if the hook files are absent from /repo the driver injects copies with -overlay",
    "baseline_off_cmd": "cd /repo && go test -vet=off -count=1 -timeout 25m ./...",
    "source_commits": ["4fc7d7a", "eb3db2f", "08a7e0b", "df90f0b", "0b20721"],
    "add_only": True,
}

ENGINES = [
    {"name": "rapid+harness", "path": "/verif/harness",
     "serves_properties": ["C%02d" % i for i in range(1, 21)],
     "kind_free_text": "pgregory.net/rapid v1.3.0 generators and state machines, native go fuzzing, an independent "
                       "HBase wire codec and simulated cluster, in-memory connections and testing/synctest virtual "
                       "time (Go 1.26.8); python3 driver /verif/check"},
]

NOTES = ("All checks are property-based tests / fuzzers with explicit oracles; see DESIGN.md. "
         "Exit 2 + INCONCLUSIVE means an infrastructure problem, never a violation.")

NOT_APPLICABLE = []

PROPS = {}


def prop(pid, level, technique, level_text, level_note, units, assumptions=()):
    PROPS[pid] = {"level": level, "technique": technique, "level_text": level_text,
                  "level_note": level_note, "units": units, "assumptions": list(assumptions)}


prop("C16", "exploration",
     "property-based testing (rapid) of region.Compare against a tuple-order oracle + exhaustive small-scope "
     "enumeration + order laws",
     "Generated and exhaustively enumerated region-name pairs/triples are compared with a component-wise "
     "(table, start key, id) oracle; also antisymmetry, transitivity and sortedness. Exhaustive only within the "
     "stated small scope; otherwise sampling.",
     "Trusted: bytes.Compare; my reading of 'well-formed region name' (table over the legal alphabet, no comma "
     "in the id suffix).",
     [
         {"test": "TestC16_Generated", "quick": {"checks": 150000, "shards": 4, "timeout": 120},
          "thorough": {"checks": 1500000, "shards": 16, "timeout": 900}},
         {"test": "TestC16_Exhaustive", "quick": {"checks": 1, "timeout": 60},
          "thorough": {"checks": 1, "timeout": 60}},
     ],
     ["region names are well-formed: table over [A-Za-z0-9_.-] with optional ns:, id suffix without commas"])


prop("C08", "exploration",
     "stateful property-based testing (rapid) of the location cache against a brute-force interval model + "
     "exhaustive small-scope enumeration of put histories",
     "Generated put/del/get histories on the real cache type; after every step contents, (overlaps, replaced), dead "
     "marks and lookups are compared with a brute-force model and pairwise non-overlap is asserted directly. All "
     "histories of <=3 (thorough: 4) puts over a 30-region scope are enumerated.",
     "Trusted: the brute-force model; equal-id overlaps are only held to the invariant (winner unspecified); "
     "removals are issued only for objects that were accepted into the cache, as the client's callers do.",
     [
         {"test": "TestC08_StateMachine", "quick": {"checks": 20000, "shards": 4, "timeout": 200},
          "thorough": {"checks": 300000, "shards": 16, "timeout": 1200}},
         {"test": "TestC08_Exhaustive", "quick": {"checks": 1, "timeout": 120},
          "thorough": {"checks": 1, "timeout": 900}},
         {"test": "TestC08_Concurrent", "quick": {"checks": 4000, "shards": 4, "timeout": 300},
          "thorough": {"checks": 40000, "shards": 8, "timeout": 2400}},
         {"test": "TestC08_ClientDiscovery", "quick": {"checks": 1500, "shards": 4, "timeout": 300},
          "thorough": {"checks": 30000, "shards": 16, "timeout": 2400}},
     ],
     ["removals only name regions that were accepted into the cache at some point"])

prop("C10", "exploration",
     "property-based testing (rapid) + native fuzzing: round-trip through the client's decoder and an independent "
     "KeyValue decoder, and agreement of the protobuf and cellblock encodings",
     "Generated mutation specifications over the whole documented domain; three oracles (independent decoder, own "
     "decoder with trailing data, protobuf form vs cellblock form). Sampling, not exhaustive.",
     "Trusted: the independent decoder in harness/wire, protobuf-go, the DeleteType<->KeyValue type table of HBase.",
     [
         {"test": "TestC10_Mutations", "quick": {"checks": 60000, "shards": 4, "timeout": 200},
          "thorough": {"checks": 600000, "shards": 16, "timeout": 1500}},
         {"test": "TestC10_Sequence", "quick": {"checks": 20000, "shards": 4, "timeout": 200},
          "thorough": {"checks": 200000, "shards": 16, "timeout": 1500}},
         {"test": "TestC10_BatchOnWire", "quick": {"checks": 1500, "shards": 4, "timeout": 300},
          "thorough": {"checks": 20000, "shards": 16, "timeout": 1500}},
         {"fuzz": "FuzzC10", "thorough": {"fuzztime": "90s", "workers": 8, "timeout": 400}},
     ],
     ["rows <= 65535 bytes and families <= 255 bytes (the format cannot carry more)"])

prop("C15", "exploration",
     "property-based testing (rapid) + native fuzzing: round trip, differential against an independent Hadoop "
     "block-stream reader/writer, differential on damaged streams",
     "Generated payloads around the chunk size as 1..8 buffers, conforming server streams with arbitrary blocks and "
     "chunking, and truncations/substitutions/insertions/deletions; four oracles as in DESIGN.md C15.",
     "Trusted: golang/snappy for chunk payloads on both sides (framing is independent); decoding n bytes may allocate at "
     "most 256 MiB + 128 n (alloc-bomb otherwise).",
     [
         {"test": "TestC15_Compression", "tag": "386", "quick": {"checks": 4000, "shards": 2, "timeout": 300, "goarch": "386"},
          "thorough": {"checks": 60000, "shards": 8, "timeout": 1500, "goarch": "386"}},
         {"test": "TestC15_Compression", "quick": {"checks": 8000, "shards": 4, "timeout": 200},
          "thorough": {"checks": 80000, "shards": 16, "timeout": 1500}},
         {"test": "TestC15_ClientRoundTrip", "quick": {"checks": 1500, "shards": 4, "timeout": 300},
          "thorough": {"checks": 10000, "shards": 16, "timeout": 1500}},
         {"test": "TestC15_SharedCompressor", "quick": {"checks": 1500, "shards": 4, "timeout": 300},
          "thorough": {"checks": 8000, "shards": 16, "timeout": 1500}},
         {"test": "TestC15_SharedCompressor", "tag": "race", "thorough": {"checks": 300, "shards": 4, "timeout": 1500, "race": True}},
         {"fuzz": "FuzzC15Decompress", "thorough": {"fuzztime": "90s", "workers": 8, "timeout": 400}},
     ],
     ["raw snappy has no checksum: a damaged stream that is still a conforming stream may decode to what it denotes"])

prop("C06", "exploration",
     "property-based testing (rapid): the real scanner against a model regionserver/RPCClient with a generated "
     "chunking tape; oracle = sorted range-filtered model table",
     "Generated tables, layouts, ranges, directions and server chunking behaviours; the scanner's output must equal "
     "the model's rows in range, in order, whole, once, then io.EOF. A request budget turns non-termination into a "
     "verdict.",
     "Trusted: the model server (my reading of the scan protocol: region routing by start row, "
     "more_results_in_region / more_results semantics, partial flags). Filters and server-side limits are outside "
     "the domain; start==stop ranges are not generated (servers read them as point gets).",
     [
         {"test": "TestC06_Scanner", "quick": {"checks": 150000, "shards": 4, "timeout": 300},
          "thorough": {"checks": 2000000, "shards": 16, "timeout": 2400}},
         {"test": "TestC06_ScanWire", "quick": {"checks": 4000, "shards": 4, "timeout": 300},
          "thorough": {"checks": 40000, "shards": 16, "timeout": 2400}},
     ],
     ["row keys and region boundaries contain no run of eight 0xff (documented approximation)",
      "reversed scans have an explicit start row"])

prop("C14", "fault_enumeration",
     "property-based testing (rapid) with generated end points (close / error on request j / cancel / early "
     "no-more-results / renewal) against the model regionserver's scanner table",
     "Every generated scan is ended at a drawn point by Close, an injected RPC error on request j, cancellation, or "
     "by the server; oracle on the (result, error) sequence and on the set of region scanners still open at the "
     "model server after asynchronous closes drained (virtual time).",
     "Trusted: the model server; cancellation points are between Next calls at this level (held requests are covered "
     "by the wire-level check).",
     [
         {"test": "TestC14_Scanner", "quick": {"checks": 100000, "shards": 4, "timeout": 300},
          "thorough": {"checks": 1500000, "shards": 16, "timeout": 2400}},
         {"test": "TestC14_ScanWire", "quick": {"checks": 4000, "shards": 4, "timeout": 300},
          "thorough": {"checks": 40000, "shards": 16, "timeout": 2400}},
     ],
     ["injected RPC errors are non-retryable and hit only non-close requests (server state stays knowable)"])


prop("C02", "exploration",
     "property-based testing (rapid) of the whole client against a simulated cluster under virtual time; oracle = "
     "responses derived from (row, marker) by the servers",
     "Generated concurrent callers, groupings into multi-requests, response reordering and result permutation; every "
     "caller must receive exactly the response (or marked error) the simulated server produced for its request.",
     "Trusted: the simulated cluster and the independent wire codec. Interleavings inside the client are sampled by the "
     "Go scheduler, not enumerated.",
     [
         {"test": "TestC02_OwnResponse", "quick": {"checks": 4000, "shards": 4, "timeout": 300},
          "thorough": {"checks": 40000, "shards": 16, "timeout": 2400}},
         {"test": "TestC02_OwnResponse", "tag": "race", "thorough": {"checks": 3000, "shards": 4, "timeout": 3000, "race": True}},
     ],
     ["RegionActionResults come back in request order (protocol requirement)"])

prop("C05", "exploration",
     "property-based testing (rapid): everything the client writes is parsed by an independent HBase RPC decoder and "
     "compared with the call specifications; concurrent senders on in-memory and loopback-TCP connections",
     "Generated calls/options/groupings; the byte stream must decode into well-formed frames that equal the "
     "specifications, for one or many concurrent senders, with and without snappy.",
     "Trusted: harness/wire (frame, KeyValue, block stream decoders), protobuf-go.",
     [
         {"test": "TestC05_WireContent", "quick": {"checks": 5000, "shards": 4, "timeout": 300},
          "thorough": {"checks": 60000, "shards": 16, "timeout": 2400}},
         {"test": "TestC05_ConcurrentSenders", "quick": {"checks": 4000, "shards": 4, "timeout": 300},
          "thorough": {"checks": 40000, "shards": 16, "timeout": 2400}},
         {"test": "TestC05_ConcurrentSenders", "tag": "race", "thorough": {"checks": 4000, "shards": 4, "timeout": 3000, "race": True}},
         {"test": "TestC05_TCP", "quick": {"checks": 300, "shards": 4, "timeout": 300},
          "thorough": {"checks": 3000, "shards": 8, "timeout": 1200}},
     ],
     [])


prop("C07", "exploration",
     "property-based testing (rapid) of SendBatch against a simulated cluster with per-(call, attempt) outcome scripts "
     "under virtual time; oracle derived from the script and the servers' execution log",
     "Generated batches, outcome sequences across retry rounds, failing re-location and cancellation; result i must be "
     "call i's own response or own error, delivered successes are kept, ok == all nil.",
     "Trusted: the simulated cluster; which success was 'delivered' is taken from the servers' log (not asserted when "
     "the batch was cancelled).",
     [
         {"test": "TestC07_BatchResults", "quick": {"checks": 5000, "shards": 4, "timeout": 300},
          "thorough": {"checks": 50000, "shards": 16, "timeout": 2400}},
         {"test": "TestC07_BatchResults", "tag": "race", "thorough": {"checks": 4000, "shards": 4, "timeout": 3000, "race": True}},
     ],
     ["scripted connection-level faults happen before execution"])

prop("C12", "exploration",
     "property-based testing (rapid) of SendBatch against a simulated cluster; oracle on the per-marker execution log "
     "of the servers",
     "Generated valid and invalid batches with retryable / non-retryable outcome scripts and concurrent batches; "
     "rejection without sending, per-region order, at-most-once execution, no resend after success, exact send counts; "
     "batches grouped while a region of theirs is split (stale parent and fresh daughter in one batch).",
     "Trusted: the simulated cluster; faults are injected only before execution (never executed-then-lost, which would "
     "make re-execution legitimate).",
     [
         {"test": "TestC12_BatchExecution", "quick": {"checks": 5000, "shards": 4, "timeout": 300},
          "thorough": {"checks": 50000, "shards": 16, "timeout": 2400}},
         {"test": "TestC12_BatchExecution", "tag": "race", "thorough": {"checks": 4000, "shards": 4, "timeout": 3000, "race": True}},
         {"test": "TestC12_StaleRegionInBatch", "quick": {"checks": 1500, "shards": 4, "timeout": 300},
          "thorough": {"checks": 20000, "shards": 16, "timeout": 2400}},
     ],
     ["faults are injected before execution only"])


prop("C13", "fault_enumeration",
     "property-based testing (rapid) over an enumerated cross product (entry point x wait state x which context x "
     "cancel/deadline) against the simulated cluster under virtual time",
     "Every combination of API entry point, confirmed wait state and context kind is generated with drawn shapes; the "
     "call must have returned at the next quiescence point after the context ended (<= 100 virtual ms; for a call "
     "inside a batch sharing an unanswered multi-request: once the others were failed over) with a context error.",
     "Trusted: synctest quiescence as the definition of 'still blocked'; the state confirmation through the simulated "
     "cluster. An unbatched call blocked inside net.Conn.Write cannot observe its context and is not generated.",
     [
         {"test": "TestC13_AdminCancellation", "quick": {"checks": 500, "shards": 4, "timeout": 300},
          "thorough": {"checks": 5000, "shards": 8, "timeout": 1500}},
         {"test": "TestC13_Cancellation", "quick": {"checks": 6000, "shards": 4, "timeout": 300},
          "thorough": {"checks": 60000, "shards": 16, "timeout": 2400}},
         {"test": "TestC13_ScanOpenScanner", "quick": {"checks": 2000, "shards": 4, "timeout": 300},
          "thorough": {"checks": 20000, "shards": 8, "timeout": 2400}},
     ],
     ["'short bounded delay' is read as 100 ms of virtual time after the context ended",
      "for a batch the statement only requires the call to be marked failed, not a particular error"])


prop("C18", "exploration",
     "property-based testing (rapid) with generated action scripts on one region client over a harness-owned in-memory "
     "connection under virtual time; invariant 'deadline armed <=> requests outstanding' at every quiescence point",
     "Generated scripts of sends (incl. the unlucky scheduling where Write returns after the response was consumed), "
     "answers in any order, cancellations and pauses; exact virtual-time arithmetic on the read deadline and on the "
     "failure instant.",
     "Trusted: memconn's deadline semantics (mirror net.Conn), synctest virtual time.",
     [
         {"test": "TestC18_ReadDeadline", "quick": {"checks": 6000, "shards": 4, "timeout": 300},
          "thorough": {"checks": 80000, "shards": 16, "timeout": 2400}},
         {"test": "TestC18_ClientTimeouts", "quick": {"checks": 1500, "shards": 4, "timeout": 300},
          "thorough": {"checks": 30000, "shards": 16, "timeout": 2400}},
         {"test": "TestC18_ReadDeadline", "tag": "race", "thorough": {"checks": 3000, "shards": 4, "timeout": 3000, "race": True}},
     ],
     [])

prop("C03", "fault_enumeration",
     "property-based testing (rapid) of workloads x exhaustive enumeration of fault positions per workload, on one "
     "region client over a harness-owned in-memory connection under virtual time",
     "For every generated workload every position of the drawn fault family is executed (k-th connection operation "
     "fails incl. partial writes; external Close at operation k; server-fatal frame / garbage / truncation / close / "
     "silence at request j); oracle: exactly-once completion with ServerError, immediate refusal afterwards, no "
     "goroutine left, no deadlock.",
     "Trusted: memconn fault injection; goroutine interleavings between the failing paths are sampled (2 repetitions per "
     "position), not enumerated.",
     [
         {"test": "TestC03_SenderRacesFailure", "quick": {"checks": 600, "shards": 4, "timeout": 300},
          "thorough": {"checks": 6000, "shards": 8, "timeout": 1500}},
         {"test": "TestC03_SilentAfterAnswer", "quick": {"checks": 400, "shards": 2, "timeout": 300},
          "thorough": {"checks": 4000, "shards": 4, "timeout": 1500}},
         {"test": "TestC03_ConnectionFailure", "quick": {"checks": 1500, "shards": 4, "timeout": 300},
          "thorough": {"checks": 15000, "shards": 16, "timeout": 2400}},
         {"test": "TestC03_ConnectionFailure", "tag": "race", "thorough": {"checks": 600, "shards": 4, "timeout": 3000, "race": True}},
     ],
     ["calls whose own context ended may receive zero or one result"])


prop("C11", "exploration",
     "structure-aware property-based testing (rapid: valid responses damaged by drawn mutations of length / count / "
     "index fields, hostile constants, truncation, byte flips) + native coverage-guided fuzzing of the decoders and of "
     "one step of the connection reader",
     "Generated malformed response frames, cellblocks, compressed streams and region-info values are fed to the "
     "decoders and to the reader's receive step with calls outstanding; buffers have cap == len so that any read "
     "beyond the received data panics; oracle: no panic, termination, no addressed call left without result or error.",
     "Trusted: the hook VerifReceive registers calls exactly as send() does; duplicate results are drained as a waiting "
     "caller would. Decoding n bytes may allocate at most 256 MiB + 128 n (a length declared inside the data must be checked "
     "against the data before memory is reserved for it): more is reported as alloc-bomb.",
     [
         {"test": "TestC11_ClientDecoders", "quick": {"checks": 3000, "shards": 4, "timeout": 300},
          "thorough": {"checks": 100000, "shards": 16, "timeout": 1500}},
         {"test": "TestC11_Malformed", "tag": "386", "quick": {"checks": 4000, "shards": 2, "timeout": 400, "goarch": "386"},
          "thorough": {"checks": 40000, "shards": 8, "timeout": 3000, "goarch": "386"}},
         {"test": "TestC11_Malformed", "quick": {"checks": 8000, "shards": 4, "timeout": 400},
          "thorough": {"checks": 100000, "shards": 16, "timeout": 3000}},
         {"fuzz": "FuzzC11Receive", "thorough": {"fuzztime": "120s", "workers": 8, "timeout": 500}},
         {"fuzz": "FuzzC11CellBlock", "thorough": {"fuzztime": "120s", "workers": 8, "timeout": 500}},
     ],
     ["frames are at most 1 MiB (larger declared sizes are clamped)"])


prop("C19", "exploration",
     "property-based testing (rapid) of Close at generated points (gated through the simulated cluster) under virtual "
     "time; oracle on call outcomes, open connections at the servers, cluster activity and leftover goroutines",
     "Generated workloads are parked in a chosen state (idle, in flight, ZooKeeper / meta / dial / probe held, "
     "back-off, dial refused), Close runs once/twice/concurrently and the awaited event happens afterwards; calls must "
     "return promptly with success or a client-closed error, and at quiescence nothing is open, active or running.",
     "Trusted: the simulated cluster's view of open connections; synctest's check that no goroutine of the bubble is "
     "left. Interleavings inside the client are sampled. A caller inside a retry back-off sleep is given until the end "
     "of that sleep.",
     [
         {"test": "TestC19_Close", "quick": {"checks": 5000, "shards": 4, "timeout": 300},
          "thorough": {"checks": 50000, "shards": 16, "timeout": 2400}},
         {"test": "TestC19_Close", "tag": "race", "thorough": {"checks": 4000, "shards": 4, "timeout": 3000, "race": True}},
     ],
     ["'promptly' is read as 100 ms of virtual time (end of the current back-off sleep for a caller in back-off)"])


prop("C04", "exploration",
     "property-based testing (rapid) of the whole client against a simulated cluster with generated fault scripts "
     "under virtual time (real back-off); plus an enumerated classification-table check",
     "Generated event sequences (move, split, merge, transient classes, server abort/stop, reset, dial refusal, meta "
     "move) interleaved with requests; every request with a live context must succeed with its own response within a "
     "virtual horizon after the last event and be executed by the hosting server; application exceptions come back "
     "unchanged, unretried; each exception class triggers the reaction the property names.",
     "Trusted: the simulated cluster (my reading of HBase's reactions), virtual horizon of 10 minutes as 'eventually'.",
     [
         {"test": "TestC04_AdminSurvival", "quick": {"checks": 1500, "shards": 4, "timeout": 300},
          "thorough": {"checks": 20000, "shards": 16, "timeout": 1500}},
         {"test": "TestC04_FaultSurvival", "quick": {"checks": 5000, "shards": 4, "timeout": 300},
          "thorough": {"checks": 50000, "shards": 16, "timeout": 2400}},
         {"test": "TestC04_FaultSurvival", "tag": "race", "thorough": {"checks": 3000, "shards": 4, "timeout": 3000, "race": True}},
         {"test": "TestC04_Classification", "quick": {"checks": 1500, "shards": 4, "timeout": 120},
          "thorough": {"checks": 6000, "shards": 2, "timeout": 600}},
     ],
     ["fault sequences are finite (<= 8 events) and the cluster is stable afterwards",
      "'executed then response lost' happens only through connection-level events, where re-execution is legitimate"])

prop("C09", "exploration",
     "property-based testing (rapid) with many concurrent callers and concurrently injected faults against the "
     "simulated cluster under virtual time; thorough tier built with the Go race detector",
     "Sampling of schedules, not coverage: the harness owns the clock and every network-visible event, the Go "
     "scheduler chooses the interleavings inside the client. Oracle: no panic / deadlock / data race, all requests "
     "complete after stabilisation, no region left unavailable.",
     "Trusted: the race detector, synctest deadlock detection. This is the weakest claim of the set.",
     [
         {"test": "TestC09_ConcurrentFailures", "quick": {"checks": 2500, "shards": 4, "timeout": 300},
          "thorough": {"checks": 6000, "shards": 16, "timeout": 3000, "race": True}},
         {"test": "TestC09_DebugDump", "quick": {"checks": 300, "shards": 4, "timeout": 300},
          "thorough": {"checks": 3000, "shards": 8, "timeout": 1500, "race": True}},
     ],
     ["interleavings inside the client are sampled, not enumerated"])


prop("C20", "exploration",
     "property-based testing (rapid) of the whole client against the simulated cluster's dial/close log under "
     "virtual time",
     "Generated layouts, concurrent first users, later discoveries, CacheRegions and connection failures; every dial "
     "to an address must find all earlier connections to it given up by the client, and without failures each "
     "address is dialled once.",
     "Trusted: the simulated cluster's log (client-side close times from memconn). Server-fatal exceptions are "
     "injected as a server state (exception + the server dropping the connection), not as isolated per-action results.",
     [
         {"test": "TestC20_ClientCacheConcurrent", "quick": {"checks": 400, "shards": 4, "timeout": 300},
          "thorough": {"checks": 4000, "shards": 16, "timeout": 1500}},
         {"test": "TestC20_ClientCacheConcurrent", "tag": "race", "thorough": {"checks": 300, "shards": 4, "timeout": 1500, "race": True}},
         {"test": "TestC20_OneConnection", "quick": {"checks": 4000, "shards": 4, "timeout": 300},
          "thorough": {"checks": 40000, "shards": 16, "timeout": 2400}},
         {"test": "TestC20_OneConnection", "tag": "race", "thorough": {"checks": 2500, "shards": 4, "timeout": 3000, "race": True}},
     ],
     ["a server answering with a server-fatal class also drops the connection, as real servers do"])

prop("C17", "exploration",
     "property-based testing (rapid) in exact virtual time: the back-off function against the schedule formula, and "
     "enumerated persistent-failure scenarios of the whole client against timestamps recorded by the simulated cluster",
     "The real sleepAndIncreaseBackoff is called on every rung, threshold and drawn duration with cancellation; every "
     "retry path (single, batch, connection drops, dial failures, probe failures, meta down, ZooKeeper errors) must "
     "space its attempts by at least the schedule (lower bounds only, as the property says).",
     "Trusted: synctest virtual time; timestamps taken by the simulated cluster.",
     [
         {"test": "TestC17_Formula", "quick": {"checks": 30000, "shards": 4, "timeout": 120},
          "thorough": {"checks": 300000, "shards": 4, "timeout": 900}},
         {"test": "TestC17_RetrySchedule", "quick": {"checks": 3000, "shards": 4, "timeout": 300},
          "thorough": {"checks": 30000, "shards": 16, "timeout": 2400}},
     ],
     ["lower bounds on gaps only"])


prop("C01", "exploration",
     "property-based testing (rapid): the client's cache lookup against brute-force containment over an exhaustive "
     "small key universe per generated layout, and end-to-end routing observed by simulated regionservers",
     "Generated prefix-related tables, layouts, holes, insertion orders and keys; every lookup is compared with "
     "brute-force containment; on the wire every request and multi action must name the owning region at the hosting "
     "server, return the key-derived value, and meta lookups must equal first touches.",
     "Trusted: brute-force containment, the simulated cluster's layout model and meta comparator (written from HBase's "
     "MetaCellComparator).",
     [
         {"test": "TestC01_CacheLookup", "quick": {"checks": 3000, "shards": 4, "timeout": 200},
          "thorough": {"checks": 40000, "shards": 16, "timeout": 1800}},
         {"test": "TestC01_EndToEnd", "quick": {"checks": 3000, "shards": 4, "timeout": 300},
          "thorough": {"checks": 30000, "shards": 16, "timeout": 2400}},
     ],
     ["row keys shorter than MaxInt16 - len(table) - 3 bytes (longer ones are truncated by the client and rejected by HBase)"])
