#!/bin/bash
# stress.sh [rounds]: silence of the quick tier on the unchanged tree under varying seeds and GOMAXPROCS.
ROUNDS=${1:-3}
cd /verif
for r in $(seq 1 $ROUNDS); do
  for p in C01 C02 C03 C04 C05 C06 C07 C08 C09 C10 C11 C12 C13 C14 C15 C16 C17 C18 C19 C20; do
    G=$(( (RANDOM % 4 == 0) ? 2 : ((RANDOM % 3 == 0) ? 4 : 16) ))
    S=$(( RANDOM % 1000 + 2 ))
    OUT=$(VERIF_EVIDENCE_DIR=/verif/.work/evidence-stress GOMAXPROCS=$G VERIF_SEED=$S ./check $p quick 2>&1); RC=$?
    echo "round=$r prop=$p seed=$S gomaxprocs=$G rc=$RC $(echo "$OUT" | grep -a -E 'VIOLATION|INCONCLUSIVE' | head -2 | cut -c1-200)"
  done
done
