#!/usr/bin/env python3
"""Sensitivity runs: apply hand-written mutants of /repo one at a time through `go -overlay` (no
copy of the tree, /repo untouched), check whether the repository's own tests still pass with the
mutant, and whether the property's quick check reports a VIOLATION. Writes SENSITIVITY.md.

  ./sens.py            run all mutants
  ./sens.py C08 C16    only those properties
"""
import json
import os
import re
import subprocess
import sys
import time

ROOT = os.path.dirname(os.path.abspath(__file__))
WORK = os.path.join(ROOT, ".work", "sens")

# (name, property, file under /repo, old text, new text, what it does)
MUTANTS = [
    ("m01a", "C01", "rpc.go", "bytes.Compare(key, region.StopKey()) >= 0 {\n\t\treturn nil\n\t}\n\n\treturn region",
     "bytes.Compare(key, region.StopKey()) > 0 {\n\t\treturn nil\n\t}\n\n\treturn region", "cache lookup: key == stop key accepted"),
    ("m01b", "C01", "rpc.go", "metaKey = append(metaKey, ':')\n\treturn metaKey", "metaKey = append(metaKey, '9')\n\treturn metaKey",
     "search key ends in '9' instead of ':'"),
    ("m01c", "C01", "rpc.go", "if !bytes.Equal(fullyQualifiedTable(region), table) {\n\t\t// not the same table, can happen if we got the last region\n\t\treturn nil\n\t}",
     "if false {\n\t\treturn nil\n\t}", "cache lookup without the table-equality test"),
    ("m02a", "C02", "region/multi.go", "\t\t\tnread += n\n", "\t\t\tnread = n\n", "multi: cellblock offset of a result is the size of the previous one, not the running sum"),
    ("m03a", "C03", "region/client.go", "\t\tif r := c.unregisterRPC(id); r != nil {\n\t\t\t// we are the ones to unregister the rpc,\n\t\t\t// return err to notify client of it\n\t\t\treturn err\n\t\t}",
     "\t\tc.unregisterRPC(id)\n\t\treturn err", "trySend returns the error even if fail() already completed the call (double completion)"),
    ("m03b", "C03", "region/client.go", "\tdefer func() {\n\t\tm.returnResults(nil, ErrClientClosed)\n\t}()", "\tdefer func() {}()",
     "pending multi not failed when the batching loop exits"),
    ("m03c", "C03", "region/client.go", "\t\tc.failSentRPCs()\n\t})", "\t})", "fail() does not drain the sent table"),
    ("m04a", "C04", "region/client.go", "\t\t\"org.apache.hadoop.hbase.exceptions.RegionOpeningException\": \"\",\n", "", "RegionOpeningException no longer retryable"),
    ("m04b", "C04", "rpc.go", "\t\tif reg.MarkUnavailable() {\n\t\t\tgo c.reestablishRegion(reg)\n\t\t}\n\tcase region.ServerError:",
     "\tcase region.ServerError:", "NotServingRegionError no longer marks the region unavailable"),
    ("m04c", "C04", "rpc.go", "\t\tif reg == c.adminRegionInfo {\n\t\t\t// If this is the admin client, mark the region\n\t\t\t// as unavailable and start up a goroutine to\n\t\t\t// reconnect if it wasn't already marked as such.\n\t\t\tif reg.MarkUnavailable() {\n\t\t\t\tgo c.reestablishRegion(reg)\n\t\t\t}\n\t\t} else {",
     "\t\tif reg == c.adminRegionInfo {\n\t\t} else {", "admin client: a dead master connection is not re-established"),
    ("m05a", "C05", "region/client.go", ("\tc.writeM.Lock()\n", "\tc.writeM.Unlock()\n"), ("", ""), "write lock removed"),
    ("m06a", "C06", "scanner.go", "\ttmp[len(tmp)-1] = tmp[len(tmp)-1] - 1\n", "\ttmp[len(tmp)-1] = tmp[len(tmp)-1] - 2\n", "reversed scan: predecessor key off by one more"),
    ("m06b", "C06", "scanner.go", "\t\tif rsk[len(rsk)-1] == 0x0 {\n\t\t\ts.startRow = rsk[:len(rsk)-1]\n\t\t\treturn\n\t\t}\n", "", "reversed scan: zero-suffix shortening dropped"),
    ("m06c", "C06", "scanner.go", "\t// same row, add the partial\n\tresult.Cell = append(result.Cell, partial.Cell...)", "\t// same row, add the partial\n\tresult.Cell = append(partial.Cell, result.Cell...)",
     "coalesce prepends the new fragment"),
    ("m07a", "C07", "rpc.go", "\t\t\tfor i, rpc := range batch {\n\t\t\t\tif lookupRes[i].Error != nil {\n\t\t\t\t\tres[rpcToRes[rpc]] = lookupRes[i]\n", "\t\t\tfor i := range batch {\n\t\t\t\tif lookupRes[i].Error != nil {\n\t\t\t\t\tres[i] = lookupRes[i]\n", "re-introduces the retry-batch index bug"),
    ("m07b", "C07", "rpc.go", "\t\tallOK = !unretryableErrorSeen\n", "\t\tallOK = true\n", "ok flag forgets unretryable errors after a retry round"),
    ("m08a", "C08", "caches.go", "(len(regB.StopKey()) == 0 || bytes.Compare(regA.StartKey(), regB.StopKey()) < 0)",
     "(len(regB.StopKey()) == 0 || bytes.Compare(regA.StartKey(), regB.StopKey()) <= 0)", "touching neighbours treated as overlapping"),
    ("m08b", "C08", "caches.go", "\t\tkrc.regions.Delete(o.Name())\n\t\t// let region establishers know that they can give up\n\t\to.MarkDead()",
     "\t\tkrc.regions.Delete(o.Name())", "evicted regions not marked dead"),
    ("m08c", "C08", "caches.go", "\t\t\tif o.ID() > reg.ID() {", "\t\t\tif o.ID() >= reg.ID() && false {", "newer overlapping regions get evicted by older ones"),
    ("m09a", "C09", "region/info.go", "\tif i.available == nil {\n\t\ti.available = make(chan struct{})\n\t\tcreated = true\n\t}",
     "\tif i.available == nil {\n\t\ti.available = make(chan struct{})\n\t}\n\tcreated = true", "MarkUnavailable always returns true (several establishers, double close)"),
    ("m10a", "C10", "hrpc/mutate.go", "\t\t\t\tif m.deleteOneVersion {\n\t\t\t\t\tmt = deleteType\n\t\t\t\t} else {\n\t\t\t\t\tmt = deleteColumnType\n\t\t\t\t}",
     "\t\t\t\tif m.deleteOneVersion {\n\t\t\t\t\tmt = deleteColumnType\n\t\t\t\t} else {\n\t\t\t\t\tmt = deleteType\n\t\t\t\t}", "delete kinds swapped in the cellblock form only"),
    ("m10b", "C10", "hrpc/mutate.go", "\t\tts = math.MaxInt64 // Java's Long.MAX_VALUE use for HBase's LATEST_TIMESTAMP", "\t\tts = math.MaxUint64", "latest sentinel written as MaxUint64"),
    ("m11a", "C11", "hrpc/call.go", "\tif len(b) < int(keyLen)+1 {", "\tif false {", "row length bounds check removed"),
    ("m11b", "C11", "region/client.go", "int64(cellsLen) > int64(rest)", "false", "cellblock length check removed"),
    ("m12a", "C12", "rpc.go", "\t\t\tcase region.ServerError, region.NotServingRegionError:\n\t\t\t\tretryables = append(retryables, rpc)\n\t\t\tdefault:\n\t\t\t\tunretryableError = true",
     "\t\t\tcase region.ServerError, region.NotServingRegionError:\n\t\t\t\tretryables = append(retryables, rpc)\n\t\t\tdefault:\n\t\t\t\tretryables = append(retryables, rpc)\n\t\t\t\tunretryableError = true",
     "non-retryable failures are sent again"),
    ("m12b", "C12", "region/multi.go", "\t\tas.pbs = append(as.pbs, a)\n", "\t\tas.pbs = append([]*pb.Action{a}, as.pbs...)\n", "multi lists a region's actions in reverse order"),
    ("m01d", "C01", "rpc.go", "\tif stop := reg.StopKey(); len(stop) != 0 && len(stop) <= len(probe) &&", "\tif stop := reg.StopKey(); false && len(stop) != 0 && len(stop) <= len(probe) &&", "probe key not brought back into a tiny region"),
    ("m11d", "C11", "region/info.go", "\tif !bytes.Equal(cell.Row[:first], table) ||\n\t\t!bytes.Equal(cell.Row[first+1:last], regInfo.StartKey) {", "\tif false {", "region name no longer compared with the region info"),
    ("m11e", "C11", "region/client.go", "\tif size > math.MaxInt32 {", "\tif false && size > math.MaxInt32 {", "frame length of 2^31 and more accepted"),
    # (m11f - probeKey slicing to the length of any stop key - was caught until 49cf911; since then a region info whose stop key
    # sorts before its start key never reaches probeKey, the guard is unreachable from hbase:meta and the mutant equivalent)
    ("m11g", "C11", "region/info.go", "\tif len(regInfo.EndKey) != 0 && bytes.Compare(regInfo.StartKey, regInfo.EndKey) >= 0 {", "\tif false {", "region infos that end before they start accepted"),
    ("m13a", "C13", "rpc.go", "\t\t\tcase <-ctx.Done():\n\t\t\t\treturn nil, ctx.Err()\n\t\t\tcase <-c.done:\n\t\t\t\treturn nil, ErrClientClosed\n\t\t\tcase <-ch:\n\t\t\t}\n\t\t}\n\n\t\tclient := reg.Client()",
     "\t\t\tcase <-c.done:\n\t\t\t\treturn nil, ErrClientClosed\n\t\t\tcase <-ch:\n\t\t\t}\n\t\t}\n\n\t\tclient := reg.Client()", "first availability wait ignores the context"),
    ("m13b", "C13", "rpc.go", "\tselect {\n\tcase <-time.After(backoff):\n\tcase <-ctx.Done():\n\t\treturn 0, ctx.Err()\n\tcase <-closed:", "\tselect {\n\tcase <-time.After(backoff):\n\tcase <-closed:", "back-off sleep ignores the context"),
    ("m14a", "C14", "scanner.go", "\t\tif err != nil {\n\t\t\ts.Close()\n\t\t\treturn nil, err\n\t\t}\n\t\tif s.rpc.TrackScanMetrics()", "\t\tif err != nil {\n\t\t\treturn nil, err\n\t\t}\n\t\tif s.rpc.TrackScanMetrics()",
     "fetch does not close the scanner on error"),
    ("m14b", "C14", "scanner.go", "\tif s.failed {", "\tif false {", "error reported again after the first time"),
    ("m15a", "C15", "region/compressor.go", "\t\tif uncompressedSoFar > uncompressedBlockLen {", "\t\tif false {", "decompressor accepts blocks that inflate beyond the declared length"),
    ("m15b", "C15", "region/compressor.go", "\tif x < y {\n\t\treturn int(x)\n\t}\n\treturn int(y)", "\tif x > y {\n\t\treturn int(x)\n\t}\n\treturn int(y)", "min returns the larger value"),
    ("m16a", "C16", "region/info.go", "\t\t\treturn 1001 // `b' has a smaller table name.  a > b", "\t\t\treturn -1001", "table-prefix comparison sign"),
    ("m16b", "C16", "region/info.go", "\treturn len(a) - len(b)\n}", "\treturn 0\n}", "final length tie-break dropped"),
    ("m17a", "C17", "rpc.go", "\tif backoff < 5*time.Second {\n\t\treturn backoff * 2, nil", "\tif backoff < 4*time.Second {\n\t\treturn backoff * 2, nil", "doubling stops at 4s"),
    ("m17b", "C17", "rpc.go", "\t\t\t\tif serverErrorCount > 1 {\n\t\t\t\t\tneedBackoff = true\n\t\t\t\t}", "", "batch never backs off on connection errors"),
    ("m18a", "C18", "region/client.go", "\tif c.inFlight == 0 {\n\t\tif err := c.conn.SetReadDeadline(time.Time{}); err != nil {", "\tif c.inFlight == 0 && false {\n\t\tif err := c.conn.SetReadDeadline(time.Time{}); err != nil {",
     "deadline never cleared"),
    ("m18b", "C18", "region/client.go", "\tif c.inFlight <= 0 {", "\tif c.inFlight < 0 {", "deadline armed when the counter returns to zero"),
    ("m19a", "C19", "rpc.go", "\t\t\t// Close() has run in the meantime and may have missed this\n\t\t\t// region client: it's on us to close it\n\t\t\tclient.Close()\n\t\t\treturn",
     "\t\t\treturn", "establisher does not close the region client created across Close()"),
    ("m19b", "C19", "rpc.go", "\t\t\tcase <-c.done:\n\t\t\t\treturn nil, ErrClientClosed\n\t\t\tcase <-ch:\n\t\t\t}\n\t\t}\n\n\t\tclient := reg.Client()", "\t\t\tcase <-ch:\n\t\t\t}\n\t\t}\n\n\t\tclient := reg.Client()",
     "waiters do not watch the closed signal"),
    ("m20a", "C20", "caches.go", "\t\tif addr == existingClient.Addr() {", "\t\tif addr == existingClient.Addr() && len(regions) < 2 {", "a third region of a server gets its own connection"),
]

ENV = dict(os.environ, GOFLAGS="-mod=mod", GOPROXY="off", GOSUMDB="off")


def run(cmd, **kw):
    return subprocess.run(cmd, stdout=subprocess.PIPE, stderr=subprocess.STDOUT, text=True, **kw)


def main():
    only = set(sys.argv[1:])
    os.makedirs(WORK, exist_ok=True)
    rows = []
    for name, prop, rel, old, new, what in MUTANTS:
        if only and prop not in only and name not in only:
            continue
        src = open(os.path.join("/repo", rel)).read()
        olds, news = (old, new) if isinstance(old, tuple) else ((old,), (new,))
        bad = [o for o in olds if src.count(o) != 1]
        if bad:
            rows.append((name, prop, rel, what, "PATTERN NOT FOUND (%d matches)" % src.count(bad[0]), "-", "-"))
            print(rows[-1], flush=True)
            continue
        mutated = src
        for o, n in zip(olds, news):
            mutated = mutated.replace(o, n)
        d = os.path.join(WORK, name)
        os.makedirs(d, exist_ok=True)
        mfile = os.path.join(d, os.path.basename(rel))
        open(mfile, "w").write(mutated)
        ov = os.path.join(d, "overlay.json")
        json.dump({"Replace": {os.path.join("/repo", rel): mfile}}, open(ov, "w"))
        pkg = "./" + os.path.dirname(rel) if os.path.dirname(rel) else "."
        t = run(["go", "test", "-overlay", ov, "-vet=off", "-count=1", "-timeout", "120s", pkg], cwd="/repo", env=dict(ENV, GOTOOLCHAIN="local"))
        tests = "pass" if t.returncode == 0 else ("BUILD-FAIL" if "build failed" in t.stdout or "cannot" in t.stdout and "FAIL" not in t.stdout else "fail")
        t0 = time.time()
        c = run([os.path.join(ROOT, "check"), prop, "quick"], cwd=ROOT, env=dict(os.environ, VERIF_OVERLAY=ov, VERIF_SEED="1", VERIF_EVIDENCE_DIR=os.path.join(ROOT, ".work", "evidence-sens")))
        dt = time.time() - t0
        sigs = sorted(set(re.findall(r"VIOLATION property=\S+ replay=\S+ sig=(\S+)", c.stdout)))
        verdict = {0: "MISSED", 1: "detected", 2: "inconclusive"}.get(c.returncode, "rc=%d" % c.returncode)
        if c.returncode == 2:
            m = re.search(r"INCONCLUSIVE[^\n]*", c.stdout)
            verdict += " [" + (m.group(0)[:160] if m else c.stdout[-160:].replace("\n", " ")) + "]"
        rows.append((name, prop, rel, what, tests, verdict + (" (" + ", ".join(sigs)[:120] + ")" if sigs else ""), "%.0fs" % dt))
        print(rows[-1], flush=True)
    # results are kept per mutant, so that partial re-runs update the table in place
    store = os.path.join(ROOT, "sens_results.json")
    allres = json.load(open(store)) if os.path.exists(store) else {}
    for r in rows:
        allres[r[0]] = list(r)
    names = [m[0] for m in MUTANTS]
    allres = {k: v for k, v in allres.items() if k in names}
    json.dump(allres, open(store, "w"), indent=1)
    out = ["# Sensitivity of the quick checks to hand-written mutants", "",
           "Each mutant replaces one fragment of one file of /repo through `go -overlay` (the tree is untouched).",
           "`repo tests` says whether the repository's own tests of that package still pass with the mutant;",
           "`quick check` is the verdict of `./check <property> quick` (VERIF_SEED=1) on the mutated code.", "",
           "| mutant | property | file | change | repo tests | quick check | time |", "|---|---|---|---|---|---|---|"]
    for n in names:
        if n in allres:
            out.append("| " + " | ".join(allres[n]) + " |")
    open(os.path.join(ROOT, "SENSITIVITY.md"), "w").write("\n".join(out) + "\n")


if __name__ == "__main__":
    main()
