#!/bin/bash
# seedverify.sh <worktree> <seed-id>: confirm a seeded change (suite green with it, demo fails with it and
# passes without it) and store it under /verif/seeded/<seed-id>/.
set -u
WT=$1; ID=$2
export GOFLAGS=-mod=mod GOPROXY=off GOSUMDB=off
cd "$WT" || exit 2
FILES=$(git diff --name-only -- . ':!*_test.go' ':!SEEDED_*')
DEMOS=$(git ls-files --others --exclude-standard | grep '_test.go$')
echo "changed: $FILES"; echo "demos: $DEMOS"
PKGS=$(for d in $DEMOS; do echo ./$(dirname $d); done | sort -u)
echo "== suite with change (demo skipped)"
go test -vet=off -count=1 -skip 'TestSeeded' ./... 2>&1 | grep -v "no test files" | tail -6
SUITE=${PIPESTATUS[0]}
echo "== demo with change (must fail)"
go test -vet=off -count=1 -run 'TestSeeded' $PKGS > /tmp/seed-$ID-with.log 2>&1; WITH=$?
tail -5 /tmp/seed-$ID-with.log
echo "== demo without change (must pass)"
# (not git stash: the stash is shared by all worktrees of a repository)
git diff -- $FILES > /tmp/seed-$ID-src.diff
git apply -R /tmp/seed-$ID-src.diff
go test -vet=off -count=1 -run 'TestSeeded' $PKGS > /tmp/seed-$ID-without.log 2>&1; WITHOUT=$?
tail -3 /tmp/seed-$ID-without.log
git apply /tmp/seed-$ID-src.diff
echo "suite=$SUITE demo_with=$WITH demo_without=$WITHOUT"
if [ $SUITE -eq 0 ] && [ $WITH -ne 0 ] && [ $WITHOUT -eq 0 ]; then
  D=/verif/seeded/$ID; mkdir -p $D
  git diff -- $FILES > $D/patch.diff
  for d in $DEMOS; do mkdir -p $D/demo/$(dirname $d); cp $d $D/demo/$d; done
  cp SEEDED_NOTES.md $D/NOTES.md 2>/dev/null
  echo "CONFIRMED -> $D"
else
  echo "NOT CONFIRMED"
fi
