#!/bin/bash
# seedrun_overlay.sh <seed-id> <property> [tier]: like seedrun.sh but without touching /repo: the files the
# patch changes are copied, patched and injected with go -overlay (VERIF_OVERLAY).
ID=$1; PROP=$2; TIER=${3:-quick}
D=/verif/.work/seedov/$ID; rm -rf $D; mkdir -p $D/tree
FILES=$(grep '^+++ b/' /verif/seeded/$ID/patch.diff | sed 's#^+++ b/##')
for f in $FILES; do mkdir -p $D/tree/$(dirname $f); cp /repo/$f $D/tree/$f; done
(cd $D/tree && patch -s -p1 < /verif/seeded/$ID/patch.diff) || exit 2
python3 - "$D" $FILES > $D/overlay.json <<'PY'
import json,sys
d=sys.argv[1]
print(json.dumps({"Replace":{"/repo/"+f: d+"/tree/"+f for f in sys.argv[2:]}}))
PY
cd /verif && VERIF_OVERLAY=$D/overlay.json ./check $PROP $TIER > $D/out.log 2>&1; RC=$?
grep -a -E "^VIOLATION|^KNOWN|quick:|thorough:|INCONCLUSIVE" $D/out.log | cut -c1-260
echo "seed=$ID check=$PROP tier=$TIER rc=$RC (overlay)"
