#!/bin/bash
# seedrun_overlay.sh <seed-id> <property> [tier]: run a check against a seeded change without touching /repo.
# The files the patch changes are taken at the commit the seed was made against (meta.json base_commit, default
# 49b9765), patched, three-way merged with /repo's current version (later fix: commits must stay in), and
# injected with go -overlay (VERIF_OVERLAY).
ID=$1; PROP=$2; TIER=${3:-quick}
D=/verif/.work/seedov/$ID; rm -rf $D; mkdir -p $D/base $D/tree
BASE=$(python3 -c "import json;print(json.load(open('/verif/seeded/$ID/meta.json')).get('base_commit','49b9765'))" 2>/dev/null || echo 49b9765)
PATCH=/verif/seeded/$ID/patch.diff
if [ -f /verif/seeded/$ID/patch.current.diff ]; then
  # the seed re-expressed against the current tree (its original patch no longer merges meaningfully after later fix: commits)
  PATCH=/verif/seeded/$ID/patch.current.diff; BASE=HEAD
fi
FILES=$(grep '^+++ b/' $PATCH | sed 's#^+++ b/##')
for f in $FILES; do
  mkdir -p $D/base/$(dirname $f) $D/tree/$(dirname $f)
  git -C /repo show $BASE:$f > $D/base/$f || exit 2
  cp $D/base/$f $D/tree/$f
done
(cd $D/tree && patch -s -p1 < $PATCH) || exit 2
for f in $FILES; do
  cp /repo/$f $D/cur.tmp
  if git merge-file -p $D/cur.tmp $D/base/$f $D/tree/$f > $D/merged.tmp 2>/dev/null; then cp $D/merged.tmp $D/tree/$f; else echo "merge conflict in $f: using base+seed"; fi
done
python3 - "$D" $FILES > $D/overlay.json <<'PY'
import json,sys
d=sys.argv[1]
print(json.dumps({"Replace":{"/repo/"+f: d+"/tree/"+f for f in sys.argv[2:]}}))
PY
cd /verif && VERIF_EVIDENCE_DIR=/verif/.work/evidence-seeds VERIF_OVERLAY=$D/overlay.json ./check $PROP $TIER > $D/out.log 2>&1; RC=$?
grep -a -E "^VIOLATION|^KNOWN|quick:|thorough:|INCONCLUSIVE" $D/out.log | cut -c1-260
echo "seed=$ID check=$PROP tier=$TIER rc=$RC (overlay)"
