#!/bin/bash
# thorough_all.sh [ids...]: run the thorough tier of every property in turn from the directory this script is in
# (evidence goes to /verif/evidence_thorough/, the summary to /verif/.work/thorough_all.log).
cd "$(dirname "$0")"; mkdir -p .work /verif/.work /verif/evidence_thorough
for id in ${@:-C01 C02 C03 C04 C05 C06 C07 C08 C09 C10 C11 C12 C13 C14 C15 C16 C17 C18 C19 C20}; do
  t0=$(date +%s)
  VERIF_EVIDENCE_DIR=/verif/evidence_thorough ./check $id thorough > .work/thorough.$id.log 2>&1; rc=$?
  cp .work/thorough.$id.log /verif/.work/thorough.$id.log 2>/dev/null
  echo "$id rc=$rc $(( $(date +%s) - t0 ))s $(tail -1 .work/thorough.$id.log | cut -c1-300)" | tee -a /verif/.work/thorough_all.log
done
