#!/bin/bash
# thorough_all.sh: run the thorough tier of every property in turn (evidence goes to evidence_thorough/).
cd /verif
for id in ${@:-C01 C02 C03 C04 C05 C06 C07 C08 C09 C10 C11 C12 C13 C14 C15 C16 C17 C18 C19 C20}; do
  t0=$(date +%s)
  VERIF_EVIDENCE_DIR=/verif/evidence_thorough ./check $id thorough > .work/thorough.$id.log 2>&1; rc=$?
  echo "$id rc=$rc $(( $(date +%s) - t0 ))s $(tail -1 .work/thorough.$id.log | cut -c1-300)"
done
