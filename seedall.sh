#!/bin/bash
# seedall.sh [tier]: run every stored seeded change against the check of the property it breaks (go -overlay,
# /repo untouched) and print one line per seed; exit 1 if any seed is no longer detected.
cd /verif; TIER=${1:-quick}; MISS=0
for d in seeded/*/; do
  id=$(basename $d); prop=$(python3 -c "import json;m=json.load(open('$d/meta.json'));print(m.get('check_with') or m['breaks_property'])")
  if python3 -c "import json,sys;sys.exit(0 if json.load(open('$d/meta.json')).get('neutralised_by') else 1)"; then
    echo "$id $prop SKIPPED (neutralised by a later fix: commit, see meta.json)"; continue
  fi
  if python3 -c "import json,sys;sys.exit(0 if json.load(open('$d/meta.json')).get('known_miss') else 1)"; then
    echo "$id $prop KNOWN-MISS (recorded as not detected, see meta.json and DESIGN.md 8.4)"; continue
  fi
  out=$(./seedrun_overlay.sh $id $prop $TIER 2>&1)
  rc=$(echo "$out" | grep -o "rc=[0-9]*" | tail -1)
  sigs=$(echo "$out" | grep -o "sig=[^ ]*" | sort -u | tr '\n' ' ')
  echo "$id $prop $rc $sigs"
  [ "$rc" = "rc=1" ] || MISS=$((MISS+1))
done
echo "not detected: $MISS"
[ $MISS -eq 0 ]
